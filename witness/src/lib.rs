//! Type-level witnesses (DESIGN §3.5): each `*_bad` item carries a `compile_fail,E0xxx` doctest that
//! must be rejected by rustc with exactly that error, and the `*_twin` item the same program
//! without the offending overlap, which must compile (`no_run`: nothing is executed).
//! Run with `cargo +nightly test --doc --offline` (stable ignores the error code).

/// A second point cloud cannot be started while a PointCloudWriter is alive.
/// ```compile_fail,E0499
/// use e57::*;
/// let mut w = E57Writer::new(std::io::Cursor::new(Vec::new()), "g").unwrap();
/// let proto = vec![Record::CARTESIAN_X_F32, Record::CARTESIAN_Y_F32, Record::CARTESIAN_Z_F32];
/// let mut a = w.add_pointcloud("a", proto.clone()).unwrap();
/// let mut b = w.add_pointcloud("b", proto.clone()).unwrap();
/// a.finalize().unwrap();
/// b.finalize().unwrap();
/// ```
pub fn pcw_second_pointcloud_bad() {}

/// ```no_run
/// use e57::*;
/// let mut w = E57Writer::new(std::io::Cursor::new(Vec::new()), "g").unwrap();
/// let proto = vec![Record::CARTESIAN_X_F32, Record::CARTESIAN_Y_F32, Record::CARTESIAN_Z_F32];
/// let mut a = w.add_pointcloud("a", proto.clone()).unwrap();
/// a.finalize().unwrap();
/// let mut b = w.add_pointcloud("b", proto.clone()).unwrap();
/// b.finalize().unwrap();
/// ```
pub fn pcw_second_pointcloud_twin() {}

/// A blob cannot be written while a PointCloudWriter is alive.
/// ```compile_fail,E0499
/// use e57::*;
/// let mut w = E57Writer::new(std::io::Cursor::new(Vec::new()), "g").unwrap();
/// let proto = vec![Record::CARTESIAN_X_F32, Record::CARTESIAN_Y_F32, Record::CARTESIAN_Z_F32];
/// let mut a = w.add_pointcloud("a", proto).unwrap();
/// let blob = w.add_blob(&mut std::io::Cursor::new(vec![1u8, 2, 3])).unwrap();
/// a.finalize().unwrap();
/// ```
pub fn pcw_blob_while_open_bad() {}

/// ```no_run
/// use e57::*;
/// let mut w = E57Writer::new(std::io::Cursor::new(Vec::new()), "g").unwrap();
/// let proto = vec![Record::CARTESIAN_X_F32, Record::CARTESIAN_Y_F32, Record::CARTESIAN_Z_F32];
/// let mut a = w.add_pointcloud("a", proto).unwrap();
/// a.finalize().unwrap();
/// let blob = w.add_blob(&mut std::io::Cursor::new(vec![1u8, 2, 3])).unwrap();
/// ```
pub fn pcw_blob_while_open_twin() {}

/// An image cannot be started while a PointCloudWriter is alive.
/// ```compile_fail,E0499
/// use e57::*;
/// let mut w = E57Writer::new(std::io::Cursor::new(Vec::new()), "g").unwrap();
/// let proto = vec![Record::CARTESIAN_X_F32, Record::CARTESIAN_Y_F32, Record::CARTESIAN_Z_F32];
/// let mut a = w.add_pointcloud("a", proto).unwrap();
/// let mut i = w.add_image("img").unwrap();
/// a.finalize().unwrap();
/// i.finalize().unwrap();
/// ```
pub fn pcw_image_while_open_bad() {}

/// ```no_run
/// use e57::*;
/// let mut w = E57Writer::new(std::io::Cursor::new(Vec::new()), "g").unwrap();
/// let proto = vec![Record::CARTESIAN_X_F32, Record::CARTESIAN_Y_F32, Record::CARTESIAN_Z_F32];
/// let mut a = w.add_pointcloud("a", proto).unwrap();
/// a.finalize().unwrap();
/// let mut i = w.add_image("img").unwrap();
/// i.finalize().unwrap();
/// ```
pub fn pcw_image_while_open_twin() {}

/// The file cannot be finalized while a PointCloudWriter is alive.
/// ```compile_fail,E0499
/// use e57::*;
/// let mut w = E57Writer::new(std::io::Cursor::new(Vec::new()), "g").unwrap();
/// let proto = vec![Record::CARTESIAN_X_F32, Record::CARTESIAN_Y_F32, Record::CARTESIAN_Z_F32];
/// let mut a = w.add_pointcloud("a", proto).unwrap();
/// w.finalize().unwrap();
/// a.finalize().unwrap();
/// ```
pub fn pcw_finalize_while_open_bad() {}

/// ```no_run
/// use e57::*;
/// let mut w = E57Writer::new(std::io::Cursor::new(Vec::new()), "g").unwrap();
/// let proto = vec![Record::CARTESIAN_X_F32, Record::CARTESIAN_Y_F32, Record::CARTESIAN_Z_F32];
/// let mut a = w.add_pointcloud("a", proto).unwrap();
/// a.finalize().unwrap();
/// w.finalize().unwrap();
/// ```
pub fn pcw_finalize_while_open_twin() {}

/// Two live point iterators on one reader do not compile.
/// ```compile_fail,E0499
/// use e57::*;
/// let mut r = E57Reader::new(std::io::Cursor::new(Vec::new())).unwrap();
/// let pcs = r.pointclouds();
/// let mut a = r.pointcloud_raw(&pcs[0]).unwrap();
/// let mut b = r.pointcloud_raw(&pcs[1]).unwrap();
/// a.next();
/// b.next();
/// ```
pub fn rd_two_raw_iterators_bad() {}

/// ```no_run
/// use e57::*;
/// let mut r = E57Reader::new(std::io::Cursor::new(Vec::new())).unwrap();
/// let pcs = r.pointclouds();
/// let mut a = r.pointcloud_raw(&pcs[0]).unwrap();
/// a.next();
/// let mut b = r.pointcloud_raw(&pcs[1]).unwrap();
/// b.next();
/// ```
pub fn rd_two_raw_iterators_twin() {}

/// A raw and a simple iterator cannot be alive together.
/// ```compile_fail,E0499
/// use e57::*;
/// let mut r = E57Reader::new(std::io::Cursor::new(Vec::new())).unwrap();
/// let pcs = r.pointclouds();
/// let mut a = r.pointcloud_simple(&pcs[0]).unwrap();
/// let mut b = r.pointcloud_raw(&pcs[0]).unwrap();
/// a.next();
/// b.next();
/// ```
pub fn rd_simple_and_raw_bad() {}

/// ```no_run
/// use e57::*;
/// let mut r = E57Reader::new(std::io::Cursor::new(Vec::new())).unwrap();
/// let pcs = r.pointclouds();
/// let mut a = r.pointcloud_simple(&pcs[0]).unwrap();
/// a.next();
/// let mut b = r.pointcloud_raw(&pcs[0]).unwrap();
/// b.next();
/// ```
pub fn rd_simple_and_raw_twin() {}

/// A blob cannot be extracted while an iterator is alive.
/// ```compile_fail,E0499
/// use e57::*;
/// let mut r = E57Reader::new(std::io::Cursor::new(Vec::new())).unwrap();
/// let pcs = r.pointclouds();
/// let mut a = r.pointcloud_raw(&pcs[0]).unwrap();
/// let mut out = Vec::new();
/// r.blob(&Blob::new(48, 10), &mut out).unwrap();
/// a.next();
/// ```
pub fn rd_blob_while_iterating_bad() {}

/// ```no_run
/// use e57::*;
/// let mut r = E57Reader::new(std::io::Cursor::new(Vec::new())).unwrap();
/// let pcs = r.pointclouds();
/// let mut a = r.pointcloud_raw(&pcs[0]).unwrap();
/// a.next();
/// let mut out = Vec::new();
/// r.blob(&Blob::new(48, 10), &mut out).unwrap();
/// ```
pub fn rd_blob_while_iterating_twin() {}

/// The page reader inside E57Reader is private state.
/// ```compile_fail,E0616
/// use e57::*;
/// let r = E57Reader::new(std::io::Cursor::new(Vec::new())).unwrap();
/// let _x = &r.reader;
/// ```
pub fn rd_reader_field_private_bad() {}

/// ```no_run
/// use e57::*;
/// let r = E57Reader::new(std::io::Cursor::new(Vec::new())).unwrap();
/// let _x = r.header();
/// ```
pub fn rd_reader_field_private_twin() {}

/// The paged reader module is not part of the public API.
/// ```compile_fail,E0603
/// use e57::paged_reader::PagedReader;
/// ```
pub fn rd_paged_reader_private_bad() {}

/// ```no_run
/// use e57::E57Reader;
/// ```
pub fn rd_paged_reader_private_twin() {}
