#!/bin/bash
# Defect U (C20): e57-to-xyz exits 0 although the XYZ output could not be written.
# usage: U_to_xyz_flush.sh <checkout of cry-inc/e57>   (builds the two tools there, works in a temp dir)
set -e
repo=${1:?checkout}
tmp=$(mktemp -d)
(cd "$repo" && CARGO_NET_OFFLINE=true cargo build --offline -q -p e57-to-xyz -p e57-from-xyz)
printf "1 2 3 10 20 30\n4 5 6 40 50 60\n" > "$tmp/in.xyz"
"$repo/target/debug/e57-from-xyz" "$tmp/in.xyz"
ln -sf /dev/full "$tmp/in.xyz.e57.xyz"          # the output path of e57-to-xyz is <input>.xyz
if RUST_BACKTRACE=0 "$repo/target/debug/e57-to-xyz" "$tmp/in.xyz.e57" 2>/dev/null; then
  echo "DEFECT: exit status 0 although no byte could be written (before fix 6208ce5)"; rc=1
else
  echo "OK: the failed write is reported"; rc=0
fi
rm -rf "$tmp"; exit $rc
