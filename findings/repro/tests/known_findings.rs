//! Demonstrations of the genuine, unrepaired defects listed in /verif/known_findings.json.
//! These tests FAIL on the current tree (that is the point); they are documentation, not checks.
use e57::*;
use std::io::Cursor;

fn xyz() -> Vec<Record> { vec![Record::CARTESIAN_X_F32, Record::CARTESIAN_Y_F32, Record::CARTESIAN_Z_F32] }

/// I (C18): element lookups match the local name only, so a foreign-namespace element with a
/// standard local name that precedes the standard element is taken for it.
#[test]
fn i_foreign_namespace_element_shadows_standard_one() {
    let mut cur = Cursor::new(Vec::new());
    {
        let mut w = E57Writer::new(&mut cur, "real-guid").unwrap();
        w.register_extension(Extension::new("ext", "http://example.com/ext")).unwrap();
        let mut pw = w.add_pointcloud("pc-guid", xyz()).unwrap();
        pw.set_name(Some("real name".into()));
        pw.add_point(vec![RecordValue::Single(1.0), RecordValue::Single(2.0), RecordValue::Single(3.0)]).unwrap();
        pw.finalize().unwrap();
        w.finalize_customized_xml(|x| Ok(x
            .replace("<formatName", "<ext:guid type=\"String\"><![CDATA[evil]]></ext:guid>\n<formatName")
            .replace("<points type=", "<ext:meta type=\"Structure\"><name type=\"String\"><![CDATA[nested]]></name></ext:meta>\n<points type="))).unwrap();
    }
    cur.set_position(0);
    let r = E57Reader::new(cur).unwrap();
    assert_eq!(r.guid(), "real-guid", "a foreign <ext:guid> element changed the file GUID");
}

/// L (C10): validate_name accepts names that are not XML names; the finalized file cannot be opened.
#[test]
fn l_extension_name_starting_with_digit() {
    let mut cur = Cursor::new(Vec::new());
    let accepted;
    {
        let mut w = E57Writer::new(&mut cur, "g").unwrap();
        accepted = w.register_extension(Extension::new("0129", "http://example.com/ext")).is_ok();
        w.finalize().unwrap();
    }
    cur.set_position(0);
    let opened = E57Reader::new(cur).is_ok();
    assert!(!accepted || opened, "namespace '0129' was accepted by register_extension but the finalized file is not well-formed XML");
}
