use e57::*;
use std::io::{Cursor, Read, Seek, SeekFrom};

fn crc32c(data: &[u8]) -> u32 {
    let mut crc = !0u32;
    for &b in data {
        crc ^= b as u32;
        for _ in 0..8 {
            crc = if crc & 1 != 0 { (crc >> 1) ^ 0x82F63B78 } else { crc >> 1 };
        }
    }
    !crc
}
fn reseal(file: &mut Vec<u8>) {
    for p in file.chunks_mut(1024) {
        let c = crc32c(&p[..1020]).to_be_bytes();
        p[1020..].copy_from_slice(&c);
    }
}
fn logical(file: &[u8]) -> Vec<u8> {
    let mut v = Vec::new();
    for p in file.chunks(1024) { v.extend_from_slice(&p[..1020]); }
    v
}
fn physical(log: &[u8]) -> Vec<u8> {
    let mut v = Vec::new();
    for p in log.chunks(1020) {
        let mut page = p.to_vec();
        page.resize(1020, 0);
        let c = crc32c(&page).to_be_bytes();
        v.extend_from_slice(&page);
        v.extend_from_slice(&c);
    }
    v
}
fn phys2log(p: u64) -> u64 { p - (p / 1024) * 4 }
fn log2phys(l: u64) -> u64 { l + (l / 1020) * 4 }
fn xyz() -> Vec<Record> { vec![Record::CARTESIAN_X_F32, Record::CARTESIAN_Y_F32, Record::CARTESIAN_Z_F32] }
fn pt(x: f32) -> Vec<RecordValue> { vec![RecordValue::Single(x), RecordValue::Single(x), RecordValue::Single(x)] }

#[test]
fn a_cylindrical_roundtrip() {
    let mut cur = Cursor::new(Vec::new());
    {
        let mut w = E57Writer::new(&mut cur, "g").unwrap();
        let mut iw = w.add_image("img").unwrap();
        let mut data = Cursor::new(vec![1u8, 2, 3]);
        iw.add_cylindrical(ImageFormat::Png, &mut data, CylindricalImageProperties { width: 1, height: 1, radius: 1.5, principal_y: 0.0, pixel_width: 1.0, pixel_height: 1.0 }, None).unwrap();
        iw.finalize().unwrap();
        w.finalize().unwrap();
    }
    cur.set_position(0);
    let r = E57Reader::new(cur).expect("file with cylindrical image must be readable");
    match &r.images()[0].projection { Some(Projection::Cylindrical(c)) => assert_eq!(c.properties.radius, 1.5), _ => panic!() }
}

#[test]
fn b_cdata_end_in_string() {
    for s in ["a]]>b", "]]>", "]]]]>>", "x]]", "]]>]]>"] {
        let mut cur = Cursor::new(Vec::new());
        {
            let mut w = E57Writer::new(&mut cur, "g]]>uid").unwrap();
            w.set_coordinate_metadata(Some(s.to_string()));
            let mut pw = w.add_pointcloud("pc]]>guid", xyz()).unwrap();
            pw.set_name(Some(s.to_string()));
            pw.add_point(pt(1.0)).unwrap();
            pw.finalize().unwrap();
            w.finalize().unwrap();
        }
        cur.set_position(0);
        let r = E57Reader::new(cur).expect("readable");
        assert_eq!(r.coordinate_metadata(), Some(s));
        assert_eq!(r.guid(), "g]]>uid");
        assert_eq!(r.pointclouds()[0].name.as_deref(), Some(s));
        assert_eq!(r.pointclouds()[0].guid.as_deref(), Some("pc]]>guid"));
    }
}

#[test]
fn c_all_zero_width_prototype() {
    let mut cur = Cursor::new(Vec::new());
    let mut w = E57Writer::new(&mut cur, "g").unwrap();
    let dt = RecordDataType::Integer { min: 5, max: 5 };
    let proto = vec![
        Record { name: RecordName::CartesianX, data_type: dt.clone() },
        Record { name: RecordName::CartesianY, data_type: dt.clone() },
        Record { name: RecordName::CartesianZ, data_type: dt.clone() },
    ];
    let r = w.add_pointcloud("pc", proto);
    // must not panic; either works or is an error
    let _ = r.is_ok();
}

#[test]
fn d_full_range_integer() {
    let mut cur = Cursor::new(Vec::new());
    {
        let mut w = E57Writer::new(&mut cur, "g").unwrap();
        let mut proto = xyz();
        proto.push(Record { name: RecordName::Intensity, data_type: RecordDataType::Integer { min: i64::MIN, max: i64::MAX } });
        let mut pw = w.add_pointcloud("pc", proto).unwrap();
        for v in [i64::MAX, i64::MIN, 0, -1, 1] {
            let mut p = pt(0.0); p.push(RecordValue::Integer(v));
            pw.add_point(p).unwrap();
        }
        pw.finalize().unwrap();
        w.finalize().unwrap();
    }
    cur.set_position(0);
    let mut r = E57Reader::new(cur).unwrap();
    let pc = r.pointclouds()[0].clone();
    let vals: Vec<_> = r.pointcloud_raw(&pc).unwrap().map(|p| p.unwrap()[3].clone()).collect();
    assert_eq!(vals, vec![RecordValue::Integer(i64::MAX), RecordValue::Integer(i64::MIN), RecordValue::Integer(0), RecordValue::Integer(-1), RecordValue::Integer(1)]);
}

#[test]
fn e_out_of_range_integer_rejected() {
    let mut cur = Cursor::new(Vec::new());
    let mut w = E57Writer::new(&mut cur, "g").unwrap();
    let mut proto = xyz();
    proto.push(Record { name: RecordName::Intensity, data_type: RecordDataType::Integer { min: 0, max: 15 } });
    proto.push(Record { name: RecordName::TimeStamp, data_type: RecordDataType::ScaledInteger { min: -4, max: 4, scale: 1.0, offset: 0.0 } });
    let mut pw = w.add_pointcloud("pc", proto).unwrap();
    let mk = |i: i64, s: i64| { let mut p = pt(0.0); p.push(RecordValue::Integer(i)); p.push(RecordValue::ScaledInteger(s)); p };
    assert!(pw.add_point(mk(255, 0)).is_err());
    assert!(pw.add_point(mk(-1, 0)).is_err());
    assert!(pw.add_point(mk(0, 5)).is_err());
    assert!(pw.add_point(mk(0, -5)).is_err());
    assert!(pw.add_point(mk(15, 4)).is_ok());
    assert!(pw.add_point(mk(0, -4)).is_ok());
}

fn intensity_file(dt: RecordDataType, vals: &[RecordValue], limits: Option<IntensityLimits>) -> Cursor<Vec<u8>> {
    let mut cur = Cursor::new(Vec::new());
    {
        let mut w = E57Writer::new(&mut cur, "g").unwrap();
        let mut proto = xyz();
        proto.push(Record { name: RecordName::Intensity, data_type: dt });
        let mut pw = w.add_pointcloud("pc", proto).unwrap();
        if let Some(l) = limits { pw.set_intensity_limits(Some(l)); }
        for v in vals { let mut p = pt(0.0); p.push(v.clone()); pw.add_point(p).unwrap(); }
        pw.finalize().unwrap();
        w.finalize().unwrap();
    }
    cur.set_position(0);
    cur
}

#[test]
fn f_nan_limits_and_degenerate_range() {
    // degenerate range 3..3 -> 0, never NaN
    let cur = intensity_file(RecordDataType::Double { min: None, max: None }, &[RecordValue::Double(3.0)],
        Some(IntensityLimits { intensity_min: Some(RecordValue::Double(3.0)), intensity_max: Some(RecordValue::Double(3.0)) }));
    let mut r = E57Reader::new(cur).unwrap();
    let pc = r.pointclouds()[0].clone();
    let p = r.pointcloud_simple(&pc).unwrap().next().unwrap().unwrap();
    assert_eq!(p.intensity, Some(0.0));
    // NaN limit: must not panic
    let cur = intensity_file(RecordDataType::Double { min: None, max: None }, &[RecordValue::Double(3.0)],
        Some(IntensityLimits { intensity_min: Some(RecordValue::Double(f64::NAN)), intensity_max: Some(RecordValue::Double(1.0)) }));
    let mut r = E57Reader::new(cur).unwrap();
    let pc = r.pointclouds()[0].clone();
    if let Ok(mut it) = r.pointcloud_simple(&pc) {
        if let Some(Ok(p)) = it.next() { assert!(!p.intensity.unwrap().is_nan()); }
    }
}

#[test]
fn p_extreme_ranges_no_nan() {
    let cur = intensity_file(RecordDataType::Double { min: None, max: None }, &[RecordValue::Double(f64::MAX), RecordValue::Double(0.0), RecordValue::Double(f64::MIN)], None);
    let mut r = E57Reader::new(cur).unwrap();
    let pc = r.pointclouds()[0].clone();
    for p in r.pointcloud_simple(&pc).unwrap() { let i = p.unwrap().intensity.unwrap(); assert!(i >= 0.0 && i <= 1.0, "{i}"); }
    let cur = intensity_file(RecordDataType::Double { min: Some(0.0), max: Some(5e-324) }, &[RecordValue::Double(0.0), RecordValue::Double(5e-324)], None);
    let mut r = E57Reader::new(cur).unwrap();
    let pc = r.pointclouds()[0].clone();
    for p in r.pointcloud_simple(&pc).unwrap() { let i = p.unwrap().intensity.unwrap(); assert!(i >= 0.0 && i <= 1.0, "{i}"); }
}

fn blob_file(len: usize) -> (Vec<u8>, Blob) {
    let mut cur = Cursor::new(Vec::new());
    let blob;
    {
        let mut w = E57Writer::new(&mut cur, "g").unwrap();
        let data: Vec<u8> = (0..len).map(|i| i as u8).collect();
        blob = w.add_blob(&mut Cursor::new(data)).unwrap();
        w.finalize().unwrap();
    }
    (cur.into_inner(), blob)
}

#[test]
fn g_blob_header_overflow() {
    let (mut file, blob) = blob_file(10);
    let o = blob.offset as usize;
    file[o + 8..o + 16].copy_from_slice(&u64::MAX.to_le_bytes());
    reseal(&mut file);
    let mut r = E57Reader::new(Cursor::new(file)).unwrap();
    let mut out = Vec::new();
    let _ = r.blob(&blob, &mut out); // must not panic
}

#[test]
fn g2_blob_short_read() {
    let (mut file, blob) = blob_file(10);
    let o = blob.offset as usize;
    file[o + 8..o + 16].copy_from_slice(&2_000_000u64.to_le_bytes());
    reseal(&mut file);
    let mut r = E57Reader::new(Cursor::new(file)).unwrap();
    let mut out = Vec::new();
    let res = r.blob(&Blob::new(blob.offset, 1_000_000), &mut out);
    match res { Ok(n) => assert_eq!(n, 1_000_000, "short read reported as success"), Err(_) => {} }
}

fn h_file(insert: &[u8]) -> Vec<u8> {
    let mut cur = Cursor::new(Vec::new());
    {
        let mut w = E57Writer::new(&mut cur, "g").unwrap();
        let mut pw = w.add_pointcloud("pc", xyz()).unwrap();
        pw.add_point(pt(1.0)).unwrap();
        pw.add_point(pt(2.0)).unwrap();
        pw.finalize().unwrap();
        w.finalize().unwrap();
    }
    let file = cur.into_inner();
    let mut log = logical(&file);
    // header fields
    let phys_xml = u64::from_le_bytes(log[24..32].try_into().unwrap());
    let xml_len = u64::from_le_bytes(log[32..40].try_into().unwrap());
    let xml_log = phys2log(phys_xml) as usize;
    let section_log = 48usize; // first section right after header
    let data_phys = u64::from_le_bytes(log[section_log + 16..section_log + 24].try_into().unwrap());
    let data_log = phys2log(data_phys) as usize;
    let sec_len = u64::from_le_bytes(log[section_log + 8..section_log + 16].try_into().unwrap());
    // insert packet
    let n = insert.len();
    let mut new_log = log[..data_log].to_vec();
    new_log.extend_from_slice(insert);
    new_log.extend_from_slice(&log[data_log..xml_log + xml_len as usize]);
    new_log[section_log + 8..section_log + 16].copy_from_slice(&(sec_len + n as u64).to_le_bytes());
    let new_xml_phys = log2phys((xml_log + n) as u64);
    new_log[24..32].copy_from_slice(&new_xml_phys.to_le_bytes());
    let phys = physical(&new_log);
    let mut new_log2 = new_log.clone();
    new_log2[16..24].copy_from_slice(&(phys.len() as u64).to_le_bytes());
    log = new_log2;
    physical(&log)
}

#[test]
fn h_ignored_and_index_packets() {
    for ins in [vec![2u8, 0, 7, 0, 9, 9, 9, 9], { let mut v = vec![0u8; 16]; v[2] = 15; v }, { let mut v = vec![0u8; 32]; v[2] = 31; v[4] = 1; v }] {
        let file = h_file(&ins);
        let mut r = E57Reader::new(Cursor::new(file)).unwrap();
        let pc = r.pointclouds()[0].clone();
        let pts: Vec<_> = r.pointcloud_raw(&pc).unwrap().collect::<Result<Vec<_>>>().expect("legal non-data packet must be skipped");
        assert_eq!(pts.len(), 2);
        assert_eq!(pts[1][0], RecordValue::Single(2.0));
    }
}

struct Flaky { inner: Cursor<Vec<u8>>, reads: usize, fail_at: usize }
impl Read for Flaky {
    fn read(&mut self, buf: &mut [u8]) -> std::io::Result<usize> {
        self.reads += 1;
        if self.reads == self.fail_at + 1 { return Err(std::io::Error::new(std::io::ErrorKind::Other, "injected")); }
        if self.reads == self.fail_at { let n = buf.len().min(100); return self.inner.read(&mut buf[..n]); }
        self.inner.read(buf)
    }
}
impl Seek for Flaky { fn seek(&mut self, p: SeekFrom) -> std::io::Result<u64> { self.inner.seek(p) } }

#[test]
fn j_stale_cache_after_failed_read() {
    let mut cur = Cursor::new(Vec::new());
    let (b1, b2);
    {
        let mut w = E57Writer::new(&mut cur, "g").unwrap();
        b1 = w.add_blob(&mut Cursor::new(vec![7u8; 500])).unwrap();
        let _pad = w.add_blob(&mut Cursor::new(vec![8u8; 3000])).unwrap();
        b2 = w.add_blob(&mut Cursor::new(vec![9u8; 500])).unwrap();
        w.finalize().unwrap();
    }
    let file = cur.into_inner();
    let mut found = false;
    for n in 1..40 {
        let dev = Flaky { inner: Cursor::new(file.clone()), reads: 0, fail_at: usize::MAX - 1 };
        let mut r = match E57Reader::new(dev) { Ok(r) => r, Err(_) => continue };
        let mut o1 = Vec::new();
        if r.blob(&b1, &mut o1).is_err() { continue; }
        // arm the fault relative to now
        // (can't access device; so emulate by fresh reader with absolute count)
        let dev = Flaky { inner: Cursor::new(file.clone()), reads: 0, fail_at: n };
        let mut r = match E57Reader::new(dev) { Ok(r) => r, Err(_) => continue };
        let mut o1 = Vec::new();
        if r.blob(&b1, &mut o1).is_err() { continue; }
        let mut o2 = Vec::new();
        if r.blob(&b2, &mut o2).is_ok() { continue; }
        found = true;
        let mut o1b = Vec::new();
        let res = r.blob(&b1, &mut o1b);
        match res { Ok(_) => assert_eq!(o1b, o1), Err(e) => panic!("n={n}: re-reading cached blob after failed read differs from fresh reader: {e}") }
    }
    assert!(found, "fault position not exercised");
}

#[test]
fn k_zero_width_only_prototype_read() {
    let mut cur = Cursor::new(Vec::new());
    {
        let mut w = E57Writer::new(&mut cur, "g").unwrap();
        let mut pw = w.add_pointcloud("pc", xyz()).unwrap();
        pw.add_point(pt(1.0)).unwrap();
        pw.finalize().unwrap();
        w.finalize_customized_xml(|x| Ok(x.replace("type=\"Float\" precision=\"single\"", "type=\"Integer\" minimum=\"7\" maximum=\"7\""))).unwrap();
    }
    cur.set_position(0);
    let mut r = E57Reader::new(cur).unwrap();
    let pc = r.pointclouds()[0].clone();
    let mut it = r.pointcloud_raw(&pc).unwrap();
    let _ = it.next(); // must terminate without exhausting memory
}

#[test]
fn l2_extension_url_escaped() {
    let url = "http://example.com/a\"b<c&d";
    let mut cur = Cursor::new(Vec::new());
    {
        let mut w = E57Writer::new(&mut cur, "g").unwrap();
        w.register_extension(Extension::new("ext", url)).unwrap();
        w.finalize().unwrap();
    }
    cur.set_position(0);
    let r = E57Reader::new(cur).expect("readable");
    assert_eq!(r.extensions()[0].url, url);
}

#[test]
fn n_huge_prototype() {
    let mut cur = Cursor::new(Vec::new());
    let mut w = E57Writer::new(&mut cur, "g").unwrap();
    let mut proto = xyz();
    w.register_extension(Extension::new("ext", "http://x")).unwrap();
    for i in 0..6000 { proto.push(Record { name: RecordName::Unknown { namespace: "ext".into(), name: format!("a{i}") }, data_type: RecordDataType::F64 }); }
    match w.add_pointcloud("pc", proto) {
        Err(_) => {}
        Ok(mut pw) => {
            let mut p = pt(0.0); for _ in 0..6000 { p.push(RecordValue::Double(0.0)); }
            pw.add_point(p).unwrap();
            // would hang
            drop(pw);
            panic!("prototype too large for one packet accepted (finalize would hang)");
        }
    }
    // huge prototype must not panic either
    let mut proto = xyz();
    for i in 0..30000 { proto.push(Record { name: RecordName::Unknown { namespace: "ext".into(), name: format!("a{i}") }, data_type: RecordDataType::Integer{min:0,max:1} }); }
    let _ = w.add_pointcloud("pc2", proto).is_ok();
}

#[test]
fn q_rejected_point_leaves_bounds_untouched() {
    let mut cur = Cursor::new(Vec::new());
    {
        let mut w = E57Writer::new(&mut cur, "g").unwrap();
        let mut proto = xyz();
        proto.push(Record { name: RecordName::Intensity, data_type: RecordDataType::Integer { min: 0, max: 15 } });
        let mut pw = w.add_pointcloud("pc", proto).unwrap();
        let mut p = pt(1.0); p.push(RecordValue::Integer(3));
        pw.add_point(p).unwrap();
        // rejected: intensity out of range, but x/y/z = 100 come first
        let mut p = pt(100.0); p.push(RecordValue::Integer(99));
        assert!(pw.add_point(p).is_err());
        // rejected: type mismatch at the last index
        let mut p = pt(-100.0); p.push(RecordValue::Single(1.0));
        assert!(pw.add_point(p).is_err());
        pw.finalize().unwrap();
        w.finalize().unwrap();
    }
    cur.set_position(0);
    let r = E57Reader::new(cur).unwrap();
    let b = r.pointclouds()[0].cartesian_bounds.clone().unwrap();
    assert_eq!((b.x_min, b.x_max), (Some(1.0), Some(1.0)), "bounds contain values of rejected points");
}

#[test]
fn r_blob_section_length_includes_header() {
    for len in [0usize, 1, 3, 10, 1020, 3000] {
        let (file, blob) = blob_file(len);
        let log = logical(&file);
        let lo = phys2log(blob.offset) as usize;
        assert_eq!(log[lo], 0, "blob section id");
        let section_length = u64::from_le_bytes(log[lo + 8..lo + 16].try_into().unwrap());
        let want = ((16 + len as u64) + 3) / 4 * 4;
        assert_eq!(section_length, want, "blob of {len} bytes: sectionLogicalLength must cover header + data, padded to 4 (like the compressed vector section length covers its header)");
        // and the library still reads it back
        let mut r = E57Reader::new(Cursor::new(file)).unwrap();
        let mut out = Vec::new();
        assert_eq!(r.blob(&blob, &mut out).unwrap(), len as u64);
    }
}

/// I (C18-R2): descendants() accepts elements nested inside foreign content.
#[test]
fn s_descendant_lookup_sees_nested_foreign_content() {
    let mut cur = Cursor::new(Vec::new());
    {
        let mut w = E57Writer::new(&mut cur, "g").unwrap();
        w.register_extension(Extension::new("ext", "http://example.com/ext")).unwrap();
        let mut pw = w.add_pointcloud("pc-guid", xyz()).unwrap();
        pw.add_point(vec![RecordValue::Single(1.0), RecordValue::Single(2.0), RecordValue::Single(3.0)]).unwrap();
        pw.finalize().unwrap();
        // a foreign structure that happens to contain an (empty) data3D vector, placed before the real one
        w.finalize_customized_xml(|x| Ok(x.replace("<data3D type=", "<ext:archive type=\"Structure\"><data3D type=\"Vector\" allowHeterogeneousChildren=\"1\"></data3D></ext:archive>\n<data3D type="))).unwrap();
    }
    cur.set_position(0);
    let r = E57Reader::new(cur).unwrap();
    assert_eq!(r.pointclouds().len(), 1, "a data3D element nested in foreign content hid the real point clouds");
}

