//! T (C08): validate_crc counted pages in an i32. A virtual device presents 2^31 + 2 valid pages of
//! 64 bytes (page size is read from the file, any value > 4 is accepted) without storing them.
use std::io::{Read, Seek, SeekFrom};

fn crc32c(data: &[u8]) -> u32 {
    let mut crc = !0u32;
    for &b in data { crc ^= b as u32; for _ in 0..8 { crc = if crc & 1 != 0 { (crc >> 1) ^ 0x82F63B78 } else { crc >> 1 }; } }
    !crc
}
const P: u64 = 64;
struct Virtual { pos: u64, pages: u64, first: [u8; 64], other: [u8; 64] }
impl Virtual {
    fn new(pages: u64) -> Self {
        let mut first = [0u8; 64];
        first[40..48].copy_from_slice(&P.to_le_bytes());
        let c = crc32c(&first[..60]).to_be_bytes(); first[60..].copy_from_slice(&c);
        let mut other = [0u8; 64];
        let c = crc32c(&other[..60]).to_be_bytes(); other[60..].copy_from_slice(&c);
        Self { pos: 0, pages, first, other }
    }
}
impl Read for Virtual {
    fn read(&mut self, buf: &mut [u8]) -> std::io::Result<usize> {
        let size = self.pages * P;
        if self.pos >= size { return Ok(0); }
        let page = self.pos / P; let off = (self.pos % P) as usize;
        let src = if page == 0 { &self.first } else { &self.other };
        let n = buf.len().min(64 - off);
        buf[..n].copy_from_slice(&src[off..off + n]);
        self.pos += n as u64;
        Ok(n)
    }
}
impl Seek for Virtual {
    fn seek(&mut self, p: SeekFrom) -> std::io::Result<u64> {
        self.pos = match p { SeekFrom::Start(x) => x, SeekFrom::End(d) => (self.pages * P) as i64 as u64 + d as u64, SeekFrom::Current(d) => (self.pos as i64 + d) as u64 };
        Ok(self.pos)
    }
}
#[test]
fn t_validate_crc_with_more_than_2_31_pages() {
    let dev = Virtual::new((1u64 << 31) + 2);
    let r = e57::E57Reader::validate_crc(dev);
    assert_eq!(r.unwrap(), 64);
}
