"""C19-R1: nothing reachable from the writer API depends on hidden inputs."""
import json
import os
import re

from mirlib import *
from facts import VERIF

DENY = json.load(open(os.path.join(VERIF, "spec", "nondeterminism_denylist.json")))
WRITER_TYPES = ("e57_writer::E57Writer<", "pc_writer::PointCloudWriter<", "image_writer::ImageWriter<", "extension::Extension")


HASH_ITER = re.compile(DENY["hash_iterator_types"])


def hash_order_call(c, gargs=()):
    """a call that reveals the iteration order of a hash collection: an order-revealing method whose receiver is a
    HashMap / HashSet (inherent or through IntoIterator / Debug), or any callee instantiated with one of the hash
    iterator types. Membership operations (new, insert, contains, get, remove, len, entry, ...) are deterministic."""
    from panic_rules import receiver_head, _last_segment
    if HASH_ITER.search(c):
        return True
    if receiver_head(c) in DENY["hash_collections"] and _last_segment(c) in DENY["hash_order_methods"]:
        return True
    # Debug-formatting a hash collection: core::fmt::rt::Argument::new_debug::<HashSet<..>>
    if _last_segment(c) in ("new_debug", "new_debug_noop") and any((h + "<") in g for g in gargs for h in DENY["hash_collections"]):
        return True
    # a generic callee instantiated with a hash iterator (collect::<Vec<_>>() over map.keys(), ...)
    if any(HASH_ITER.search(g) for g in gargs):
        return True
    return False


def writer_roots(prog):
    return sorted(p for p, f in prog.fns.items() if f.public and any(f.self_ty.startswith(t) for t in WRITER_TYPES))


def no_hidden_inputs(ctx, prog, rule, roots=None, floors=True):
    roots = roots if roots is not None else writer_roots(prog)
    reach_set = prog.reachable_from(roots)
    # Drop glue of the paged writer runs when a writer is dropped
    for p in list(prog.fns):
        if p.endswith("as std::ops::Drop>::drop") and "PagedWriter" in p:
            reach_set |= prog.reachable_from([p])
    cre = [re.compile(x) for x in DENY["callees"]]
    tre = DENY["types"]
    hits = []
    n_calls = 0
    for p in sorted(reach_set):
        f = prog.fns[p]
        ctx.fn_seen(f)
        for bi, t in f.calls():
            n_calls += 1
            for c in {callee_of(t), callee_syntactic(t)}:
                if any(r.search(c) for r in cre) or hash_order_call(c, t["callee"].get("args") or ()):
                    hits.append((p, c, f.file_line(bi)))
        for i, l in enumerate(f.locals):
            if any(x in l["ty"] for x in tre) or HASH_ITER.search(l["ty"]):
                hits.append((p, "local of type " + l["ty"], "%s:%d" % (f.span["file"], f.span["l0"])))
    for p, c, where in hits:
        ctx.ob(rule, "hidden-input/%s/%s" % (short(p), short(c) if "::" in c else c[:40]), False, "%s (reachable from the writer API) uses %s: its result does not depend on the arguments alone, so writing the same content twice may differ" % (p, c), where=where)
    ctx.ob(rule, "no-hidden-inputs", not hits, "%d writer entry points reach %d functions with %d calls; %d of them match the nondeterminism deny-list" % (len(roots), len(reach_set), n_calls, len(hits)))
    if floors:
        ctx.floor(rule, "writer entry points", len(roots), 25, semantic=False)
        ctx.floor(rule, "functions reachable from the writer API", len(reach_set), 100, semantic=False)
    return hits


def controls(ctx):
    import framework
    prog, info = load_program("controls", "controls")
    ctx.configs["controls"] = info
    for name, expect in (("nondet::stamp_now", True), ("nondet::hash_order", True), ("nondet::hash_debug", True), ("nondet::hash_into_iter", True),
                         ("nondet::pure", False), ("nondet::hash_membership", False)):
        sub = framework.Ctx("CTL", ctx.tier)
        hits = no_hidden_inputs(sub, prog, "R1", roots=[name], floors=False)
        ctx.control("R1", name, bool(hits), expect)
