"""C19-R1: nothing reachable from the writer API depends on hidden inputs."""
import json
import os
import re

from mirlib import *
from facts import VERIF

DENY = json.load(open(os.path.join(VERIF, "spec", "nondeterminism_denylist.json")))
WRITER_TYPES = ("e57_writer::E57Writer<", "pc_writer::PointCloudWriter<", "image_writer::ImageWriter<", "extension::Extension")


def writer_roots(prog):
    return sorted(p for p, f in prog.fns.items() if f.public and any(f.self_ty.startswith(t) for t in WRITER_TYPES))


def no_hidden_inputs(ctx, prog, rule, roots=None, floors=True):
    roots = roots if roots is not None else writer_roots(prog)
    reach_set = prog.reachable_from(roots)
    # Drop glue of the paged writer runs when a writer is dropped
    for p in list(prog.fns):
        if p.endswith("as std::ops::Drop>::drop") and "PagedWriter" in p:
            reach_set |= prog.reachable_from([p])
    cre = [re.compile(x) for x in DENY["callees"]]
    tre = DENY["types"]
    hits = []
    n_calls = 0
    for p in sorted(reach_set):
        f = prog.fns[p]
        ctx.fn_seen(f)
        for bi, t in f.calls():
            n_calls += 1
            for c in {callee_of(t), callee_syntactic(t)}:
                if any(r.search(c) for r in cre):
                    hits.append((p, c, f.file_line(bi)))
        for i, l in enumerate(f.locals):
            if any(x in l["ty"] for x in tre):
                hits.append((p, "local of type " + l["ty"], "%s:%d" % (f.span["file"], f.span["l0"])))
    for p, c, where in hits:
        ctx.ob(rule, "hidden-input/%s/%s" % (short(p), short(c) if "::" in c else c[:40]), False, "%s (reachable from the writer API) uses %s: its result does not depend on the arguments alone, so writing the same content twice may differ" % (p, c), where=where)
    ctx.ob(rule, "no-hidden-inputs", not hits, "%d writer entry points reach %d functions with %d calls; %d of them match the nondeterminism deny-list" % (len(roots), len(reach_set), n_calls, len(hits)))
    if floors:
        ctx.floor(rule, "writer entry points", len(roots), 40, semantic=False)
        ctx.floor(rule, "functions reachable from the writer API", len(reach_set), 100, semantic=False)
    return hits


def controls(ctx):
    import framework
    prog, info = load_program("controls", "controls")
    ctx.configs["controls"] = info
    for name, expect in (("nondet::stamp_now", True), ("nondet::hash_order", True), ("nondet::pure", False)):
        sub = framework.Ctx("CTL", ctx.tier)
        hits = no_hidden_inputs(sub, prog, "R1", roots=[name], floors=False)
        ctx.control("R1", name, bool(hits), expect)
