"""Collection-element abstraction: which collection is a value an element of, whatever the access path?

    values[i]                                   -> element of `values`, position key ('idx', tree of i)
    for (i, p) in proto.iter().enumerate()      -> p: element of proto, key ('next', block of the next() call)
    for (p, v) in proto.iter().zip(&values)     -> p: element of proto, v: element of values, same key

`elem_of(t)` returns (collection tree, [field names applied to the element], position key) or None.  Two elements are
at the same position when their keys are equal, or when one is indexed by the enumerate() index of the iteration that
yields the other."""
from mirlib import *

PASS_THROUGH = ("rev", "skip", "take", "copied", "cloned", "by_ref", "peekable", "fuse")


def iter_shape(t):
    t = strip(t)
    while t[0] == "cast":
        t = strip(t[2])
    if t[0] == "call":
        last = t[1].rsplit("::", 1)[-1]
        if last == "enumerate" and t[2]:
            return ("tuple", ("index",), iter_shape(t[2][0]))
        if last == "zip" and len(t[2]) == 2:
            return ("tuple", iter_shape(t[2][0]), iter_shape(t[2][1]))
        if last in PASS_THROUGH and t[2]:
            return iter_shape(t[2][0])
    return ("elem", t)


def elem_of(t):
    names = []
    x = t
    for _ in range(12):
        x0 = x
        if x[0] == "cast":
            x = x[2]
            continue
        if x[0] == "field":
            names.append(x[2])
            x = x[1]
            continue
        if x[0] == "index":
            return strip(x[1]), list(reversed(names)), ("idx", x[2])
        if x[0] == "call" and (x[1].endswith("::index") or x[1].endswith("::index_mut")) and len(x[2]) == 2:
            i = strip(x[2][1])
            if not (i[0] == "agg" and i[1][0] == "adt" and "Range" in str(i[1][2])):
                return strip(x[2][0]), list(reversed(names)), ("idx", x[2][1])
            return None
        if x[0] == "ok":
            c = x[1]
            while c[0] == "cast":
                c = c[2]
            if c[0] == "call" and c[1].rsplit("::", 1)[-1] == "next" and c[2]:
                shape = iter_shape(c[2][0])
                rest = list(reversed(names))
                idx_of = None
                while rest and shape[0] == "tuple" and rest[0] in ("0", "1"):
                    shape = shape[1 + int(rest[0])]
                    rest = rest[1:]
                if shape[0] == "elem":
                    return strip(shape[1]), rest, ("next", c[3] if len(c) > 3 else None)
                if shape[0] == "index":
                    return ("enumerate-index",), rest, ("next", c[3] if len(c) > 3 else None)
            return None
        if x[0] == "call" and x[2] and any(x[1].endswith(sfx) for sfx in TRANSPARENT_SUFFIX) and x[1].rsplit("::", 1)[-1] not in ("iter", "into_iter", "iter_mut"):
            x = x[2][0]
            continue
        s = strip(x)
        if s is not x and s != x:
            x = s
            continue
        if x is x0:
            break
    return None


def index_of_iteration(t):
    """the position key of the iteration whose enumerate() index the tree t is (None otherwise)"""
    e = elem_of(t)
    if e and e[0] == ("enumerate-index",) and not e[1]:
        return e[2]
    return None


def same_position(e1, e2):
    if e1 is None or e2 is None:
        return False
    k1, k2 = e1[2], e2[2]
    if k1 == k2:
        return True
    for a, b in ((k1, k2), (k2, k1)):
        if a[0] == "idx" and b[0] == "next" and index_of_iteration(a[1]) == b:
            return True
    if k1[0] == "idx" and k2[0] == "idx":
        return k1[1] == k2[1]
    return False
