"""C17 — read operations are independent of what was read before (DESIGN §4 C17)."""
from mirlib import *
import cache_rules
import history_rules
import page_rules
import witness

TECHNIQUE = "compile-fail witnesses (no two live operations on one reader, private state), MIR dominance rule 'every operation starts with an absolute seek that fully overwrites the cursor', fresh-state rules for iterators, immutability of the reader's descriptors, page-cache typestate"
EXPLANATION = (
    "Decides that two read operations can never be alive together on one reader and that the page reader is private "
    "(rustc rejects the witness programs, their twins compile); that QueueReader::new, Blob::read and extract_xml begin with "
    "a checked seek_physical to their own absolute offset which dominates every other use of the page reader, and that "
    "seek_physical overwrites the cursor without reading it and assigns nothing on its error path; that iterators are built "
    "with fresh queues and read = 0; that nothing but the constructor writes the reader's descriptors; and that the only "
    "state that survives an operation — the page cache — is invalidated before it is overwritten, published only after "
    "CRC validation and served only when verified (C07 clauses). Also an inventory of reader state: the fields of PagedReader / E57Reader that change after construction are a reviewed set (a new remembered failure or result cache is unreviewed history). Not decided: equality of results on concrete files.")


def run(ctx):
    ctx.rule("R1", "witnesses: two iterators / iterator + blob on one reader do not compile (E0499); reader state is private (E0616/E0603)")
    ctx.rule("R2", "every operation starts with a checked absolute seek_physical that dominates all other uses of the page reader; seek_physical fully overwrites the cursor")
    ctx.rule("R3", "PagedReader is crate-private, E57Reader has no public fields, its descriptors are written only by new()")
    ctx.rule("R4", "page cache typestate: who-may-write, invalidate-on-clobber, validate-before-publish, serve-only-verified (C07-R1..R4)")
    ctx.rule("R5", "iterators own fresh queues sized by the prototype and start at read = 0")
    for cfg in ["lib", "lib_crc32c"]:
        prog, info = load_program(cfg, "e57")
        ctx.configs[cfg] = info
        ctx.cfg = cfg
        ctx.call(history_rules.seek_first, prog, "R2")
        ctx.call(page_rules.formulas, prog, "R2", side="reader")
        ctx.call(history_rules.private_state, prog, "R3")
        ctx.call(history_rules.reader_state_inventory, prog, "R3")
        ctx.call(cache_rules.who_may_write, prog, cache_rules.PR, rule="R4")
        ctx.call(cache_rules.invalidate_on_clobber, prog, cache_rules.PR, rule="R4")
        ctx.call(cache_rules.validate_before_publish, prog, cache_rules.PR, "table" if cfg == "lib" else "crate", rule="R4")
        ctx.call(cache_rules.serve_only_verified, prog, cache_rules.PR, rule="R4")
        ctx.call(history_rules.fresh_state, prog, "R5")
    ctx.cfg = None
    ctx.call(witness.run, "R1", ["rd_two_raw_iterators", "rd_simple_and_raw", "rd_blob_while_iterating", "rd_reader_field_private", "rd_paged_reader_private"])
    ctx.call(cache_rules.controls)
