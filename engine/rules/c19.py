"""C19 — copying a file through the library is lossless and writing is deterministic (DESIGN §4 C19)."""
from mirlib import *
import determinism_rules
import header_rules
import xml_rules
import width_rules
import codec_rules
import page_rules
import pcw_rules

TECHNIQUE = "call-graph reachability from the writer API against a nondeterminism deny-list (with positive controls), writer/reader agreement of the prototype type-attribute vocabulary with explicit values, prototype order dataflow, plus the shared width / stored-form / escaping clauses a lossless copy depends on"
EXPLANATION = (
    "Decides that no function reachable from the public writer API (E57Writer, PointCloudWriter, ImageWriter, Extension, "
    "including the paged writer's Drop) calls a clock, random source, environment, hash-map or address based API or holds a "
    "hash container, so the bytes written are a function of the calls alone; that integer and scaled-integer types are "
    "always written with explicit minimum/maximum (and scale/offset) taken from the fields the reader fills from its "
    "defaults, with attribute names and parse types agreeing; that prototype records are read and written in order; that "
    "writer and reader agree on the bit width for every range up to the full 64 bits and on the stored form; and that every "
    "string passes the escaping gate. Also the writer/reader inverse field maps, the unchanged-text rule of the string reader and the page-reload loop, and the bit-packing shape rules of C12 (add_bits, extraction window, append). Not decided: that validate_prototype accepts every prototype the reader can produce, "
    "and content equality of concrete copies (run-time).")


def run(ctx):
    ctx.rule("R1", "nothing reachable from the writer API uses clocks, randomness, hash iteration, environment, ids or addresses")
    ctx.rule("R2", "prototype type attributes: integer kinds always written with explicit minimum/maximum (scale/offset), names and parse types agree with the reader")
    ctx.rule("R3", "prototype order preserved by reader and writer")
    ctx.rule("R4", "shared clauses of a lossless copy: bit width formula up to 64 bits on both sides, stored form, escaping gate, file header fields = true offsets / byte lengths")
    ctx.rule("R5", "every metadata field is written from and read into the field of the same name (writer/reader inverse maps, field coverage, plain number format; shared with C04-R1/R2/R4)")
    for cfg in ["lib", "lib_crc32c"]:
        prog, info = load_program(cfg, "e57")
        ctx.configs[cfg] = info
        ctx.cfg = cfg
        ctx.call(determinism_rules.no_hidden_inputs, prog, "R1")
        if cfg == "lib":
            ctx.call(xml_rules.type_attributes, prog, "R2")
            ctx.call(xml_rules.prototype_order, prog, "R3")
            ctx.call(width_rules.width_formula, prog, "R4")
            ctx.call(codec_rules.stored_form, prog, "R4")
            ctx.call(codec_rules.add_bits_shape, prog, "R4")
            ctx.call(codec_rules.extract_window, prog, "R4")
            ctx.call(codec_rules.append_shape, prog, "R4")
            ctx.call(xml_rules.escaping_gate, prog, "R4")
            ctx.call(header_rules.publication_order, prog, "R4")
            ctx.call(pcw_rules.data_offset_provenance, prog, "R4")
            ctx.call(page_rules.read_current_page_shape, prog, "R4")
            ctx.call(xml_rules.inverse_maps, prog, "R5", "R5", "R5")
            ctx.call(xml_rules.string_values_unchanged, prog, "R5")
            ctx.call(xml_rules.setters, prog, "R5")
    ctx.cfg = None
    ctx.call(determinism_rules.controls)
