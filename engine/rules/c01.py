"""C01 — raw point data survives write -> read exactly (DESIGN §4 C01)."""
from mirlib import *
import pcw_rules
import width_rules
import witness
import codec_rules
import page_rules
import xml_rules
import header_rules
import bounds_rules
import validation_rules

TECHNIQUE = "MIR provenance of the section header offsets, must-pass-through / dominance order of the section patch protocol, announce/drain pairing table on last_flush, length-accounting dataflow, reader yield-count typestate, bit-width formula agreement of writer and reader, compile-fail witnesses for section interleaving"
EXPLANATION = (
    "Decides the structural clauses behind the raw round trip: data_offset is physical_position() taken after the "
    "preliminary section header was written (never offset + constant, the header may straddle a page checksum); "
    "finalize drains the buffer until empty, flushes partial bytes, then patches the section header at section_offset and "
    "seeks back, and publishes a descriptor whose records/file_offset/prototype are the writer's own counters; add_point "
    "stores the point and counts it exactly once on every successful path; size announced and bytes drained per stream are "
    "selected by the same last_flush condition; section_length grows by exactly the packet_length written into the packet "
    "header; every packet is followed by align; the raw iterator yields only while read < records with one increment per "
    "yield and pops one value per prototype entry in order; writer and reader compute the same bit width. Also the bit-packing rules of C12 (stored form, add_bits decided algebraically, extraction window, append) and the page-reload loop of C11-R6, because a raw value only survives if those hold, the validator's pairing of each Is<X>Invalid flag with its own value record (decided on the flow graph pruned under presence assumptions), and the prototype type-attribute agreement of C04-R4 (an identical prototype needs minimum/maximum/scale/offset written and parsed with the same names and types). Not decided: "
    "bit-exactness of the packed values and packet-capacity arithmetic (run-time quantities).")


def run(ctx):
    ctx.rule("R1", "section_header.data_offset / section_offset come from physical_position() after / before the preliminary header write")
    ctx.rule("R2", "PointCloudWriter::finalize: drain until empty -> last flush -> end position -> seek(section_offset) -> header write -> seek(end) -> publish descriptor built from the writer's own fields")
    ctx.rule("R3", "add_point stores the point and increments point_count exactly once on every Ok path; flushes when the buffer is full")
    ctx.rule("R4", "announced stream size and drained bytes are selected by the same last_flush condition (all/all, full/full)")
    ctx.rule("R5", "section_length += the packet_length written into the data packet header; bytestream_count = prototype.len(); length = 6 + 2n + sizes rounded to 4, capped at u16")
    ctx.rule("R6", "every Ok path of write_buffer_to_disk passes PagedWriter::align")
    ctx.rule("R7", "raw iterator: yields only on the read < records edge, one read += 1 per yield; pop_point pops queue i for i in 0..prototype.len() in order")
    ctx.rule("R8", "a second point cloud / blob / image / finalize while a PointCloudWriter is alive does not compile (E0499); the twin without overlap compiles")
    ctx.rule("R9", "the writer's bit width (integer_bits) and the reader's (unpack_ints / unpack_scaled_ints) are the same i128 formula ilog2(max-min)+1")
    ctx.rule("R10", "bit packing on both sides: stored form, add_bits (aligned path and bit loop), extraction window, append keeps tail and phase (shared with C12-R2/R4/R5)")
    ctx.rule("R12", "the prototype comes back identical: type attributes written = read, integer limits parsed as integers (shared with C04-R4)")
    ctx.rule("R13", "the prototype validator pairs each Is<X>Invalid flag with its own value record <X>: the flag alone is rejected, the pair alone is accepted")
    ctx.rule("R14", "after finalize the points can be read: header written after the XML was flushed, success is the result of the final flush (shared with C15-R1 / C16-R3)")
    ctx.rule("R11", "the page reload behind every seek back (PagedWriter::read_current_page) loops over short reads and zero-fills (shared with C11-R6)")
    for cfg in (["lib"] if ctx.tier == "quick" else ["lib", "lib_crc32c"]):
        prog, info = load_program(cfg, "e57")
        ctx.configs[cfg] = info
        ctx.cfg = cfg
        ctx.call(pcw_rules.data_offset_provenance, prog, "R1")
        ctx.call(pcw_rules.finalize_protocol, prog, "R2")
        ctx.call(pcw_rules.accept_once, prog, "R3")
        ctx.call(bounds_rules.validation_before_update, prog, "R3")
        ctx.call(pcw_rules.packet_rules, prog, "R4", "R5", "R6")
        ctx.call(pcw_rules.packet_capacity_units, prog, "R5")
        ctx.call(pcw_rules.raw_reader_count, prog, "R7")
        ctx.call(pcw_rules.pop_point_order, prog, "R7")
        ctx.call(width_rules.width_formula, prog, "R9")
        ctx.call(codec_rules.stored_form, prog, "R10")
        ctx.call(codec_rules.add_bits_shape, prog, "R10")
        ctx.call(codec_rules.extract_window, prog, "R10")
        ctx.call(codec_rules.append_shape, prog, "R10")
        ctx.call(page_rules.read_current_page_shape, prog, "R11")
        if cfg == "lib":
            ctx.call(xml_rules.type_attributes, prog, "R12")
        ctx.call(validation_rules.flag_value_pairs, prog, "R13")
        ctx.call(header_rules.publication_order, prog, "R14")
    ctx.cfg = None
    ctx.call(witness.run, "R8", ["pcw_second_pointcloud", "pcw_blob_while_open", "pcw_image_while_open", "pcw_finalize_while_open"])
