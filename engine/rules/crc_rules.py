"""C07-R5: shape of the built-in CRC-32C implementation (src/crc32.rs, only compiled without the
crc32c feature — the repository's own test run never compiles it)."""
from mirlib import *
from cache_rules import strip_casts, const_val

POLY = 0x82F63B78


def _stmts(fn):
    for bi in fn.cfg():
        for si, st in enumerate(fn.blocks[bi]["stmts"]):
            yield bi, si, st


def _step_shape(r, is_sum, is_byte):
    """r == table[((sum ^ byte) as u8)] ^ (sum >> 8)"""
    if not (r[0] == "binop" and r[1] == "BitXor"):
        return False
    for a, b in ((r[2], r[3]), (r[3], r[2])):
        a, b = strip(a), strip(b)
        shr = b[0] == "binop" and ((b[1] == "Shr" and const_val(b[3]) == 8) or (b[1] == "Div" and const_val(b[3]) == 256)) and is_sum(strip_casts(b[2]))
        if not (shr and a[0] == "index"):
            continue
        base = strip(a[1])
        if not (base[0] == "field" and base[2].endswith("table")):
            continue
        i1 = strip(a[2])
        narrowed = False
        while i1[0] == "cast":
            if i1[1] == "u8":
                narrowed = True
            i1 = strip(i1[2])
        if i1[0] == "binop" and i1[1] == "BitAnd" and 255 in (const_val(i1[2]), const_val(i1[3])):
            narrowed = True
            i1 = strip_casts(i1[2] if const_val(i1[3]) == 255 else i1[3])
        if narrowed and i1[0] == "binop" and i1[1] == "BitXor":
            x, y = strip_casts(i1[2]), strip_casts(i1[3])
            if (is_sum(x) and is_byte(y) and x == strip_casts(b[2])) or (is_sum(y) and is_byte(x) and y == strip_casts(b[2])):
                return True
    return False


def round_by_paths(f):
    """one trip around the innermost loop that contains the `^ POLY`: for the loop-carried value v the trips are
    exactly  v even -> v >> 1  and  v odd -> (v >> 1) ^ POLY  (parity of the value *before* the shift).
    returns None when there is no single xor with the polynomial, else dict(ok, acc, loop, desc, xor_block)"""
    import pathsym
    xs = [(bi, si) for bi, si, st in _stmts(f) if st["rv"]["k"] == "binop" and st["rv"]["op"] == "BitXor" and POLY in (const_int(st["rv"]["a"]), const_int(st["rv"]["b"]))]
    if len(xs) != 1:
        return None
    xb = xs[0][0]
    loops = natural_loops(f)
    inner = None
    for h, body in loops.items():
        if xb in body and (inner is None or len(body) < len(loops[inner])):
            inner = h
    if inner is None:
        return dict(ok=False, desc="the xor with the polynomial is not inside a loop", xor_block=xb, acc=None, loop=None)
    paths = pathsym.back_paths(f, inner, loops[inner])
    if not paths:
        return dict(ok=None, desc="too many paths through the round loop", xor_block=xb, acc=None, loop=inner)
    walks = [pathsym.Walk(f).run(p, inner) for p in paths]

    def is_half(e, n):
        e = pathsym.strip_cast(e)
        return e[0] in ("Div", "Shr") and pathsym.strip_cast(e[1]) == ("in", n) and e[2] == ("c", 2 if e[0] == "Div" else 1)

    def kind(e, n):
        e = pathsym.strip_cast(e)
        if is_half(e, n):
            return "half"
        if e[0] == "BitXor":
            for a, b in ((e[1], e[2]), (e[2], e[1])):
                if b == ("c", POLY) and is_half(a, n):
                    return "halfxor"
        return None

    def parity(conds, n):
        A = ("in", n)
        out = None
        for d, taken, consts in conds:
            d = pathsym.strip_cast(d)

            def low(x):
                x = pathsym.strip_cast(x)
                if x[0] == "Rem" and pathsym.strip_cast(x[1]) == A and x[2] == ("c", 2):
                    return True
                if x[0] == "BitAnd" and ((pathsym.strip_cast(x[1]) == A and x[2] == ("c", 1)) or (pathsym.strip_cast(x[2]) == A and x[1] == ("c", 1))):
                    return True
                return False
            if d[0] in ("Eq", "Ne") and low(d[1]) and d[2][0] == "c" and d[2][1] in (0, 1):
                truth = taken != 0
                is_zero = truth if d[0] == "Eq" else not truth
                if d[2][1] == 1:
                    is_zero = not is_zero
                out = "even" if is_zero else "odd"
            elif low(d):
                out = "even" if taken == 0 else "odd"
        return out
    assigned = set()
    for w in walks:
        assigned |= set(w.env)
    best = None
    for n in sorted(assigned):
        ks = [(kind(w.env.get(n, ("in", n)), n), parity(w.conds, n)) for w in walks]
        if any(k == "halfxor" for k, _ in ks):
            ok = all((k == "half" and p == "even") or (k == "halfxor" and p == "odd") for k, p in ks) and any(k == "half" for k, _ in ks)
            desc = "loop-carried value _%d: trips %s" % (n, sorted(set("%s when %s" % (k, p) for k, p in ks)))
            if best is None or ok:
                best = dict(ok=ok, acc=n, loop=inner, desc=desc, xor_block=xb)
    if best is None:
        return dict(ok=None, desc="no loop-carried value of the round loop ends as (v >> 1) ^ POLY of its own previous value", xor_block=xb, acc=None, loop=inner)
    return best


def crc32c_shape(ctx, prog, rule="R5", new_path="crc32::Crc32::new", calc_path="crc32::Crc32::calculate"):
    f = prog.fn(new_path)
    ctx.fn_seen(f)
    R = Resolver(f)
    # the round as a per-trip transfer function (independent of in-place / fold / functional spelling)
    rp = round_by_paths(f)
    if rp is not None and rp["ok"]:
        return _crc32c_shape_by_paths(ctx, prog, rule, f, R, rp, calc_path)
    # 1. the polynomial constant: exactly one `v = v ^ POLY`
    xors = []
    for bi, si, st in _stmts(f):
        rv = st["rv"]
        if rv["k"] == "binop" and rv["op"] == "BitXor":
            c = [const_int(rv["a"]), const_int(rv["b"])]
            consts = [x for x in c if x is not None]
            xors.append((bi, si, st, consts))
    poly_x = [x for x in xors if x[3] == [POLY]]
    ctx.ob(rule, "poly/Crc32::new", len(poly_x) == 1 and len(xors) == 1,
           "xor constants in table generation: %s (expected exactly one xor, with 0x82F63B78 = reflected Castagnoli)" % [hex(c) for x in xors for c in x[3]],
           where=f.file_line(xors[0][0], xors[0][1]) if xors else None)
    if len(poly_x) != 1:
        return
    xb, xsi, xst, _ = poly_x[0]
    v = xst["place"]["local"]
    if xst["place"]["proj"]:
        ctx.ob(rule, "poly-target/Crc32::new", False, "xor does not update a plain local")
        return
    # 2. guard: xor only when the low bit is set
    guard_ok = False
    gdesc = "no low-bit test found"
    for bi in f.cfg():
        t = f.blocks[bi]["term"]
        if t["k"] != "switch":
            continue
        dl = op_place(t["discr"])
        if dl is None:
            continue
        d = strip(R.place(dl))
        if d[0] != "binop" or d[1] not in ("Eq", "Ne"):
            continue
        lhs, rhs = strip_casts(d[2]), strip_casts(d[3])
        if const_val(rhs) is None:
            lhs, rhs = rhs, lhs
        k = const_val(rhs)
        if k is None or lhs[0] != "binop":
            continue
        low = (lhs[1] == "Rem" and const_val(lhs[3]) == 2) or (lhs[1] == "BitAnd" and 1 in (const_val(lhs[2]), const_val(lhs[3])))
        if not low or k not in (0, 1):
            continue
        e = switch_edges(f, bi)
        cond_true, cond_false = e["otherwise"], e.get("0")
        # cond is (lowbit OP k): which edge means low bit set?
        is_eq = d[1] == "Eq"
        set_when_true = (is_eq and k == 1) or (not is_eq and k == 0)
        odd_succ = cond_true if set_when_true else cond_false
        g = cfg_without_edges(f, [(bi, odd_succ)])
        guard_ok = xb not in reach(g, [0])
        gdesc = "xor %s reachable without the low-bit-set edge bb%d->bb%d" % ("is not" if guard_ok else "IS", bi, odd_succ)
        sw_block = bi
        break
    ctx.ob(rule, "reflected-step-guard/Crc32::new", guard_ok, gdesc, where=f.file_line(xb, xsi))
    # 3. halving on every round, before the xor
    halvings = []
    for bi, si, st in _stmts(f):
        rv = st["rv"]
        if st["place"]["local"] == v and not st["place"]["proj"] and rv["k"] == "binop":
            if (rv["op"] == "Div" and const_int(rv["b"]) == 2) or (rv["op"] == "Shr" and const_int(rv["b"]) == 1):
                pa = op_place(rv["a"])
                if pa and pa["local"] == v:
                    halvings.append((bi, si))
    loops = natural_loops(f)
    inner = None
    for h, body in loops.items():
        if xb in body and (inner is None or len(body) < len(loops[inner])):
            inner = h
    ok_halve = False
    if inner is not None and halvings and guard_ok:
        body = loops[inner]
        hb = {b for b, _ in halvings if b in body}
        g = {b: [s for s in ss if s in body] for b, ss in f.cfg().items() if b in body}
        # (a) no trip around the round loop avoids the halving
        cycle = find_path(g, g.get(inner, []), {inner}, hb) if inner not in hb else None
        # (b) within a round the halving comes before the xor
        before_xor = any((b == xb and s < xsi) or (b != xb and b in body and b != inner and f.dominates(b, xb)) for b, s in halvings)
        # (c) the low bit that is tested is the one of the value before the halving: the parity statement is not
        #     preceded by a halving of the same round
        par = None
        dl = op_place(f.blocks[sw_block]["term"]["discr"])
        for bi, si, st in _stmts(f):
            rv = st["rv"]
            if rv["k"] == "binop" and ((rv["op"] == "Rem" and const_int(rv["b"]) == 2) or (rv["op"] == "BitAnd" and 1 in (const_int(rv["a"]), const_int(rv["b"])))):
                pa = op_place(rv["a"]) or op_place(rv["b"])
                if pa and pa["local"] == v or (pa and strip_casts(R.place(pa)) == strip_casts(R.local(v))):
                    par = (bi, si)
        parity_first = par is not None and not any((b == par[0] and sidx < par[1]) or (b != par[0] and b in body and b != inner and f.dominates(b, par[0])) for b, sidx in halvings)
        ok_halve = cycle is None and before_xor and parity_first
    ctx.ob(rule, "halving/Crc32::new", ok_halve, "every round halves the value (v/2 or v>>1) and the xor follows the halving: %d halving statements" % len(halvings),
           where=f.file_line(xb, xsi))
    # 4. rounds and entries
    ranges = []
    for bi, si, st in _stmts(f):
        rv = st["rv"]
        if rv["k"] == "aggregate" and rv["kind"].get("agg") == "adt" and rv["kind"]["adt"].endswith("ops::Range"):
            ranges.append(tuple(const_int(o) for o in rv["ops"]))
        if rv["k"] == "aggregate" and rv["kind"].get("agg") == "adt" and rv["kind"]["adt"].endswith("RangeInclusive"):
            ranges.append(("incl",) + tuple(const_int(o) for o in rv["ops"][:2]))
    ok_r = ((0, 256) in ranges or ("incl", 0, 255) in ranges) and ((0, 8) in ranges or ("incl", 0, 7) in ranges or ("incl", 1, 8) in ranges)
    rep = [st["rv"]["n"] for _, _, st in _stmts(f) if st["rv"]["k"] == "repeat"]
    # the entries may also be enumerated by iterating the 256-element table itself
    def _is_table(tr):
        return any(x[0] == "repeat" and str(x[2]).strip().startswith("256") for x in leaves(tr))
    over_table = any(_is_table(R.operand(t["args"][0])) for bi, t in f.calls(lambda c, t: c.endswith("::iter_mut") or c.endswith("::iter")) if t["args"])
    rounds8 = (0, 8) in ranges or ("incl", 0, 7) in ranges or ("incl", 1, 8) in ranges
    ok_r = ok_r or (rounds8 and over_table)
    ctx.ob(rule, "rounds-and-entries/Crc32::new", ok_r and any(r.strip().startswith("256") for r in rep),
           "loop ranges %s, table repeat lengths %s (expected 256 entries x 8 rounds)" % (ranges, rep))
    # 5. table[i] = v with v initialised from i
    store_ok = False
    for n, ds in f.defs().items():
        for kind, payload, bi, si, place in ds:
            if kind == "stmt" and place["proj"] and place["proj"][-1]["k"] == "index":
                src = op_place(payload.get("op", {})) if payload["k"] == "use" else None
                if src is not None:
                    t = R.place(src)
                    idx = strip_casts(R.local(place["proj"][-1]["local"]))
                    # the stored value is (a copy of) v and v starts as the loop index
                    starts = [strip_casts(R.rvalue(p)) for k2, p, b2, s2, pl in f.defs().get(v, []) if k2 == "stmt" and p["k"] == "use"]
                    store_ok = any(s == idx for s in starts)
    if not store_ok:
        # for (i, entry) in table.iter_mut().enumerate() { *entry = v(i) }
        for n, ds in f.defs().items():
            for kind, payload, bi, si, place in ds:
                if kind == "stmt" and place["proj"] and place["proj"][-1]["k"] == "deref" and payload["k"] == "use":
                    tgt = R.local(place["local"])
                    if tgt[0] == "partial":
                        tgt = tgt[1]
                    src = op_place(payload["op"])
                    if src is None or tgt[0] != "field" or tgt[2] != "1" or tgt[1][0] != "ok":
                        continue
                    item = tgt[1]
                    starts = [strip_casts(R.rvalue(p)) for k2, p, b2, s2, pl in f.defs().get(v, []) if k2 == "stmt" and p["k"] == "use"]
                    val = strip_casts(R.place(src))
                    store_ok = any(s2[0] == "field" and s2[2] == "0" and s2[1] == item for s2 in starts) and (src["local"] == v or val == strip_casts(R.local(v)))
    ctx.ob(rule, "table-store/Crc32::new", store_ok, "table[i] receives the value that was initialised with i")

    _calculate_shape(ctx, prog, rule, calc_path)


def _calculate_shape(ctx, prog, rule, calc_path):
    # calculate
    c = prog.fn(calc_path)
    ctx.fn_seen(c)
    Rc = Resolver(c)
    ret = strip(Rc.local(0))
    ok_calc = False
    desc = tree_str(ret)
    if ret[0] == "unop" and ret[1] == "Not":
        fold = strip(ret[2])
        if fold[0] == "call" and fold[1].endswith("::fold"):
            init = strip(fold[2][1])
            ok_calc = init[0] == "unop" and init[1] == "Not" and const_val(init[2]) == 0
    loop_step = None
    if not ok_calc and ret[0] == "unop" and ret[1] == "Not":
        acc = strip(ret[2])
        # `let mut sum = !0; for &b in data { sum = step(sum, b) } !sum`: the accumulator is a two-way phi
        if acc[0] == "phi" and len(acc[1]) == 2:
            inits = [a for a in acc[1] if strip(a)[0] == "unop" and strip(a)[1] == "Not" and const_val(strip(a)[2]) == 0]
            steps = [a for a in acc[1] if a not in inits]
            if len(inits) == 1 and len(steps) == 1:
                ok_calc = True
                loop_step = strip(steps[0])
    ctx.ob(rule, "init-and-xorout/Crc32::calculate", ok_calc, "result tree %s (expected !fold(!0, step) or the equivalent loop over an accumulator initialised with !0)" % desc)
    cls = prog.closures_of(c)
    ok_step = False
    sdesc = "no closure"
    if loop_step is not None:
        ok_step, sdesc = _step_shape(loop_step, lambda t: t[0] == "local", lambda t: t[0] == "ok" or (t[0] == "field" and t[1][0] == "ok") or (t[0] == "call" and t[1].endswith("::next"))), tree_str(loop_step)
        cls = []
    for cl in cls:
        ctx.fn_seen(cl)
        Rl = Resolver(cl)
        r = strip(Rl.local(0))
        sdesc = tree_str(r)
        if r[0] == "binop" and r[1] == "BitXor":
            for a, b in ((r[2], r[3]), (r[3], r[2])):
                a, b = strip(a), strip(b)
                shr = b[0] == "binop" and ((b[1] == "Shr" and const_val(b[3]) == 8) or (b[1] == "Div" and const_val(b[3]) == 256)) and strip_casts(b[2]) == ("param", 2)
                idx = None
                if a[0] == "index":
                    base = strip(a[1])
                    idx = a[2]
                    tbl = base[0] == "field" and base[2].endswith("table")
                else:
                    tbl = False
                if shr and tbl and idx is not None:
                    # ((sum ^ next as u32) as u8) as usize
                    i1 = strip(idx)
                    narrowed = False
                    while i1[0] == "cast":
                        if i1[1] == "u8":
                            narrowed = True
                        i1 = strip(i1[2])
                    if i1[0] == "binop" and i1[1] == "BitAnd" and 255 in (const_val(i1[2]), const_val(i1[3])):
                        narrowed = True
                        i1 = strip_casts(i1[2] if const_val(i1[3]) == 255 else i1[3])
                    if narrowed and i1[0] == "binop" and i1[1] == "BitXor":
                        ops = {tree_str(strip_casts(i1[2])), tree_str(strip_casts(i1[3]))}
                        ok_step = "arg2" in ops and "arg3" in ops
    ctx.ob(rule, "step/Crc32::calculate", ok_step, "step tree %s (expected table[(sum ^ byte) as u8] ^ (sum >> 8))" % sdesc)
    # coverage: the bytes folded are *all* bytes of the slice, in order - the iterator chain between `data` and the byte
    # may only contain adapters that neither drop, repeat nor reorder elements
    KEEP = {"iter", "into_iter", "copied", "cloned", "by_ref", "as_ref", "deref", "as_slice", "chunks", "flatten", "next", "borrow", "as_ptr_range", "to_vec", "iter_mut"}
    DROP = {"chunks_exact", "rchunks_exact", "rchunks", "take", "skip", "step_by", "take_while", "skip_while", "filter", "windows", "split_at", "get", "index",
            "rev", "split_first", "split_last", "first", "last", "nth", "zip", "filter_map", "array_chunks", "as_chunks", "split_at_checked", "get_unchecked"}
    names, roots_ = set(), set()
    for g in [c] + list(prog.closures_of(c)):
        Rg = Resolver(g)
        for bi, t in g.calls(lambda cc, t: cc.endswith("::next") or cc.endswith("::fold") or cc.endswith("::for_each") or cc.endswith("::try_fold")):
            for x in leaves(Rg.operand(t["args"][0])):
                if x[0] == "call":
                    names.add(x[1].rsplit("::", 1)[-1].split("<")[0])
                elif x[0] == "param":
                    roots_.add(x[1])
    remainder = any(True for g in [c] + list(prog.closures_of(c)) for bi, t in g.calls(lambda cc, t: cc.rsplit("::", 1)[-1] in ("remainder", "into_remainder")))
    bad = sorted(names & DROP)
    unknown = sorted(names - DROP - KEEP)
    if bad and not remainder:
        cov = False
    elif bad or unknown or 2 not in roots_:
        cov = None
    else:
        cov = True
    ctx.ob(rule, "coverage/Crc32::calculate", cov, "the bytes folded come from the data slice through %s (adapters that drop, repeat or reorder bytes: %s; not recognised: %s)" % (sorted(names), bad, unknown))


def _crc32c_shape_by_paths(ctx, prog, rule, f, R, rp, calc_path):
    n, inner = rp["acc"], rp["loop"]
    where = f.file_line(rp["xor_block"])
    ctx.ob(rule, "poly/Crc32::new", True, "exactly one xor with 0x82F63B78 (reflected Castagnoli); " + rp["desc"], where=where)
    ctx.ob(rule, "reflected-step-guard/Crc32::new", True, "the xor is applied exactly on the trips whose incoming value is odd", where=where)
    ctx.ob(rule, "halving/Crc32::new", True, "every trip shifts the incoming value right by one bit, the parity tested is the one before the shift", where=where)
    # rounds and entries
    ranges = []
    for bi, si, st in _stmts(f):
        rv = st["rv"]
        if rv["k"] == "aggregate" and rv["kind"].get("agg") == "adt" and rv["kind"]["adt"].endswith("ops::Range"):
            ranges.append(tuple(const_int(o) for o in rv["ops"]))
        if rv["k"] == "aggregate" and rv["kind"].get("agg") == "adt" and rv["kind"]["adt"].endswith("RangeInclusive"):
            ranges.append(("incl",) + tuple(const_int(o) for o in rv["ops"][:2]))
    loops = natural_loops(f)
    body = loops[inner]
    # the round loop iterates a range of 8
    rounds8 = False
    for bi, t in f.calls(lambda c, t: c.endswith("::next")):
        if bi in body and t["args"]:
            for x in leaves(R.operand(t["args"][0])):
                if x[0] == "agg" and x[1][0] == "adt" and x[1][2] in ("Range", "RangeInclusive") and len(x[2]) >= 2:
                    lo, hi = const_val(x[2][0]), const_val(x[2][1])
                    if lo is not None and hi is not None and (hi - lo + (1 if x[1][2] == "RangeInclusive" else 0)) == 8:
                        rounds8 = True
    rep = [st["rv"]["n"] for _, _, st in _stmts(f) if st["rv"]["k"] == "repeat"]
    entries = (0, 256) in ranges or ("incl", 0, 255) in ranges or any(
        any(x[0] == "repeat" and str(x[2]).strip().startswith("256") for x in leaves(R.operand(t["args"][0]))) for bi, t in f.calls(lambda c, t: c.endswith("::iter_mut") or c.endswith("::iter")) if t["args"])
    ctx.ob(rule, "rounds-and-entries/Crc32::new", rounds8 and entries and any(str(r).strip().startswith("256") for r in rep),
           "round loop over a range of 8: %s; entries enumerated 0..256: %s; table repeat lengths %s" % (rounds8, entries, rep))
    # table[i] = value that entered the round loop as i
    store_ok = False
    inits = [strip_casts(R.rvalue(p)) if kind == "stmt" else None for kind, p, bi, si, pl in f.defs().get(n, []) if bi not in body and not pl["proj"]]
    for m, ds in f.defs().items():
        for kind, payload, bi, si, place in ds:
            if kind != "stmt" or not place["proj"] or payload["k"] != "use":
                continue
            last = place["proj"][-1]
            idx_t = None
            if last["k"] == "index":
                idx_t = strip_casts(R.local(last["local"]))
            elif last["k"] == "deref" and len(place["proj"]) == 1:
                tgt = R.local(place["local"])
                tgt = tgt[1] if tgt[0] == "partial" else tgt
                if tgt[0] == "field" and tgt[2] == "1" and tgt[1][0] == "ok":
                    idx_t = ("field", tgt[1], "0")          # for (i, entry) in table.iter_mut().enumerate()
            if idx_t is None:
                continue
            src = op_place(payload["op"])
            root = src["local"] if src is not None and not src["proj"] else None
            for _ in range(4):
                if root is None or root == n:
                    break
                d2 = f.whole_defs(root)
                if len(d2) == 1 and d2[0][0] == "stmt" and d2[0][1]["k"] == "use" and op_place(d2[0][1]["op"]) is not None and not op_place(d2[0][1]["op"])["proj"]:
                    root = op_place(d2[0][1]["op"])["local"]
                else:
                    break
            if root == n and inits and all(i is not None and strip_casts(i) == idx_t for i in inits):
                store_ok = True
    ctx.ob(rule, "table-store/Crc32::new", store_ok, "table[i] receives the value that entered the round loop as i")
    _calculate_shape(ctx, prog, rule, calc_path)
