"""Bit-width formula agreement (C12-R1, C01-R9)."""
from mirlib import *
from cache_rules import strip_casts, const_val


def _width_tree_ok(t, min_leaf, max_leaf):
    """t == (ilog2(max as i128 - min as i128) as usize) + 1 ; returns (ok, description)"""
    t0 = strip(t)
    desc = tree_str(strip_deep(t0))
    if not (t0[0] == "binop" and t0[1] == "Add" and 1 in (const_val(t0[2]), const_val(t0[3]))):
        return False, desc
    x = t0[2] if const_val(t0[3]) == 1 else t0[3]
    x = strip_casts(x)
    for _ in range(4):
        # the Some payload of checked_ilog2 taken by a combinator (`.map_or(0, |b| b as usize + 1)`)
        if x[0] in ("ok", "partial", "ref"):
            x = strip_casts(x[1])
        elif x[0] == "field" and str(x[2]).startswith("Some"):
            x = strip_casts(x[1])
        else:
            break
    if not (x[0] == "call" and (x[1].endswith("::ilog2") or x[1].endswith("::checked_ilog2"))):
        return False, desc
    r = strip(x[2][0])
    return _range_tree_ok(r, min_leaf, max_leaf), desc


def _self_guarded(t):
    """the width is taken from checked_ilog2, which is None exactly for a range <= 0 (the zero-width case)"""
    return any(x[0] == "call" and x[1].endswith("::checked_ilog2") for x in leaves(strip(t)))


def _range_tree_ok(r, min_leaf, max_leaf):
    r = strip(r)
    if not (r[0] == "binop" and r[1] == "Sub"):
        return False
    a, b = strip(r[2]), strip(r[3])
    wide = a[0] == "cast" and a[1] == "i128" and b[0] == "cast" and b[1] == "i128"
    return wide and strip_casts(a) == max_leaf and strip_casts(b) == min_leaf


def _const_bits(t):
    """value of a constant width expression: integer literals, casts, products, size_of::<T>(), T::BITS"""
    t = strip(t)
    while t[0] == "cast":
        t = strip(t[2])
    if t[0] == "const" and isinstance(t[2], int):
        return t[2]
    if t[0] == "binop" and t[1] == "Mul":
        a, b = _const_bits(t[2]), _const_bits(t[3])
        return None if a is None or b is None else a * b
    if t[0] == "call" and t[1].endswith("mem::size_of") and len(t) > 4 and t[4]:
        return {"f32": 4, "f64": 8, "u32": 4, "u64": 8, "i32": 4, "i64": 8, "u8": 1, "u16": 2}.get(str(t[4][0]))
    return None


def bit_size_table(ctx, prog, rule):
    """the writer sizes its packets with RecordDataType::bit_size: 32 bits for Single, 64 for Double, integer_bits(min,
    max) of the same variant for the two integer kinds (decided per variant on the pruned flow graph)"""
    from simple_rules import assume_cfg, leaf_name
    f = prog.fn("record::RecordDataType::bit_size")
    ctx.fn_seen(f)
    R = Resolver(f)
    adt = prog.adt("record::RecordDataType")
    got = {}
    for vi, v in enumerate(adt["variants"]):
        g = assume_cfg(f, [(lambda s_: strip(s_) == ("param", 1) or leaf_name(s_) == "arg1", vi)])
        r = reach(g, [0])
        # values are resolved on the view pruned to this variant: an or-pattern arm `ScaledInteger{min,max} | Integer{min,max}`
        # binds min / max from the variant at hand
        from simple_rules import fn_view
        fv = fn_view(f, g)
        Rv = Resolver(fv)
        vals = []
        for bi, si, cls, payload in fv.ret_assignments():
            if bi not in r:
                continue
            tr = Rv._call(payload, bi, 0, frozenset()) if cls == "fwd" or (isinstance(payload, dict) and payload.get("k") == "call") else Rv.rvalue(payload)
            tr = strip(tr)
            c = _const_bits(tr)
            if c is not None:
                vals.append(c)
            elif tr[0] == "call" and tr[1] == "record::integer_bits":
                vals.append("integer_bits(%s)" % ", ".join(tree_str(strip_deep(a)) for a in tr[2]))
            else:
                vals.append(tree_str(strip_deep(tr))[:60])
        got[v["name"]] = vals
    want = {"Single": [32], "Double": [64], "ScaledInteger": ["integer_bits(arg1.ScaledInteger.min, arg1.ScaledInteger.max)"], "Integer": ["integer_bits(arg1.Integer.min, arg1.Integer.max)"]}
    ctx.ob(rule, "bit-size/RecordDataType::bit_size", got == want, "bit_size per variant: %s (must be 32 / 64 / integer_bits(min, max) of the same variant)" % got)


def width_formula(ctx, prog, rule):
    bit_size_table(ctx, prog, rule)
    n = 0
    # writer: record::integer_bits(min=arg1, max=arg2)
    f = prog.fn("record::integer_bits")
    ctx.fn_seen(f)
    R = Resolver(f)
    ret = R.local(0)
    alts = ret[1] if ret[0] == "phi" else (ret,)
    ok_w, ok_zero = False, False
    checked_guard = False
    descs = []
    for a in alts:
        if const_val(a) == 0:
            ok_zero = True
            continue
        ok, d = _width_tree_ok(a, ("param", 1), ("param", 2))
        descs.append(d)
        ok_w = ok_w or ok
        if ok and _self_guarded(a):
            checked_guard = True
    # guard range > 0
    guard = False
    for bi in f.cfg():
        t = f.blocks[bi]["term"]
        if t["k"] == "switch":
            dl = op_place(t["discr"])
            d = strip(R.place(dl)) if dl else None
            if d and d[0] == "binop" and d[1] in ("Gt", "Le", "Lt", "Ge") and 0 in (const_val(d[2]), const_val(d[3])):
                other = d[2] if const_val(d[3]) == 0 else d[3]
                guard = _range_tree_ok(other, ("param", 1), ("param", 2))
    n += 1
    guard = guard or checked_guard
    ctx.ob(rule, "width/record::integer_bits", ok_w and ok_zero and guard,
           "integer_bits = %s, else 0 under a test of the i128 range against 0 (%s)" % (descs, guard), where="%s:%d" % (f.span["file"], f.span["l0"]))
    # reader: BitPack::unpack_ints / unpack_scaled_ints (stream=arg1, min=arg2, max=arg3)
    for name in ("bitpack::BitPack::unpack_ints", "bitpack::BitPack::unpack_scaled_ints"):
        g = prog.fn(name)
        ctx.fn_seen(g)
        Rg = Resolver(g)
        okb, okm, okv = False, False, False
        desc = []
        for bi, t in g.calls(lambda c, t: c.endswith("ByteStreamReadBuffer::extract")):
            bits = Rg.operand(t["args"][1])
            okb, d = _width_tree_ok(bits, ("param", 2), ("param", 3))
            desc.append("extract(%s)" % d)
        # value = (uint & mask) as i128 + min as i128, mask = (1u128 << bits) - 1
        for bi, t in g.calls(lambda c, t: c.endswith("VecDeque::<T, A>::push_back")):
            v = strip(Rg.operand(t["args"][1]))
            if v[0] == "call" and v[1].startswith("record::RecordValue::") and len(v[2]) == 1:
                v = ("agg", ("adt", "record::RecordValue", v[1].rsplit("::", 1)[-1], ("0",)), v[2])    # constructor fn = tuple variant literal
            if v[0] == "agg" and v[2]:
                x = strip(v[2][0])
                while x[0] == "cast":
                    x = strip(x[2])
                if x[0] == "binop" and x[1] == "Add":
                    parts = [strip(x[2]), strip(x[3])]
                    has_min = any(p[0] == "cast" and p[1] == "i128" and strip_casts(p) == ("param", 2) for p in parts)
                    masked = [p for p in parts if strip_casts(p)[0] == "binop" and strip_casts(p)[1] == "BitAnd"]
                    okv = has_min and bool(masked)
                    if masked:
                        m = strip_casts(masked[0])
                        for side in (m[2], m[3]):
                            s = strip_casts(side)
                            if s[0] == "binop" and s[1] == "Sub" and const_val(s[3]) == 1:
                                sh = strip_casts(s[2])
                                if sh[0] == "binop" and sh[1] == "Shl" and const_val(sh[2]) == 1:
                                    okm, _ = _width_tree_ok(sh[3], ("param", 2), ("param", 3))
                    desc.append("value=%s" % tree_str(strip_deep(x))[:200])
        n += 1
        ctx.ob(rule, "width/%s" % short(name), okb and okm and okv, "; ".join(desc) + " (needs extract(ilog2(max-min as i128)+1), mask (1<<bits)-1, value + min in i128)",
               where="%s:%d" % (g.span["file"], g.span["l0"]))
    ctx.floor(rule, "width computations", n, 3)
