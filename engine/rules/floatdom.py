"""A7 — abstract interpretation of f32/f64 locals over a class domain.

abstract value = (frozenset of classes, bounded) with classes
  nan, ninf, neg (finite < 0), zero (+0/-0), pos (finite > 0), pinf
`bounded` = every finite member has magnitude <= f32::MAX (so an `as f32` cast cannot overflow
to infinity).  Forward worklist over the pruned CFG, join = union, branch refinement on
`x.is_nan()` / `x.is_finite()` results.  Sound for the operators it knows; anything else yields TOP.
"""
import struct

from mirlib import *

ALL = frozenset(["nan", "ninf", "neg", "zero", "pos", "pinf"])
TOP = (ALL, False)
FIN = frozenset(["neg", "zero", "pos"])
F32_MAX = 3.4028234663852886e38


def const_class(o):
    v = const_int(o)
    if v is None:
        return None
    ty = o.get("ty")
    if ty == "f64":
        x = struct.unpack("<d", struct.pack("<Q", v))[0]
    elif ty == "f32":
        x = struct.unpack("<f", struct.pack("<I", v))[0]
    else:
        return None
    return of_float(x)


def of_float(x):
    if x != x:
        return (frozenset(["nan"]), True)
    if x == float("inf"):
        return (frozenset(["pinf"]), True)
    if x == float("-inf"):
        return (frozenset(["ninf"]), True)
    c = "zero" if x == 0 else ("pos" if x > 0 else "neg")
    return (frozenset([c]), abs(x) <= F32_MAX)


def join(a, b):
    if a is None:
        return b
    if b is None:
        return a
    return (a[0] | b[0], a[1] and b[1])


def _sign_classes(c):
    return {"neg": -1, "ninf": -1, "pos": 1, "pinf": 1, "zero": 0}.get(c)


def add(a, b, sub=False):
    out = set()
    for x in a[0]:
        for y in b[0]:
            if sub:
                y = {"neg": "pos", "pos": "neg", "ninf": "pinf", "pinf": "ninf"}.get(y, y)
            if "nan" in (x, y):
                out.add("nan")
            elif x in ("pinf", "ninf") or y in ("pinf", "ninf"):
                if {x, y} == {"pinf", "ninf"}:
                    out.add("nan")
                else:
                    out.add(x if x in ("pinf", "ninf") else y)
            elif x == "zero":
                out.add(y)
            elif y == "zero":
                out.add(x)
            elif x == y:
                out |= {x, "pinf" if x == "pos" else "ninf"}  # may overflow
            else:
                out |= {"neg", "zero", "pos"}
    return (frozenset(out), False)


def mul(a, b):
    out = set()
    for x in a[0]:
        for y in b[0]:
            if "nan" in (x, y):
                out.add("nan")
                continue
            sx, sy = _sign_classes(x), _sign_classes(y)
            inf = x in ("pinf", "ninf") or y in ("pinf", "ninf")
            if inf and (sx == 0 or sy == 0):
                out.add("nan")
            elif sx == 0 or sy == 0:
                out.add("zero")
            else:
                s = sx * sy
                if inf:
                    out.add("pinf" if s > 0 else "ninf")
                else:
                    out |= {"pos" if s > 0 else "neg", "zero", "pinf" if s > 0 else "ninf"}  # overflow / underflow
    return (frozenset(out), False)


def div(a, b):
    out = set()
    for x in a[0]:
        for y in b[0]:
            if "nan" in (x, y):
                out.add("nan")
                continue
            sx, sy = _sign_classes(x), _sign_classes(y)
            xinf, yinf = x in ("pinf", "ninf"), y in ("pinf", "ninf")
            if (xinf and yinf) or (sx == 0 and sy == 0):
                out.add("nan")
            elif sy == 0:
                # division by a zero of unknown sign
                out |= {"pinf", "ninf"}
            elif sx == 0 or yinf:
                out.add("zero")
            else:
                s = sx * sy
                if xinf:
                    out.add("pinf" if s > 0 else "ninf")
                else:
                    out |= {"pos" if s > 0 else "neg", "zero", "pinf" if s > 0 else "ninf"}
    return (frozenset(out), False)


def clamp(x, lo, hi):
    """f64::clamp(x, lo, hi): panics unless lo <= hi and neither is NaN (checked separately).
    result: NaN if x is NaN, otherwise within [lo, hi]."""
    out = set()
    if "nan" in x[0]:
        out.add("nan")
    # classes between lo and hi
    order = ["ninf", "neg", "zero", "pos", "pinf"]
    lo_min = min((order.index(c) for c in lo[0] if c != "nan"), default=0)
    hi_max = max((order.index(c) for c in hi[0] if c != "nan"), default=4)
    rng = set(order[lo_min:hi_max + 1])
    xs = set(x[0]) - {"nan"}
    # x classes inside the range stay; those outside map to the bound classes
    for c in xs:
        i = order.index(c)
        if i < lo_min:
            out |= {cc for cc in lo[0] if cc != "nan"}
        elif i > hi_max:
            out |= {cc for cc in hi[0] if cc != "nan"}
        else:
            out.add(c)
            # a value of the same class as a bound may still be clamped to that bound: same class
    bounded = lo[1] and hi[1] and not ({"pinf", "ninf"} & (set(lo[0]) | set(hi[0])))
    return (frozenset(out), bounded)


def cast(a, to_ty, from_ty):
    if to_ty == "f32" and from_ty == "f64":
        out = set(a[0])
        if not a[1]:
            if "pos" in out:
                out.add("pinf")
            if "neg" in out:
                out.add("ninf")
        # underflow to zero
        if "pos" in out or "neg" in out:
            out.add("zero")
        return (frozenset(out), a[1])
    if to_ty in ("f64", "f32") and from_ty in ("f32", "f64"):
        return a
    if to_ty in ("f64", "f32"):
        # integer -> float: finite
        return (FIN, to_ty == "f64" and False or False)
    return TOP


class FloatInterp:
    def __init__(self, fn, init=None, field_env=None):
        """init: local -> absval for parameters; field_env: callable(place)->absval or None for loads
        from struct fields."""
        self.fn = fn
        self.init = init or {}
        self.field_env = field_env
        self.alias = self._aliases()

    def _aliases(self):
        """copy classes: local -> representative for `_a = copy/move _b` single-definition temps."""
        rep = {}
        fn = self.fn
        for n, ds in fn.defs().items():
            if len(ds) == 1 and ds[0][0] == "stmt" and not ds[0][4]["proj"] and ds[0][1]["k"] == "use":
                p = op_place(ds[0][1]["op"])
                if p is not None and not p["proj"]:
                    rep[n] = p["local"]
        return rep

    def root(self, n):
        seen = set()
        while n in self.alias and n not in seen:
            seen.add(n)
            n = self.alias[n]
        return n

    def is_float(self, n):
        return self.fn.local_ty(n) in ("f64", "f32")

    def val(self, env, op):
        c = const_class(op)
        if c is not None:
            return c
        p = op_place(op)
        if p is None:
            return TOP
        if not p["proj"]:
            return env.get(p["local"], TOP)
        if self.field_env:
            v = self.field_env(p)
            if v is not None:
                return v
        return TOP

    def run(self):
        fn = self.fn
        g = fn.cfg()
        env_in = {0: dict(self.init)}
        work = [0]
        edge_refine = {}
        self.call_args = {}
        while work:
            b = work.pop()
            env = dict(env_in[b])
            blk = fn.blocks[b]
            for st in blk["stmts"]:
                pl = st["place"]
                if pl["proj"] or not self.is_float(pl["local"]):
                    continue
                env[pl["local"]] = self.rvalue(env, st["rv"], pl["local"])
            t = blk["term"]
            outs = {}
            if t["k"] == "call":
                c = callee_of(t)
                args = [self.val(env, a) for a in t["args"]]
                self.call_args[b] = (c, args)
                d = t["dest"]
                if not d["proj"] and self.is_float(d["local"]):
                    env[d["local"]] = self.call(c, args)
                for s in g.get(b, []):
                    outs[s] = env
            elif t["k"] == "switch":
                outs = self.switch(b, t, env, g)
            else:
                for s in g.get(b, []):
                    outs[s] = env
            for s, e in outs.items():
                old = env_in.get(s)
                if old is None:
                    env_in[s] = dict(e)
                    work.append(s)
                else:
                    changed = False
                    for k, v in e.items():
                        j = join(old.get(k), v)
                        if j != old.get(k):
                            old[k] = j
                            changed = True
                    if changed:
                        work.append(s)
        self.env_in = env_in
        return env_in

    def rvalue(self, env, rv, dest):
        k = rv["k"]
        if k == "use":
            return self.val(env, rv["op"])
        if k == "binop":
            a, b = self.val(env, rv["a"]), self.val(env, rv["b"])
            op = rv["op"]
            if op == "Add":
                return add(a, b)
            if op == "Sub":
                return add(a, b, sub=True)
            if op == "Mul":
                return mul(a, b)
            if op == "Div":
                return div(a, b)
            return TOP
        if k == "unop" and rv["op"] == "Neg":
            a = self.val(env, rv["a"])
            m = {"neg": "pos", "pos": "neg", "ninf": "pinf", "pinf": "ninf"}
            return (frozenset(m.get(c, c) for c in a[0]), a[1])
        if k == "cast":
            p = op_place(rv["a"])
            from_ty = self.fn.local_ty(p["local"]) if p is not None and not p["proj"] else rv["a"].get("ty", "?")
            a = self.val(env, rv["a"]) if from_ty in ("f32", "f64") else (FIN, False)
            return cast(a, rv["ty"], from_ty)
        return TOP

    def call(self, c, args):
        last = c.rsplit("::", 1)[-1]
        if last == "clamp" and "f64" in c or last == "clamp" and "f32" in c:
            return clamp(args[0], args[1], args[2])
        if last == "abs":
            m = {"neg": "pos", "ninf": "pinf"}
            return (frozenset(m.get(x, x) for x in args[0][0]), args[0][1])
        if last in ("max", "min") and ("f64" in c or "f32" in c):
            # f64::max/min ignore a NaN operand
            a, b = args[0], args[1]
            out = (set(a[0]) | set(b[0])) - {"nan"}
            if "nan" in a[0] and "nan" in b[0]:
                out.add("nan")
            return (frozenset(out), a[1] and b[1])
        return TOP

    def switch(self, b, t, env, g):
        """refine on `switch(is_nan(x))` / `switch(is_finite(x))`."""
        fn = self.fn
        outs = {}
        dl = op_place(t["discr"])
        refine = None
        if dl is not None and not dl["proj"]:
            ds = fn.whole_defs(dl["local"])
            if len(ds) == 1 and ds[0][0] == "call":
                c = callee_of(ds[0][1])
                last = c.rsplit("::", 1)[-1]
                if last in ("is_nan", "is_finite", "is_infinite"):
                    p = op_place(ds[0][1]["args"][0])
                    if p is not None and not p["proj"]:
                        refine = (last, self.root(p["local"]), p["local"])
        e = switch_edges(fn, b)
        for val, s in e.items():
            if s not in g.get(b, []):
                continue
            env2 = env
            if refine:
                kind, root, tmp = refine
                truth = (val == "otherwise")  # bool: 0 -> false
                env2 = dict(env)
                for n in list(env2.keys()) + [root]:
                    if self.root(n) == root or n == root:
                        cur = env2.get(n, TOP)
                        env2[n] = self._refine(cur, kind, truth)
            if s in outs:
                merged = dict(outs[s])
                for k, v in env2.items():
                    merged[k] = join(merged.get(k), v)
                outs[s] = merged
            else:
                outs[s] = env2
        return outs

    @staticmethod
    def _refine(v, kind, truth):
        cls = set(v[0])
        if kind == "is_nan":
            cls = cls & {"nan"} if truth else cls - {"nan"}
        elif kind == "is_finite":
            cls = cls & FIN if truth else cls - FIN
        elif kind == "is_infinite":
            cls = cls & {"pinf", "ninf"} if truth else cls - {"pinf", "ninf"}
        return (frozenset(cls), v[1])
