"""Obligations, verdicts, known findings, evidence files and the VIOLATION protocol."""
import hashlib
import json
import os
import re
import sys
import time

from facts import VERIF, Unusable

KNOWN = os.path.join(VERIF, "known_findings.json")
EVIDENCE_DIR = os.environ.get("VERIF_EVIDENCE_DIR") or os.path.join(VERIF, "evidence")
REPLAY_DIR = os.path.join(EVIDENCE_DIR, "replay")


class Ob:
    __slots__ = ("rule", "key", "ok", "detail", "where", "nontrivial", "path", "cfg")

    def __init__(self, rule, key, ok, detail, where=None, nontrivial=True, path=None, cfg=None):
        self.rule, self.key, self.ok, self.detail = rule, key, ok, detail
        self.where, self.nontrivial, self.path, self.cfg = where, nontrivial, path, cfg

    def to_json(self):
        d = {"rule": self.rule, "key": self.key, "verdict": "holds" if self.ok else ("UNRECOGNISED" if self.ok is None else "VIOLATED"), "detail": self.detail}
        if self.where:
            d["where"] = self.where
        if self.path:
            d["path"] = self.path
        if self.cfg:
            d["config"] = self.cfg
        return d


class Ctx:
    def __init__(self, pid, tier, seed=0, only_key=None):
        self.pid = pid
        self.tier = tier
        self.seed = seed
        self.only_key = only_key
        self.obs = []
        self.notes = []
        self.analysed_fns = set()
        self.configs = {}
        self.floors = []
        self.controls = []
        self.rules = {}
        self.assumptions = []
        self.extra = {}
        self.t0 = time.time()
        self.cfg = None  # current configuration label

    # -- registration ------------------------------------------------------------------
    def rule(self, rid, text):
        self.rules[rid] = text

    def ob(self, rule, key, ok, detail, where=None, nontrivial=True, path=None):
        full = "%s/%s/%s" % (self.pid, rule, key)
        if self.cfg and self.cfg != "lib":
            pass
        self.obs.append(Ob(rule, full, None if ok is None else bool(ok), detail, where, nontrivial, path, self.cfg))
        return bool(ok)

    def fn_seen(self, fn):
        self.analysed_fns.add((self.cfg or "") + ":" + fn.path)

    def floor(self, rule, what, count, floor, semantic=True):
        """instance-count floor.  semantic floors count schema fields / protocol steps and a
        shortfall is a violation of the rule; analysis floors (bodies seen, ...) make the check
        unusable instead."""
        self.floors.append({"rule": rule, "what": what, "count": count, "floor": floor})
        if count < floor:
            if semantic:
                self.ob(rule, "floor/" + what, False, "only %d instances of %s found, %d were confirmed by hand on the reference tree" % (count, what, floor), nontrivial=False)
            else:
                raise Unusable("%s: analysis floor for %s not met (%d < %d)" % (rule, what, count, floor))

    def call(self, fn, *args, **kwargs):
        """run one rule function; a rule that cannot judge this tree (an Unusable it raises, a missing anchor inside
        it, an internal error) becomes one *undecided* obligation of its own, so that what the other rules of the
        property found is still reported (a violation wins over undecided, undecided over holds)"""
        rule = next((a for a in args if isinstance(a, str) and re.match(r"^R\d+[a-z]?$", a)), None) or kwargs.get("rule") or "R0"
        try:
            return fn(self, *args, **kwargs)
        except Exception as e:                                            # incl. facts.Unusable
            import traceback
            tb = traceback.extract_tb(e.__traceback__)
            last = tb[-1] if tb else None
            where = "%s:%d" % (os.path.basename(last.filename), last.lineno) if last else "?"
            kind = "cannot judge this tree" if e.__class__.__name__ == "Unusable" else "internal error of the rule (%s)" % e.__class__.__name__
            self.ob(rule, "undecided/%s%s" % (getattr(fn, "__name__", "rule"), ("/" + self.cfg) if self.cfg else ""), None,
                    "%s: %s at %s: %s" % (getattr(fn, "__name__", "rule"), kind, where, str(e)[:300]), nontrivial=False)
            return None

    def control(self, rule, name, fired, expected):
        self.controls.append({"rule": rule, "control": name, "fired": fired, "expected": expected})
        if fired != expected:
            raise Unusable("control %s for rule %s: fired=%s expected=%s — the rule implementation is broken, no verdict" % (name, rule, fired, expected))

    def assume(self, text):
        if text not in self.assumptions:
            self.assumptions.append(text)

    def note(self, text):
        self.notes.append(text)


def load_known():
    if not os.path.exists(KNOWN):
        return {"findings": [], "fixed": []}
    with open(KNOWN) as fh:
        return json.load(fh)


def finish(ctx, explanation, technique):
    """prints verdict lines, writes evidence, returns exit code."""
    known = load_known()
    known_keys = {f["key"]: f for f in known.get("findings", []) if f.get("property") == ctx.pid}
    obs = ctx.obs
    if ctx.only_key:
        obs = [o for o in obs if o.key == ctx.only_key]
    bad = [o for o in obs if o.ok is False]
    unrecognised = [o for o in obs if o.ok is None]
    # de-duplicate by key (+config)
    seen = set()
    uniq_bad = []
    for o in bad:
        k = (o.key, o.cfg)
        if k in seen:
            continue
        seen.add(k)
        uniq_bad.append(o)
    new = [o for o in uniq_bad if o.key not in known_keys]
    listed = [o for o in uniq_bad if o.key in known_keys]
    os.makedirs(REPLAY_DIR, exist_ok=True)
    printed_known = set()
    for o in listed:
        if o.key in printed_known:
            continue
        printed_known.add(o.key)
        print("KNOWN-FINDING: property=%s %s [%s]" % (ctx.pid, known_keys[o.key].get("what", o.detail), o.key))
    for o in new:
        h = hashlib.sha1((o.key + "|" + (o.cfg or "")).encode()).hexdigest()[:12]
        rp = os.path.join(REPLAY_DIR, "%s-%s.json" % (ctx.pid, h))
        with open(rp, "w") as fh:
            json.dump({"property": ctx.pid, "obligation": o.to_json(), "rule_text": ctx.rules.get(o.rule, ""),
                       "replay": "./check %s --replay %s" % (ctx.pid, rp)}, fh, indent=1)
        print("  rule %s (%s)" % (o.rule, ctx.rules.get(o.rule, "")))
        print("  at %s%s" % (o.where or "?", (" [config %s]" % o.cfg) if o.cfg else ""))
        print("  %s" % o.detail)
        if o.path:
            print("  path: %s" % o.path)
        print("VIOLATION property=%s replay=%s" % (ctx.pid, rp))
    wall = time.time() - ctx.t0
    keys = {o.key for o in obs}
    nontrivial_keys = {o.key for o in obs if o.nontrivial}
    samples = []
    per_rule = {}
    for o in obs:
        per_rule.setdefault(o.rule, [0, 0])
        per_rule[o.rule][0] += 1
        per_rule[o.rule][1] += 1 if o.ok else 0
    shown = set()
    for o in obs:
        if o.rule not in shown or not o.ok:
            shown.add(o.rule)
            samples.append(o.to_json())
    samples = samples[:60]
    ev = {
        "property_id": ctx.pid,
        "tier": ctx.tier,
        "seed": ctx.seed,
        "level": "other",
        "coverage": {
            "explanation": explanation,
            "technique": technique,
            "obligations": len(obs),
            "discharged": len([o for o in obs if o.ok]),
            "evaluations": len(obs),
            "distinct_nontrivial": len(nontrivial_keys),
            "rule": "one obligation per (rule, function, semantic descriptor); an obligation is non-trivial when deciding it needed a path, dataflow or table comparison over MIR rather than a constant lookup; distinct = distinct obligation keys (%d)" % len(keys),
            "samples": samples,
            "rules": ctx.rules,
            "per_rule": {r: {"obligations": v[0], "hold": v[1]} for r, v in per_rule.items()},
            "functions_analysed": len(ctx.analysed_fns),
            "function_list": sorted(ctx.analysed_fns)[:400],
            "configurations": ctx.configs,
            "floors": ctx.floors,
            "controls": ctx.controls,
            "known_findings_matched": sorted(printed_known),
            "notes": ctx.notes,
            "exhaustive": False,
        },
        "assumptions": ctx.assumptions + [
            "rustc's MIR (mir-opt-level=0, debug profile, overflow checks on) is a faithful rendering of the source",
            "std, roxmltree, the optional crc32c crate and the I/O device behave as documented",
            "static decision of the named structural clauses only; run-time value behaviour is not decided (see level_note)",
        ],
        "wall_s": round(wall, 3),
        "violations": len(new),
    }
    ev["coverage"].update(ctx.extra)
    os.makedirs(EVIDENCE_DIR, exist_ok=True)
    with open(os.path.join(EVIDENCE_DIR, "%s.json" % ctx.pid), "w") as fh:
        json.dump(ev, fh, indent=1)
    print("%s [%s]: %d obligations, %d hold, %d known findings, %d new violations, %d functions, %.1fs" % (
        ctx.pid, ctx.tier, len(obs), len([o for o in obs if o.ok]), len(printed_known), len(new), len(ctx.analysed_fns), wall))
    if new:
        return 1
    if unrecognised:
        # the code no longer has a shape this rule can judge: no verdict (neither "holds" nor a violation)
        for o in unrecognised[:5]:
            print("  rule %s: %s" % (o.rule, o.detail))
        print("CHECK-UNUSABLE property=%s: %d obligation(s) could not be decided on this tree (unrecognised shape: %s)" % (ctx.pid, len(unrecognised), ", ".join(sorted({o.key for o in unrecognised}))[:300]))
        return 2
    return 0
