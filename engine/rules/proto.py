"""Protocol-order helpers (A2): steps are sets of blocks selected by predicates over calls /
statements; rules ask for existence, dominance order and must-pass-through on Ok paths."""
from mirlib import *


def calls_where(fn, pred):
    """blocks of calls for which pred(callee, term, resolver) holds."""
    R = Resolver(fn)
    out = []
    for bi, t in fn.calls():
        try:
            if pred(callee_of(t), t, R):
                out.append(bi)
        except Exception:
            raise
    return out


def callee_is(*names):
    """predicate: resolved callee equals / ends with / short-equals one of names."""
    def p(c, t, R):
        return any(c == n or c.endswith("::" + n) or short(c) == n for n in names)
    return p


def arg_tree(fn, t, i, R=None):
    R = R or Resolver(fn)
    return strip(R.operand(t["args"][i]))


class Steps:
    """named steps of a protocol inside one function."""

    def __init__(self, ctx, fn, rule):
        self.ctx, self.fn, self.rule = ctx, fn, rule
        self.steps = {}
        ctx.fn_seen(fn)

    def step(self, name, blocks, min_count=1, what=None):
        blocks = [b for b in blocks if b in self.fn.cfg()]
        self.steps[name] = blocks
        self.ctx.ob(self.rule, "step-present/%s/%s" % (short(self.fn.path), name), len(blocks) >= min_count,
                    "%d site(s) for step '%s'%s" % (len(blocks), name, (" (" + what + ")") if what else ""),
                    where=self.fn.file_line(blocks[0]) if blocks else "%s:%d" % (self.fn.span["file"], self.fn.span["l0"]), nontrivial=False)
        return blocks

    def must_pass(self, name, exempt=()):
        """every Ok-path of the function passes through a block of step `name` (paths through the `exempt` blocks,
        which the caller has shown to be a trivial shortcut, are not counted)."""
        blocks = self.steps.get(name, [])
        path = self.fn.ok_reachable(removed=list(blocks) + list(exempt))
        ok = path is None and bool(blocks)
        self.ctx.ob(self.rule, "on-every-ok-path/%s/%s" % (short(self.fn.path), name), ok,
                    "step '%s' %s on every path to a successful return" % (name, "lies" if ok else "does NOT lie"),
                    where=self.fn.file_line(blocks[0]) if blocks else None,
                    path=None if ok or path is None else " -> ".join("bb%d" % b for b in path))
        return ok

    def before(self, a, b, all_b=True):
        """every site of step b is dominated by some site of step a."""
        A, B = self.steps.get(a, []), self.steps.get(b, [])
        bad = [y for y in B if not any(x != y and self.fn.dominates(x, y) for x in A)]
        ok = bool(A) and bool(B) and not bad
        self.ctx.ob(self.rule, "order/%s/%s<%s" % (short(self.fn.path), a, b), ok,
                    "step '%s' %s every site of step '%s'" % (a, "dominates" if ok else "does NOT dominate", b),
                    where=self.fn.file_line((bad or B or A or [0])[0]))
        return ok

    def not_between(self, a, x, b):
        """no site of step x lies on a path from a site of a to a site of b."""
        A, X, B = (self.steps.get(n, []) for n in (a, x, b))
        g = self.fn.cfg()
        bad = None
        for xx in X:
            if xx in A or xx in B:
                continue
            if find_path(g, A, {xx}, set()) and find_path(g, [xx], set(B), set()):
                bad = xx
        ok = bad is None
        self.ctx.ob(self.rule, "not-between/%s/%s..%s..%s" % (short(self.fn.path), a, x, b), ok,
                    "no '%s' between '%s' and '%s'" % (x, a, b) if ok else "'%s' at %s lies between '%s' and '%s'" % (x, self.fn.file_line(bad), a, b),
                    where=self.fn.file_line(bad) if bad is not None else None)
        return ok

    def precedes_only(self, a, b):
        """sites of a can reach sites of b, and no site of b can reach a site of a (for steps
        inside loops, where dominance is too strong)."""
        A, B = self.steps.get(a, []), self.steps.get(b, [])
        g = self.fn.cfg()
        fwd = bool(A) and bool(B) and all(find_path(g, g.get(x, []), set(B), set()) for x in A)
        back = any(find_path(g, g.get(y, []), set(A), set()) for y in B)
        ok = fwd and not back
        self.ctx.ob(self.rule, "sequence/%s/%s<%s" % (short(self.fn.path), a, b), ok,
                    "every '%s' can be followed by '%s' (%s) and no '%s' is ever followed by '%s' (%s)" % (a, b, fwd, b, a, not back),
                    where=self.fn.file_line((B or A or [0])[0]))
        return ok
