"""Reader-side packet handling rules (C03-R2..R4)."""
import json
import os

from mirlib import *
from proto import *
from cache_rules import strip_casts, const_val
from facts import VERIF

ADV = "queue_reader::QueueReader::<'a, T>::advance"
LAYOUT = json.load(open(os.path.join(VERIF, "spec", "layouts.json")))
DEFAULTS = {
    "_source": "ASTM E2807 table of element attributes: defaults of omitted type attributes",
    "Integer": {"minimum": -(1 << 63), "maximum": (1 << 63) - 1},
    "ScaledInteger": {"minimum": -(1 << 63), "maximum": (1 << 63) - 1, "scale": 1.0, "offset": 0.0},
    "Float": {"precision": "double"},
}


def skip_length(ctx, prog, rule):
    f = prog.fn(ADV)
    ctx.fn_seen(f)
    R = Resolver(f)
    sizes = {"Index": LAYOUT["index_packet_header"]["size"], "Ignored": LAYOUT["ignored_packet_header"]["size"]}
    found = {}
    for bi, t in f.calls(lambda c, t: c.endswith("Read::read_exact")):
        buf = R.operand(t["args"][1])
        for sub in leaves(buf):
            if sub[0] == "call" and sub[1].endswith("from_elem"):
                n0 = strip_casts(sub[2][1])
                # one alternative per packet kind when the skip is shared by several arms
                for n in (n0[1] if n0[0] == "phi" else (n0,)):
                  n = strip_casts(n)
                  # n = ok(checked_sub(header.packet_length, SIZE)) | header.packet_length - SIZE (guarded) | saturating_sub
                  desc = tree_str(strip_deep(n))
                  kind = None
                  size = None
                  guarded = False
                  x = strip(n)
                  if x[0] == "call" and x[1].endswith("checked_sub"):
                      base, size = strip(x[2][0]), const_val(x[2][1])
                      guarded = True
                  elif x[0] == "call" and x[1].endswith("saturating_sub"):
                      base, size = strip(x[2][0]), const_val(x[2][1])
                      guarded = True
                  elif x[0] == "binop" and x[1] == "Sub":
                      base, size = strip(x[2]), const_val(x[3])
                  else:
                      base = x
                  if base[0] == "field" and base[2] == "packet_length":
                      hdr = strip(base[1])
                      if hdr[0] == "field" and "." in hdr[2]:
                          kind = hdr[2].split(".")[0]
                  if kind:
                      found[kind] = (size, guarded, desc, bi)
    for kind, want in sizes.items():
        got = found.get(kind)
        ok = got is not None and got[0] == want and got[1]
        ctx.ob(rule, "skip-length/%s" % kind, ok,
               "%s packet: bytes skipped after the header = %s (must be packet_length - %d with an underflow guard: the length field counts the %d header bytes already consumed)" % (
                   kind, got[2] if got else "no read_exact of a buffer sized from packet_length found", want, want), where=f.file_line(got[3]) if got else None)
    # every arm reaches align
    S = Steps(ctx, f, rule)
    S.step("align", calls_where(f, lambda c, t, R: c == "paged_reader::PagedReader::<T>::align"))
    S.must_pass("align")


def stream_loop_shape(ctx, prog, rule):
    f = prog.fn(ADV)
    R = Resolver(f)
    # guard: bytestream_count == byte_streams.len()
    okg = False
    for bi in f.cfg():
        t = f.blocks[bi]["term"]
        if t["k"] == "switch":
            dl = op_place(t["discr"])
            d = strip(R.place(dl)) if dl else None
            if d and d[0] == "binop" and d[1] in ("Ne", "Eq"):
                a, b = strip_casts(d[2]), strip_casts(d[3])
                names = {tree_str(a), tree_str(b)}
                if any("bytestream_count" in n for n in names) and any(n.startswith("Vec::len(arg1.byte_streams") or n.startswith("Vec::len(arg1.buffer_sizes") or "prototype" in n for n in names):
                    e = switch_edges(f, bi)
                    bad = e["otherwise"] if d[1] == "Ne" else e.get("0")
                    okg = f.ok_reachable(start=[bad]) is None
    ctx.ob(rule, "stream-count-guard/advance", okg, "a data packet whose bytestream_count differs from the prototype length is rejected")
    # sizes: read_exact of a 2-byte buffer, u16::from_le_bytes -> buffer_sizes[i]
    oks = False
    for n, ds in f.defs().items():
        for kind, payload, bi, si, place in ds:
            if kind == "stmt" and place["proj"] and bi in f.cfg():
                pass
    for bi, t in f.calls(lambda c, t: c.endswith("index_mut")):
        base = strip(R.operand(t["args"][0]))
        if self_field(base) == "buffer_sizes":
            # the value stored through this reference
            d = t["dest"]["local"]
            for b2 in f.cfg():
                for st in f.blocks[b2]["stmts"]:
                    pl = st["place"]
                    if pl["local"] == d and pl["proj"] and pl["proj"][0]["k"] == "deref":
                        v = strip_casts(R.rvalue(st["rv"]))
                        oks = v[0] == "call" and v[1].endswith("u16>::from_le_bytes")
    if not oks:
        # the same store through `for size in self.buffer_sizes.iter_mut() { *size = .. }`
        import elems
        for b2 in f.cfg():
            for st in f.blocks[b2]["stmts"]:
                pl = st["place"]
                if pl["proj"] and len(pl["proj"]) == 1 and pl["proj"][0]["k"] == "deref":
                    tr = R.local(pl["local"])
                    if tr[0] == "partial":
                        tr = tr[1]
                    e = elems.elem_of(tr)
                    if e is not None and self_field(strip(e[0])) == "buffer_sizes" and not e[1]:
                        v = strip_casts(R.rvalue(st["rv"]))
                        oks = v[0] == "call" and v[1].endswith("u16>::from_le_bytes")
    ctx.ob(rule, "stream-sizes/advance", oks, "buffer_sizes[i] <- u16::from_le_bytes(2 bytes read from the packet)")
    # payload: buffer.resize(size_i) ; read_exact(buffer) ; byte_streams[i].append(buffer) with the same i
    okp = False
    import elems
    for bi, t in f.calls(lambda c, t: c == "bs_read::ByteStreamReadBuffer::append"):
        te = elems.elem_of(R.operand(t["args"][0]))
        data = strip(R.operand(t["args"][1]))
        if te is None or self_field(strip(te[0])) != "byte_streams" or te[1] or self_field(data) != "buffer":
            continue
        # the resize before it uses the element of buffer_sizes at the same position
        for b2, t2 in f.calls(lambda c, t: c.endswith("Vec::<T, A>::resize")):
            if self_field(R.operand(t2["args"][0])) == "buffer":
                se = elems.elem_of(R.operand(t2["args"][1]))
                okp = (se is not None and self_field(strip(se[0])) == "buffer_sizes" and not se[1]
                       and elems.same_position(se, te) and f.dominates(b2, bi))
    ctx.ob(rule, "stream-payload/advance", okp, "for (i, size) in buffer_sizes.enumerate(): buffer.resize(size); read_exact(buffer); byte_streams[i].append(buffer)")
    reads = calls_where(f, lambda c, t, R: c.endswith("Read::read_exact") and self_field(R.operand(t["args"][1])) == "buffer" or (c.endswith("Read::read_exact") and "arg1.buffer" in tree_str(R.operand(t["args"][1]))))
    ctx.ob(rule, "stream-payload-read/advance", len(reads) == 1, "exactly one read_exact into self.buffer per stream (%d)" % len(reads), nontrivial=False)


def defaults_table(ctx, prog, rule):
    f = prog.fn("record::RecordDataType::from_node")
    ctx.fn_seen(f)
    R = Resolver(f)
    # unwrap_or defaults after optional_attribute(node, "<attr>", ..)
    got = {}
    for bi, t in f.calls(lambda c, t: c.endswith("Option::<T>::unwrap_or")):
        src = strip(R.operand(t["args"][0]))
        dv = strip(R.operand(t["args"][1]))
        ty = f.local_ty(t["dest"]["local"])
        attr = None
        if src[0] == "call" and src[1] == "record::optional_attribute":
            a = strip(src[2][1])
            attr = a[2] if a[0] == "const" else None
        elif src[0] == "call" and src[1].endswith("::attribute"):
            a = strip(src[2][1])
            attr = a[2] if a[0] == "const" else None
        if attr is None:
            continue
        if dv[0] == "const" and isinstance(dv[2], int):
            v = dv[2]
            if ty == "i64":
                v = v - (1 << 64) if v >= (1 << 63) else v
            elif ty == "f64":
                import struct
                v = struct.unpack("<d", struct.pack("<Q", v))[0]
        elif dv[0] == "const":
            v = dv[2]
        else:
            v = tree_str(dv)
        got.setdefault(attr, []).append(v)
    # the defaults seen from the values that are built: every Integer / ScaledInteger literal takes its fields from
    # optional_attribute(.., "<attr>") with the documented default (however many arms share the code)
    def field_default(tr):
        tr = strip(tr)
        if tr[0] == "call" and tr[1].endswith("Option::<T>::unwrap_or") and len(tr[2]) == 2:
            src, dv = strip(tr[2][0]), strip(tr[2][1])
            if src[0] == "call" and src[1] == "record::optional_attribute" and strip(src[2][1])[0] == "const":
                v = dv[2] if dv[0] == "const" else tree_str(dv)
                ty = tr[4][0] if len(tr) > 4 and tr[4] else ""
                if isinstance(v, int) and ty == "i64":
                    v = v - (1 << 64) if v >= (1 << 63) else v
                elif isinstance(v, int) and ty == "f64":
                    import struct
                    v = struct.unpack("<d", struct.pack("<Q", v))[0]
                return strip(src[2][1])[2], v
        return None, tree_str(tr)[:60]
    ATTR = {"min": "minimum", "max": "maximum", "scale": "scale", "offset": "offset"}
    built = {}
    for bi in f.cfg():
        for st in f.blocks[bi]["stmts"]:
            rv = st["rv"]
            if rv["k"] == "aggregate" and rv["kind"].get("adt") == "record::RecordDataType" and rv["kind"]["variant"] in ("Integer", "ScaledInteger"):
                for name, o in zip(rv["kind"]["fields"], rv["ops"]):
                    built.setdefault(rv["kind"]["variant"], {})[name] = field_default(R.operand(o))
    want_b = {"Integer": {"min": ("minimum", DEFAULTS["Integer"]["minimum"]), "max": ("maximum", DEFAULTS["Integer"]["maximum"])},
              "ScaledInteger": {"min": ("minimum", DEFAULTS["ScaledInteger"]["minimum"]), "max": ("maximum", DEFAULTS["ScaledInteger"]["maximum"]),
                                "scale": ("scale", 1.0), "offset": ("offset", 0.0)}}
    # Float precision: absent means double
    prec = [v for v in got.get("precision", [])]
    okprec = prec == ["double"]
    if not prec:
        def is_prec(a):
            return a[0] == "call" and a[1].endswith("::attribute") and len(a[2]) == 2 and strip(a[2][1])[0] == "const" and strip(a[2][1])[2] == "precision"
        aggs = {"Single": [], "Double": []}
        for bi in f.cfg():
            for st in f.blocks[bi]["stmts"]:
                rv = st["rv"]
                if rv["k"] == "aggregate" and rv["kind"].get("adt") == "record::RecordDataType" and rv["kind"]["variant"] in aggs:
                    aggs[rv["kind"]["variant"]].append(bi)
        tests = option_tests(f, R, is_prec)
        okprec = bool(tests) and bool(aggs["Double"])
        for sw, some_s, none_s in tests:
            from simple_rules import _propagate_const_flags
            g_ = _propagate_const_flags(f, cfg_without_edges(f, {(sw, some_s)}))
            r = reach(g_, [0])
            okprec = okprec and not any(b in r for b in aggs["Single"]) and any(b in r for b in aggs["Double"])
    gs = {"built": built, "precision absent -> double": okprec}
    ctx.ob(rule, "defaults/RecordDataType::from_node", built == want_b and okprec, "defaults of omitted attributes: %s (spec: minimum -2^63, maximum 2^63-1 for both integer kinds, scale 1, offset 0, precision double)" % gs)
    # float min/max stay absent (no unwrap_or on them): Single/Double aggregates take the Option directly
    okf = True
    for bi in f.cfg():
        for st in f.blocks[bi]["stmts"]:
            rv = st["rv"]
            if rv["k"] == "aggregate" and rv["kind"].get("adt") == "record::RecordDataType" and rv["kind"]["variant"] in ("Single", "Double"):
                for o in rv["ops"]:
                    tt = strip(R.operand(o))
                    okf = okf and tt[0] == "call" and tt[1] == "record::optional_attribute"
    ctx.ob(rule, "defaults/float-limits-absent", okf, "Float minimum/maximum are passed on as Option (absent stays absent)")
    # precision default identical in limits::extract_limit
    g = prog.fn("limits::extract_limit")
    ctx.fn_seen(g)
    Rg = Resolver(g)
    pd = []
    for bi, t in g.calls(lambda c, t: c.endswith("Option::<T>::unwrap_or")):
        src = strip(Rg.operand(t["args"][0]))
        dv = strip(Rg.operand(t["args"][1]))
        if src[0] == "call" and src[1].endswith("::attribute") and strip(src[2][1])[2] == "precision":
            pd.append(dv[2])
    okp = pd == ["double"]
    if not pd:
        # the same decision as a match on the optional attribute: the absent case builds a Double, never a Single
        def is_prec(a):
            return a[0] == "call" and a[1].endswith("::attribute") and len(a[2]) == 2 and strip(a[2][1])[0] == "const" and strip(a[2][1])[2] == "precision"
        aggs = {"Single": [], "Double": []}
        for bi in g.cfg():
            for st in g.blocks[bi]["stmts"]:
                rv = st["rv"]
                if rv["k"] == "aggregate" and rv["kind"].get("adt") == "record::RecordValue" and rv["kind"]["variant"] in aggs:
                    aggs[rv["kind"]["variant"]].append(bi)
        tests = option_tests(g, Rg, is_prec)
        okp = bool(tests) and bool(aggs["Double"])
        for sw, some_s, none_s in tests:
            r = reach(g.cfg(), [none_s])
            okp = okp and not any(b in r for b in aggs["Single"]) and any(b in r for b in aggs["Double"])
        pd = ["absent -> Double" if okp else "absent -> ?"]
    ctx.ob(rule, "defaults/precision-sibling", okp, "limits::extract_limit uses the same precision default: %s" % pd)
    # max < min rejected for both integer kinds: every Integer / ScaledInteger literal is built only after a test
    # `maximum < minimum` whose true edge cannot return Ok
    checks = []
    for bi in f.cfg():
        ot = order_test(f, R, bi)
        if ot is None:
            continue
        oe = order_edges(ot, lambda x: "'maximum'" in tree_str(strip(x)) and "'minimum'" not in tree_str(strip(x)),
                         lambda y: "'minimum'" in tree_str(strip(y)) and "'maximum'" not in tree_str(strip(y)))
        if oe is not None and f.ok_reachable(start=[oe[0]]) is None:
            checks.append(bi)
    n = 0
    for bi in f.cfg():
        for st in f.blocks[bi]["stmts"]:
            rv = st["rv"]
            if rv["k"] == "aggregate" and rv["kind"].get("adt") == "record::RecordDataType" and rv["kind"]["variant"] in ("Integer", "ScaledInteger"):
                if any(f.dominates(c, bi) for c in checks):
                    n += 1
                else:
                    n = -99
    ctx.ob(rule, "defaults/range-order-checked", n >= 2, "maximum < minimum is rejected for Integer and ScaledInteger (%d checks)" % n)


def _byte_positions(t, depth=0):
    """(root tree, lo, hi) of the positions a byte value can come from: a constant index, or an element yielded by an
    iteration over a view (iter / skip(n) / take(n) / constant slicing); hi None = to the end of the root"""
    from bytesview import byteview
    if depth > 10:
        return None
    x = t
    while x[0] in ("cast",):
        x = x[2]
    if x[0] in ("ref", "partial"):
        return _byte_positions(x[1], depth + 1)
    if x[0] == "index":
        bv = byteview(x[1])
        i = const_val(x[2])
        if bv is None or i is None:
            return None
        return (bv[0], bv[1] + i, bv[1] + i)
    if x[0] == "ok":
        c = x[1]
        while c[0] == "cast":
            c = c[2]
        if c[0] == "call" and c[1].rsplit("::", 1)[-1] == "next" and c[2]:
            return _iter_positions(c[2][0], depth + 1)
        return None
    s_ = strip(x)
    if s_ is not x and s_ != x:
        return _byte_positions(s_, depth + 1)
    return None


def _iter_positions(t, depth=0):
    from bytesview import byteview
    if depth > 10:
        return None
    x = t
    while x[0] in ("cast", "ref", "partial", "ok"):
        x = x[2] if x[0] == "cast" else x[1]
    if x[0] == "call" and x[2]:
        last = x[1].rsplit("::", 1)[-1].split("<")[0]
        if last in ("iter", "into_iter", "iter_mut", "copied", "cloned", "by_ref", "rev", "fuse", "peekable"):
            r = _iter_positions(x[2][0], depth + 1)
            return r
        if last == "skip" and len(x[2]) == 2:
            r, n = _iter_positions(x[2][0], depth + 1), const_val(x[2][1])
            return None if r is None or n is None else (r[0], r[1] + n, r[2])
        if last == "take" and len(x[2]) == 2:
            r, n = _iter_positions(x[2][0], depth + 1), const_val(x[2][1])
            return None if r is None or n is None else (r[0], r[1], r[1] + n - 1 if r[2] is None else min(r[2], r[1] + n - 1))
        if last == "chain" and len(x[2]) == 2:
            a_, b_ = _iter_positions(x[2][0], depth + 1), _iter_positions(x[2][1], depth + 1)
            if a_ is None or b_ is None:
                return None
            return ("multi", (a_[1] if a_[0] == "multi" else [a_]) + (b_[1] if b_[0] == "multi" else [b_]))
        if last not in ("index", "index_mut", "deref", "as_slice", "as_ref", "borrow", "split_at", "get", "to_vec"):
            return None                                   # an adapter this rule does not know: undecided
    bv = byteview(x)
    if bv is None:
        return None
    return (bv[0], bv[1], None if bv[2] is None else bv[2] - 1)


def reserved_bytes(ctx, prog, rule):
    """IndexPacketHeader::read may insist on zero only for the bytes the standard reserves (header byte 1 and bytes
    7..15, i.e. buffer[0] and buffer[7..15] behind the id byte): a zero test that also covers the length, entry count or
    index level rejects well-formed index packets"""
    f = prog.fn("packet::IndexPacketHeader::read")
    ctx.fn_seen(f)
    R = Resolver(f, max_depth=24)
    reserved = {0} | set(range(7, 15))
    n, bad, unknown = 0, [], []
    for bi in f.cfg():
        te = int_test_edges(f, R, bi)
        if te is None:
            continue
        val, cases, others = te
        if set(cases) != {0}:
            continue
        # "must be zero": the non-zero side cannot reach a successful return
        if not all(f.ok_reachable(start=[o]) is None for o in others):
            continue
        pos = _byte_positions(val)
        if pos is None:
            v = strip(val)
            while v[0] == "cast":
                v = strip(v[2])
            if v[0] == "phi" and len([a for a in v[1] if strip(a)[0] != "const"]) == 1:
                v = strip([a for a in v[1] if strip(a)[0] != "const"][0])
            if v[0] == "binop" or (v[0] == "call" and v[1].rsplit("::", 1)[-1] in ("any", "all")):
                continue                     # a test of a computed quantity (alignment of the length) / handled below
            unknown.append(tree_str(strip_deep(val))[:80])
            continue
        n += 1
        for root, lo, hi in (pos[1] if pos[0] == "multi" else [pos]):
            hi = 14 if hi is None else hi
            outside = sorted(p for p in range(lo, hi + 1) if p not in reserved)
            if outside:
                bad.append("bytes %d..%d are required to be zero, %s of them are not reserved" % (lo, hi, outside))
    # the same test as one `iter.any(|b| *b != 0)` / `!iter.all(|b| *b == 0)`
    for bi in f.cfg():
        t = f.blocks[bi]["term"]
        if t["k"] != "switch" or op_place(t["discr"]) is None:
            continue
        d = strip(R.place(op_place(t["discr"])))
        if d[0] == "phi":
            # `let used = a != 0 || rest.iter().any(..)`: the constant arm of the flag was threaded past this switch
            nonconst = [a for a in d[1] if strip(a)[0] != "const"]
            if len(nonconst) == 1:
                d = strip(nonconst[0])
        if not (d[0] == "call" and d[1].rsplit("::", 1)[-1] in ("any", "all") and len(d[2]) == 2):
            continue
        which = d[1].rsplit("::", 1)[-1]
        e = switch_edges(f, bi)
        tr, fa = e.get("1", e["otherwise"]), e.get("0")
        err_side = tr if which == "any" else fa
        if err_side is None or f.ok_reachable(start=[err_side]) is not None:
            continue
        cb = f.blocks[d[3]]["term"]
        import inline
        cd_ = inline._closure_def(f.blocks, cb["args"][1])
        cl = prog.fns.get(cd_[1]) if cd_ else None
        okcl = False
        if cl is not None:
            r_ = strip(Resolver(cl).local(0))
            if r_[0] == "binop" and r_[1] == ("Ne" if which == "any" else "Eq"):
                a_, b_ = strip(r_[2]), strip(r_[3])
                okcl = (const_val(b_) == 0 and a_ in (("param", 2),)) or (const_val(a_) == 0 and b_ in (("param", 2),))
        pos = _iter_positions(d[2][0]) if okcl else None
        if pos is None:
            unknown.append(tree_str(strip_deep(d))[:80])
            continue
        n += 1
        for root, lo, hi in (pos[1] if pos[0] == "multi" else [pos]):
            hi = 14 if hi is None else hi
            outside = sorted(p for p in range(lo, hi + 1) if p not in reserved)
            if outside:
                bad.append("bytes %d..%d are required to be zero, %s of them are not reserved" % (lo, hi, outside))
    verdict = False if bad else (None if unknown else True)
    ctx.ob(rule, "reserved-bytes/IndexPacketHeader::read", verdict, "zero tests on header bytes: %d, all within the reserved bytes {0, 7..14} of the 15-byte buffer%s%s" % (
        n, "; VIOLATED: " + "; ".join(bad) if bad else "", "; not recognised: %s" % unknown if unknown else ""), where=f.file_line(0))
