"""Panic-source inventory and discharge (C08 / C10 R1-R3), allocation-size and loop rules (C09)."""
import json
import os
import re

from mirlib import *
from intervals import Intervals, ty_range, INT_RANGES
from facts import VERIF
from simple_rules import leaf_name

TABLE = json.load(open(os.path.join(VERIF, "spec", "panic_callees.json")))
RESIDUE_FILE = os.path.join(VERIF, "spec", "reviewed_panic_sites.json")

READER_TYPES = ("e57_reader::E57Reader<", "pc_reader_raw::PointCloudReaderRaw<", "pc_reader_simple::PointCloudReaderSimple<", "blob::Blob",
                "pointcloud::PointCloud", "bounds::", "record::RecordValue", "record::RecordDataType", "header::Header", "images::", "limits::", "transform::", "date_time::", "point::")
WRITER_TYPES = ("e57_writer::E57Writer<", "pc_writer::PointCloudWriter<", "image_writer::ImageWriter<", "extension::Extension")


def roots(prog, kind):
    out = []
    for p, f in prog.fns.items():
        if not f.public:
            continue
        st = f.self_ty
        if kind == "reader":
            if any(st.startswith(t) for t in READER_TYPES) and not any(st.startswith(t) for t in WRITER_TYPES):
                # Header::write and friends are writer-side but harmless to include; exclude explicit writers
                if p.endswith("::write") or p.endswith("::xml_string"):
                    continue
                out.append(p)
        else:
            if any(st.startswith(t) for t in WRITER_TYPES):
                out.append(p)
    # trait impls are not "public" by effective visibility flags in the facts: add iterator impls explicitly
    for p, f in prog.fns.items():
        if kind == "reader" and f.trait and ("Iterator" in f.trait) and ("PointCloudReader" in f.self_ty):
            out.append(p)
        if kind == "reader" and f.trait and "std::io::Read" in f.trait and "PagedReader" in f.self_ty:
            out.append(p)
        if kind == "writer" and f.trait and ("std::io::Write" in f.trait or "Drop" in f.trait) and "PagedWriter" in f.self_ty:
            out.append(p)
    return sorted(set(out))


# receivers on which insert / remove / drain / retain / truncate / swap take no index and are total
_TOTAL_RECEIVERS = ("HashMap", "HashSet", "BTreeMap", "BTreeSet", "BinaryHeap", "LinkedList", "Option", "Cell", "OnceCell")
_INDEXED_ONLY = ("::drain", "::swap", "::remove", "::insert", "::swap_remove", "::split_off", "::truncate")


def _strip_trailing_generic(c):
    if c.endswith(">"):
        depth = 0
        for i in range(len(c) - 1, -1, -1):
            if c[i] == ">":
                depth += 1
            elif c[i] == "<":
                depth -= 1
                if depth == 0:
                    return c[:i].rstrip(":")
    return c


def receiver_head(c):
    """name of the type whose method the resolved callee path `c` is: `Vec` for std::vec::Vec::<Option<u8>>::insert,
    `HashMap` for <HashMap<K, V> as Index<&Q>>::index, `f64` for core::f64::<impl f64>::abs"""
    c = _strip_trailing_generic(c)
    if "::" not in c:
        return ""
    owner = c.rsplit("::", 1)[0] if not c.startswith("<") else c
    if owner.startswith("<"):
        depth = 0
        for i, ch in enumerate(owner):
            if ch == "<":
                depth += 1
            elif ch == ">":
                depth -= 1
                if depth == 0:
                    owner = owner[1:i]
                    break
        owner = owner.split(" as ")[0]
        owner = owner.lstrip("&").replace("mut ", "").replace("impl ", "").strip()
    m = re.search(r"(^|::)<impl (.*)>$", owner)
    if m:
        return _strip_trailing_generic(m.group(2)).rsplit("::", 1)[-1]
    owner = _strip_trailing_generic(owner)
    head = owner.split("<")[0] if not owner.startswith("<") else owner
    return head.rsplit("::", 1)[-1]


def _last_segment(c):
    """method name of a resolved callee path, ignoring a trailing turbofish"""
    return _strip_trailing_generic(c).rsplit("::", 1)[-1]


def callee_kind(c):
    for pat in TABLE["total_even_if_matching"]:
        if pat in c:
            return None
    last = "::" + _last_segment(c)
    recv = receiver_head(c)
    if last in _INDEXED_ONLY and recv in _TOTAL_RECEIVERS:
        return None
    if last in ("::abs", "::pow") and recv in ("f32", "f64"):
        return None
    if last == "::repeat" and ("iter::" in c or "iter::sources" in c):
        return None                     # std::iter::repeat(x) builds a lazy iterator, it does not allocate x items
    for suffix, kind in TABLE["patterns"]:
        if suffix.startswith("::"):
            if c.endswith(suffix) or (suffix + "::<") in c:
                return kind
        elif suffix in c:
            return kind
    return None


class Site:
    def __init__(self, fn, block, kind, what, operands, span_exp):
        self.fn, self.block, self.kind, self.what, self.operands, self.exp = fn, block, kind, what, operands, span_exp
        self.sig = None
        self.key = None
        self.reason = None


def inventory(prog, fns):
    sites = []
    for p in sorted(fns):
        f = prog.fns[p]
        for bi in f.cfg():
            t = f.blocks[bi]["term"]
            if t["k"] == "assert":
                sites.append(Site(f, bi, "assert", t["kind"], t["ops"], t["span"]["exp"]))
            elif t["k"] == "call":
                c = callee_of(t)
                if c in prog.fns:
                    continue
                k = callee_kind(c)
                if k and not (t["span"]["exp"] and ("fmt" in c or "panicking" not in c and k == "always")):
                    sites.append(Site(f, bi, "call:" + k, c, t["args"], t["span"]["exp"]))
    return sites


def signature(site):
    f = site.fn
    R = Resolver(f, max_depth=12)
    ops = []
    for o in site.operands[:3]:
        try:
            t = strip_deep(R.operand(o))
            s = _sig_str(t, f)
        except RecursionError:
            s = "?"
        ops.append(s)
    what = site.what if site.kind == "assert" else short(site.what)
    return "%s | %s | %s" % (short(f.path) if "closure" not in f.path else f.path.split("::", 1)[-1], what, " ; ".join(ops))


_CLASS = {"index": "bounds", "index_mut": "bounds", "split_at": "bounds", "split_at_mut": "bounds", "BoundsCheck": "bounds", "get_unchecked": "bounds",
          "DivisionByZero": "div-zero", "RemainderByZero": "div-zero"}


_CLOSURE_CTX = {}


def closure_context(prog):
    """closure def path -> (owner function, captured operand trees in the owner, receiver of the iterator adapter the
    closure is handed to or None).  The owner is the function whose body builds the closure (after inlining)."""
    k = id(prog)
    if k in _CLOSURE_CTX:
        return _CLOSURE_CTX[k]
    ctx = {}
    for p, f in prog.fns.items():
        R = None
        made = {}
        for bi in f.cfg():
            for st in f.blocks[bi]["stmts"]:
                rv = st["rv"]
                if rv["k"] == "aggregate" and rv["kind"].get("agg") == "closure" and not st["place"]["proj"]:
                    R = R or Resolver(f, max_depth=16)
                    made[st["place"]["local"]] = (rv["kind"]["def"], tuple(R.operand(o) for o in rv["ops"]))
        if not made:
            continue
        for n, (d, ops) in made.items():
            recv = None
            locs, sinks = flows(f, n)
            for sb, what, t in sinks:
                if what == "call" and len(t["args"]) >= 2:
                    a1 = op_place(t["args"][1])
                    if a1 is not None and a1["local"] in locs:
                        recv = R.operand(t["args"][0])
                        break
            ctx[d] = (f, ops, recv)
    _CLOSURE_CTX[k] = ctx
    return ctx


def translate_closure_tree(prog, g, t, depth=0):
    """express a value tree of a closure body in terms of the function that owns the closure: captured variables
    become the owner's trees, the closure's item parameter becomes `next(<adapter receiver>)`"""
    import names as nm
    ctx = closure_context(prog)
    if g.kind != "Closure" or g.path not in ctx or depth > 3:
        return g, t
    owner, ops, recv = ctx[g.path]
    cap = nm._capture_index(g)

    def sub(x):
        if not isinstance(x, tuple) or not x:
            return x
        if x[0] == "field" and isinstance(x[1], tuple) and strip(x[1]) == ("param", 1) and x[2] in cap and cap[x[2]] < len(ops):
            return ops[cap[x[2]]]
        if x[0] == "param" and x[1] >= 2 and recv is not None:
            return ("ok", ("call", "<I as std::iter::Iterator>::next", (recv,), -1))
        return tuple(sub(a) if isinstance(a, tuple) else a for a in x)
    return translate_closure_tree(prog, owner, sub(t), depth + 1)


def coarse_key(site):
    """function | class of the panic condition | set of value sources of the operands.  Robust against re-spelling the
    same computation (x[n..] vs x.split_at(n).1, temporaries, statement order) but changes when the condition involves
    another field, parameter, constant or callee result than the one that was reviewed."""
    f = site.fn
    R = Resolver(f, max_depth=24)
    leaves = set()

    def walk(t, depth=0):
        if depth > 40:
            leaves.add("...")
            return
        k = t[0]
        if k == "const":
            v = t[2]
            leaves.add("c:%s" % (v if not isinstance(v, tuple) else (v[1] if len(v) > 1 else v)) if not isinstance(v, (bytes, list)) else "c:bytes")
        elif k == "param":
            leaves.add("arg%d" % t[1])
        elif k == "local":
            n = t[1]
            l = f.locals[n] if n < len(f.locals) else {}
            if l.get("name") and l.get("name") != "self":
                leaves.add("<%s>" % l["name"])      # loop-carried variable (unnamed temporaries carry no information)
        elif k == "field":
            # pure field chain over a parameter / local: one leaf
            chain, b = [t[2]], t[1]
            while b[0] == "field":
                chain.append(b[2])
                b = b[1]
            b2 = strip(b)
            if b2[0] == "param":
                leaves.add("arg%d.%s" % (b2[1], ".".join(reversed(chain))))
            else:
                leaves.add("." + ".".join(reversed(chain)))
                walk(b2, depth + 1)
        elif k == "call":
            name = short(t[1])
            if not any(t[1].endswith(x) for x in TRANSPARENT_SUFFIX) and name.rsplit("::", 1)[-1] not in ("index", "index_mut", "branch", "from", "into", "min", "max"):
                leaves.add("call:" + name)
            for a in t[2]:
                walk(a, depth + 1)
        elif k in ("phi",):
            for a in t[1]:
                walk(a, depth + 1)
        elif k == "agg":
            for a in t[2]:
                walk(a, depth + 1)
        elif k == "repeat":
            walk(t[1], depth + 1)
            leaves.add("n:%s" % str(t[2]).strip())
        else:
            for a in t[1:]:
                if isinstance(a, tuple) and a and isinstance(a[0], str):
                    walk(a, depth + 1)
    owner = f
    for o in site.operands[:3]:
        try:
            t0 = R.operand(o)
            if f.kind == "Closure" and getattr(f, "program", None) is not None:
                owner, t0 = translate_closure_tree(f.program, f, t0)
                f_walk = owner
            walk(strip_deep(t0))
        except RecursionError:
            leaves.add("?")
    what = site.what if site.kind == "assert" else _last_segment(site.what)
    cls = _CLASS.get(what, what)
    f = owner
    fn = short(f.path) if "closure" not in f.path else f.path.split("::", 1)[-1]
    return "%s | %s | {%s}" % (fn, cls, ", ".join(sorted(leaves)))


def _sig_str(t, f=None):
    s = tree_str(t)
    s = re.sub(r"\s+", " ", s)
    if f is not None:
        # unresolved MIR locals (_27) are renumbered by unrelated edits: name them by debug name or type instead
        def canon(m):
            n = int(m.group(1))
            if n < len(f.locals):
                l = f.locals[n]
                return "<%s>" % (l.get("name") or l.get("ty") or "tmp")
            return "<tmp>"
        s = re.sub(r"(?<![A-Za-z0-9_])_(\d+)(?![A-Za-z0-9_])", canon, s)
    # truncate long trees deterministically
    return s if len(s) <= 140 else s[:137] + "..."


# ----------------------------------------------------------------------------------------
# discharge tactics

_MAG = {}


def _magnitude(prog, iv):
    import magnitude
    k = id(prog)
    if k not in _MAG:
        _MAG[k] = magnitude.Magnitude(prog, iv)
    return _MAG[k]


def discharge(prog, iv, site):
    """returns a reason string when the site provably cannot panic, else None."""
    f, b = site.fn, site.block
    t = f.blocks[b]["term"]
    if site.kind == "assert":
        kind = site.what
        if kind.startswith("Overflow("):
            op = kind[len("Overflow("):-1]
            a, c = t["ops"][0], t["ops"][1]
            if op in ("Shl", "Shr"):
                sh = iv.operand(f, c, b)
                bits = _bits_of(f, a)
                if sh is not None and bits and 0 <= sh[0] and sh[1] < bits:
                    return "shift amount %s < %d bits" % (sh, bits)
                return None
            ty = _ty_of(f, a) or _ty_of(f, c)
            r = ty_range(ty) if ty else None
            va, vc = iv.operand(f, a, b), iv.operand(f, c, b)
            if r and va is not None and vc is not None:
                if op == "Add" and va[1] + vc[1] <= r[1] and va[0] + vc[0] >= r[0]:
                    return "%s + %s within %s" % (va, vc, ty)
                if op == "Sub" and va[0] - vc[1] >= r[0] and va[1] - vc[0] <= r[1]:
                    return "%s - %s within %s" % (va, vc, ty)
                if op == "Mul":
                    cs = [va[0] * vc[0], va[0] * vc[1], va[1] * vc[0], va[1] * vc[1]]
                    if min(cs) >= r[0] and max(cs) <= r[1]:
                        return "%s * %s within %s" % (va, vc, ty)
            if op == "Sub" and r and r[0] == 0:
                # relational: a >= b established by a dominating guard on the same places
                if iv.holds(f, b, "Ge", a, c):
                    return "dominating guard establishes minuend >= subtrahend"
                pat = _sub_pattern(f, a, c)
                if isinstance(pat, tuple):
                    # needs an interval fact about the divisor field
                    msg, mtree, kq = pat
                    fld = mtree[2]
                    adt = f.self_ty.split("<")[0]
                    a_ = prog.adts.get(adt)
                    fty = next((x["ty"] for v in (a_["variants"] if a_ else []) for x in v["fields"] if x["name"] == fld), None)
                    inv = iv.field_invariant(adt, fld, fty) if fty else None
                    if inv and inv[0] >= kq:
                        return "%s: field %s in %s" % (msg, fld, inv)
                elif pat:
                    return pat
            if op == "Add" and r:
                # x + 1 under a dominating x < y
                if vc == (1, 1) and _has_upper_guard(iv, f, b, a):
                    return "x + 1 under a dominating x < y (y fits the type)"
            if op in ("Add", "Mul") and r and r[0] == 0 and r[1] >= (1 << 63):
                mg = _magnitude(prog, iv)
                R2 = Resolver(f, max_depth=24)
                ca = "small" if (va is not None and 0 <= va[0] and va[1] < (1 << 40)) else mg.tree(f, strip_deep(R2.operand(a)))
                cc = "small" if (vc is not None and 0 <= vc[0] and vc[1] < (1 << 40)) else mg.tree(f, strip_deep(R2.operand(c)))
                if ca is not None and cc is not None and (op == "Add" or "small" in (ca, cc)):
                    return "operands are physically bounded quantities (%s %s %s): in-memory lengths, transferred byte counts, event counters and small constants stay far below 2^63 in any feasible run" % (ca, "+" if op == "Add" else "*", cc)
            return None
        if kind in ("DivisionByZero", "RemainderByZero"):
            cond = op_place(t["cond"])
            ds = f.whole_defs(cond["local"]) if cond and not cond["proj"] else []
            if len(ds) == 1 and ds[0][0] == "stmt" and ds[0][1]["k"] == "binop" and ds[0][1]["op"] == "Eq":
                div = ds[0][1]["a"]
                v = iv.operand(f, div, b)
                if v is not None and (v[0] > 0 or v[1] < 0):
                    return "divisor in %s, never 0" % (v,)
            return None
        if kind == "BoundsCheck":
            ln, idx = t["ops"][0], t["ops"][1]
            vl, vi = iv.operand(f, ln, b), iv.operand(f, idx, b)
            if vl is not None and vi is not None and vi[0] >= 0 and vi[1] < vl[0]:
                return "index %s < length %s" % (vi, vl)
            # the length of a piece of a fixed-size array
            lt = strip(Resolver(f, max_depth=16).operand(ln))
            if lt[0] == "unop" and lt[1] == "PtrMetadata":
                sl = _static_len(lt[2], 0, f)
                if sl is not None and vi is not None and 0 <= vi[0] and vi[1] < sl:
                    return "index %s < static length %d" % (vi, sl)
            return None
        if kind == "OverflowNeg":
            v = iv.operand(f, t["ops"][0], b)
            ty = _ty_of(f, t["ops"][0])
            r = ty_range(ty) if ty else None
            if v and r and v[0] > r[0]:
                return "operand %s never %s::MIN" % (v, ty)
            return None
        return None
    # calls
    kind = site.kind.split(":", 1)[1]
    c = site.what
    R = Resolver(f)
    if kind == "bounds" and c.endswith("::drain"):
        a = strip(R.operand(t["args"][1]))
        if a[0] == "agg" and a[1][0] == "adt" and a[1][2] == "RangeFull":
            return "drain(..) of the full range"
        if a[0] == "agg" and a[1][0] == "adt" and a[1][2] == "RangeTo":
            hi = strip(a[2][0])
            base_s = tree_str(strip_deep(R.operand(t["args"][0])))
            hs = tree_str(strip_deep(hi))
            # ..x.len() / ..x.len()-1 of the same x (full_bytes)
            if hi[0] == "call" and hi[1] in prog.fns:
                g = prog.fns[hi[1]]
                rt = Resolver(g).local(0)
                alts = rt[1] if rt[0] == "phi" else (rt,)
                def _at_most_len(x):
                    x = strip_deep(x)
                    if tree_str(x) == "Vec::len(arg1.buffer)":
                        return True
                    return x[0] == "binop" and x[1] == "Sub" and tree_str(x[2]) == "Vec::len(arg1.buffer)"
                if all(_at_most_len(x) for x in alts) and base_s.endswith(".buffer"):
                    return "drain(..n) with n = len - k of the same buffer (a checked subtraction never exceeds len)"
        return None
    if kind == "bounds" and (c.endswith("::split_at") or c.endswith("::split_at_mut")) and len(t["args"]) == 2:
        sl = _static_len(R.operand(t["args"][0]), 0, f)
        if sl is None:
            # the receiver is (a borrow of) a local array
            rl = _root_local(f, t["args"][0])
            m = re.match(r"\[[^;\]]+; (\d+)\]$", f.local_ty(rl)) if rl is not None else None
            sl = int(m.group(1)) if m else None
        vm = iv.operand(f, t["args"][1], b)
        if sl is not None and vm is not None and 0 <= vm[0] and vm[1] <= sl:
            return "split point %s <= static length %d" % (vm, sl)
    if kind == "bounds" and len(t["args"]) == 2:
        # buf[n..] / buf[..n] / buf.split_at(n) with n = the count returned by Read::read / Write::write on that same buf
        why = _transfer_contract(f, R, t, b)
        if why:
            return why
    if kind == "bounds" and (c.endswith("::index") or c.endswith("::index_mut")):
        base_t = strip(R.operand(t["args"][0]))
        arg_t = strip(R.operand(t["args"][1]))
        gen = t["callee"].get("args", [])
        arr_len = _array_len(f, t["args"][0], gen)
        if arr_len is None:
            arr_len = _static_len(R.operand(t["args"][0]), 0, f)       # a piece of a fixed-size array: buf[8..][..4]
        if arg_t[0] == "agg" and arg_t[1][0] == "adt" and arg_t[1][2] in ("Range", "RangeTo", "RangeFrom", "RangeFull", "RangeInclusive", "RangeToInclusive"):
            name = arg_t[1][2]
            if name == "RangeFull":
                return "full range"
            # evaluate the bounds from the MIR aggregate operands
            # x[..min(x.len(), _)]
            if name == "RangeTo":
                hi = strip(arg_t[2][0])
                if hi[0] == "call" and hi[1].endswith("::min"):
                    for m in hi[2]:
                        m = strip(m)
                        if m[0] == "call" and m[1].endswith("::len") and strip(m[2][0]) == base_t:
                            return "range ..min(x.len(), _) of the same x"
                if hi[0] == "call" and hi[1].endswith("::len") and strip(hi[2][0]) == base_t:
                    return "range ..x.len() of the same x"
            if name in ("RangeTo", "RangeFrom"):
                # x[..n] / x[n..] with n = Ok payload of Read::read(_, &mut x): n <= x.len() by the contract of Read
                bnd = strip(arg_t[2][0])
                if bnd[0] == "call" and bnd[1].endswith("Read::read") and len(bnd[2]) == 2:
                    dst = strip(bnd[2][1])
                    while dst[0] == "cast":
                        dst = strip(dst[2])
                    if tree_str(strip_deep(dst)) == tree_str(strip_deep(base_t)):
                        return "range bound is the byte count returned by Read::read into the same buffer (n <= len by the contract of Read)"
            agg = _agg_stmt(f, t["args"][1])
            if agg is not None and arr_len is not None:
                ops = agg["ops"]
                vals = [iv.operand(f, o, b) for o in ops]
                ordered = name == "Range" and len(vals) == 2 and all(vals) and vals[0][1] <= vals[1][0]
                if name == "Range" and len(vals) == 2 and all(vals) and not ordered:
                    # hi = lo + n
                    lo_t, hi_t = strip_deep(arg_t[2][0]), strip_deep(arg_t[2][1])
                    ordered = hi_t[0] == "binop" and hi_t[1] == "Add" and hi_t[2] == lo_t
                if name == "Range" and all(vals) and ordered and vals[1][1] <= arr_len:
                    return "range %s..%s inside array of %d" % (vals[0], vals[1], arr_len)
                if name == "RangeTo" and vals[0] and vals[0][1] <= arr_len:
                    return "range ..%s inside array of %d" % (vals[0], arr_len)
                if name == "RangeFrom" and vals[0] and vals[0][1] <= arr_len:
                    return "range %s.. inside array of %d" % (vals[0], arr_len)
            return None
        # scalar index
        vi = iv.operand(f, t["args"][1], b)
        if arr_len is not None and vi is not None and 0 <= vi[0] and vi[1] < arr_len:
            return "index %s < array length %d" % (vi, arr_len)
        pat = _index_pattern(f, R, base_t, arg_t)
        if pat:
            return pat
        return None
    if kind == "non-zero":
        v = iv.operand(f, t["args"][-1], b)
        if v is not None and (v[0] > 0 or v[1] < 0):
            return "argument in %s, never 0" % (v,)
        return None
    if kind == "positive":
        v = iv.operand(f, t["args"][0], b)
        if v is not None and v[0] > 0:
            return "argument in %s, positive" % (v,)
        return None
    if kind == "equal-length":
        # dst[..n].copy_from_slice(&src[a..a+n]) : both lengths are the same expression
        d0, s0 = R.operand(t["args"][0]), R.operand(t["args"][1])
        d, s = strip(d0), strip(s0)
        ld = str(_static_len(d0, 0, f)) if _static_len(d0, 0, f) is not None else _slice_len_expr(d)
        ls = str(_static_len(s0, 0, f)) if _static_len(s0, 0, f) is not None else _slice_len_expr(s)
        if ld is not None and ld == ls:
            return "both slices have length %s" % ld
        # dst = buf.split_at_mut(src.len()).0 (or buf[..src.len()]): as long as the source
        for x_, y_ in ((d, s), (s, d)):
            n_ = None
            if x_[0] == "field" and x_[2] == "0":
                c_ = strip(x_[1])
                if c_[0] == "call" and (c_[1].endswith("::split_at") or c_[1].endswith("::split_at_mut")) and len(c_[2]) == 2:
                    n_ = strip(c_[2][1])
            else:
                from cache_rules import slice_of
                so_ = slice_of(x_)
                if so_ is not None and so_[1] == "to":
                    n_ = strip(so_[3])
            if n_ is not None and n_[0] == "call" and n_[1].endswith("::len") and tree_str(strip_deep(n_[2][0])) == tree_str(strip_deep(y_)):
                return "one slice is cut to the length of the other"
        return None
    if kind == "clamp-order":
        return None
    if kind == "none":
        return "cannot panic"
    return None


def _ty_of(f, op):
    if op["k"] == "const":
        return op.get("ty")
    p = op_place(op)
    if p is None:
        return None
    if not p["proj"]:
        return f.local_ty(p["local"])
    last = p["proj"][-1]
    if last["k"] == "field":
        return last["ty"]
    return None


def _bits_of(f, op):
    ty = _ty_of(f, op)
    r = {"u8": 8, "i8": 8, "u16": 16, "i16": 16, "u32": 32, "i32": 32, "u64": 64, "i64": 64, "usize": 64, "isize": 64, "u128": 128, "i128": 128}
    return r.get(ty)


def _chunk_len(t):
    """t is an item of slice.chunks_exact(k) / chunks_exact_mut(k) (however the iteration is spelled): k"""
    import elems
    e = elems.elem_of(t)
    if e is None or e[1]:
        return None
    c = e[0]
    while c[0] in ("ref", "cast"):
        c = c[1] if c[0] == "ref" else c[2]
    if c[0] == "call" and c[1].rsplit("::", 1)[-1] in ("chunks_exact", "chunks_exact_mut", "rchunks_exact", "rchunks_exact_mut") and len(c[2]) == 2:
        k = strip_deep(c[2][1])
        if k[0] == "const" and isinstance(k[2], int):
            return k[2]
    return None


def _static_len(t, depth=0, f=None):
    """constant element count of an array-derived slice expression: [x; N], [a, b, c], arr.split_at(k).0 / .1,
    arr[a..b] with constant bounds, a chunk of chunks_exact(k), the [T; N] produced by a successful try_into"""
    if depth > 6:
        return None
    for _ in range(10):
        if t[0] == "cast":
            t = t[2]
        elif t[0] in ("ref", "partial"):
            t = t[1]
        elif t[0] == "ok" and t[1][0] == "call" and t[1][1].rsplit("::", 1)[-1] == "next":
            return _chunk_len(t)
        elif t[0] == "ok" and t[1][0] == "call" and t[1][1].rsplit("::", 1)[-1] in CONVERTERS and t[1][2]:
            t = ("ok", t[1][2][0])                      # ok(x.internal_err(..)) == ok(x)
        elif t[0] == "ok":
            t = t[1]
        elif t[0] == "call" and t[1].endswith("::try_into") and len(t) > 4 and len(t[4]) == 2:
            m = re.match(r"\[[^;\]]+; (\d+)\]$", t[4][1])
            if m:
                return int(m.group(1))                  # only read after the conversion succeeded
            t = t[2][0]
        elif t[0] == "call" and t[2] and any(t[1].endswith(sfx) for sfx in TRANSPARENT_SUFFIX) and t[1].rsplit("::", 1)[-1] not in ("iter", "into_iter", "iter_mut"):
            t = t[2][0]
        else:
            break
    if t[0] == "repeat":
        m = re.match(r"\s*(\d+)", str(t[2]))
        return int(m.group(1)) if m else None
    if t[0] == "agg" and t[1][0] == "array":
        return len(t[2])
    if t[0] == "param" and f is not None:
        m = re.match(r"&(?:mut )?\[[^;\]]+; (\d+)\]$", f.local_ty(t[1]))
        return int(m.group(1)) if m else None
    if t[0] == "field" and f is not None and strip(t[1]) == ("param", 1) and getattr(f, "program", None) is not None:
        # a fixed-size array field of self
        a = f.program.adts.get(f.self_ty.split("<")[0])
        for v in (a["variants"] if a else []):
            for fld in v["fields"]:
                if fld["name"] == t[2]:
                    if fld.get("array_len", -1) >= 0:
                        return fld["array_len"]
                    m = re.match(r"\[[^;\]]+; (\d+)\]$", fld["ty"])
                    if m:
                        return int(m.group(1))
    if t[0] == "field" and t[2] in ("0", "1"):
        k = _chunk_len(t)
        if k is not None:
            return k
        c = strip(t[1])
        if c[0] == "call" and (c[1].endswith("::split_at") or c[1].endswith("::split_at_mut")) and len(c[2]) == 2:
            n = _static_len(c[2][0], depth + 1, f)
            k = strip_deep(c[2][1])
            if n is not None and k[0] == "const" and isinstance(k[2], int) and k[2] <= n:
                return k[2] if t[2] == "0" else n - k[2]
        return None
    if t[0] == "call" and (t[1].endswith("::index") or t[1].endswith("::index_mut")) and len(t[2]) == 2:
        n = _static_len(t[2][0], depth + 1, f)
        r = strip(t[2][1])
        if n is not None and r[0] == "agg" and r[1][0] == "adt":
            cs = [strip_deep(x) for x in r[2]]
            if all(x[0] == "const" and isinstance(x[2], int) for x in cs):
                if r[1][2] == "Range" and cs[0][2] <= cs[1][2] <= n:
                    return cs[1][2] - cs[0][2]
                if r[1][2] == "RangeTo" and cs[0][2] <= n:
                    return cs[0][2]
                if r[1][2] == "RangeFrom" and cs[0][2] <= n:
                    return n - cs[0][2]
    if t[0] == "call" and (t[1].endswith("to_le_bytes") or t[1].endswith("to_be_bytes")):
        m = re.search(r"<impl (u|i)(\d+)>", t[1])
        if m:
            return int(m.group(2)) // 8
    return None


def _agg_stmt(f, op):
    p = op_place(op)
    if p is None or p["proj"]:
        return None
    ds = f.whole_defs(p["local"])
    if len(ds) == 1 and ds[0][0] == "stmt" and ds[0][1]["k"] == "aggregate":
        return ds[0][1]
    return None


def _array_len(f, op, gen):
    """length of a fixed-size array receiver: from the generic args of Index, the operand type, or the array the slice
    was made from (`&buf` of `let buf = [0u8; 32]` passed to an inlined helper as &[u8])"""
    try:
        x = strip(Resolver(f, max_depth=16).operand(op))
        while x[0] == "cast":
            x = strip(x[2])
        if x[0] == "repeat":
            m = re.match(r"\s*(\d+)", str(x[2]))
            if m:
                return int(m.group(1))
        if x[0] == "agg" and x[1][0] == "array":
            return len(x[2])
    except RecursionError:
        pass
    for g in gen:
        m = re.search(r"\[[^;\]]+; (\d+)\]", g)
        if m:
            return int(m.group(1))
    p = op_place(op)
    if p is not None and not p["proj"]:
        ty = f.local_ty(p["local"])
        m = re.search(r"\[[^;\]]+; (\d+)\]", ty)
        if m:
            return int(m.group(1))
    return None


def _root_local(f, op):
    """the variable an operand is a (re)borrow / copy of: follows single-definition temporaries through &, &mut, *, casts"""
    pl = op_place(op)
    for _ in range(12):
        if pl is None or any(e["k"] not in ("deref",) for e in pl["proj"]):
            return None
        n = pl["local"]
        ds = f.defs().get(n, [])
        if len(ds) == 1 and ds[0][0] == "call" and not ds[0][4]["proj"] and ds[0][1]["args"] and (
                callee_of(ds[0][1]).endswith("mem::take") or callee_of(ds[0][1]).endswith("mem::replace")):
            pl = op_place(ds[0][1]["args"][0])          # mem::take(&mut x) hands out the value x held
            continue
        if len(ds) != 1 or ds[0][0] != "stmt" or ds[0][4]["proj"]:
            return n
        rv = ds[0][1]
        if rv["k"] == "ref":
            pl = rv["place"]
        elif rv["k"] == "use":
            pl = op_place(rv["op"])
        elif rv["k"] == "cast":
            pl = op_place(rv["a"])
        else:
            return n
    return None


def _transfer_contract(f, R, t, b):
    c = callee_of(t)
    cnt = None
    if c.endswith("::split_at") or c.endswith("::split_at_mut"):
        cnt = R.operand(t["args"][1])
    elif c.endswith("::index") or c.endswith("::index_mut"):
        a = strip(R.operand(t["args"][1]))
        if a[0] == "agg" and a[1][0] == "adt" and a[1][2] in ("RangeFrom", "RangeTo") and a[2]:
            cnt = a[2][0]
    if cnt is None:
        return None
    cnt = strip(cnt)
    while cnt[0] == "cast":
        cnt = strip(cnt[2])
    if not (cnt[0] == "call" and (cnt[1].endswith("Read::read") or cnt[1].endswith("Write::write")) and len(cnt) > 3):
        return None
    rb = cnt[3]
    rt = f.blocks[rb]["term"]
    if rt["k"] != "call" or len(rt["args"]) != 2:
        return None
    r1, r2 = _root_local(f, rt["args"][1]), _root_local(f, t["args"][0])
    if r1 is None or r1 != r2 or not f.dominates(rb, b):
        return None
    g = f.cfg()
    for d in f.defs().get(r1, []):
        db = d[2]
        if db == b and d[0] == "call":
            continue
        if db in g and find_path(g, g.get(rb, []), {db}, {rb, b}) is not None and find_path(g, [db], {b}, {rb}) is not None:
            return None
    return "the bound is the byte count returned by %s for this very buffer (count <= len by the contract of Read / Write)" % short(cnt[1])


def _sub_pattern(f, a, c):
    R = Resolver(f)
    ta, tc = strip_deep(R.operand(a)), strip_deep(R.operand(c))
    # m - (x % m)
    x = tc
    while x[0] == "cast":
        x = x[2]
    if x[0] == "binop" and x[1] == "Rem":
        m = x[3]
        while m[0] == "cast":
            m = m[2]
        y = ta
        while y[0] == "cast":
            y = y[2]
        if m == y:
            return "m - (x % m) with the same m"
        # x - (x % m): the remainder of an unsigned value never exceeds it
        xv = x[2]
        while xv[0] == "cast":
            xv = xv[2]
        if xv == y:
            return "x - (x % m) with the same x"
        # (m - k) - (x % (m - k))
        if y[0] == "binop" and m == y:
            return "m - (x % m)"
    # x - (x / m) * m for any m: the remainder
    if as_remainder(("binop", "Sub", ta, tc)) is not None:
        return "x - (x / m) * m is x mod m"
    # x - (x / m) * k with k <= m   (and x - (x / k) * k)
    xx = tc
    while xx[0] == "cast":
        xx = xx[2]
    if xx[0] == "binop" and xx[1] == "Mul":
        for p_, q_ in ((xx[2], xx[3]), (xx[3], xx[2])):
            pp = p_
            while pp[0] == "cast":
                pp = pp[2]
            if pp[0] == "binop" and pp[1] == "Div" and pp[2] == ta:
                kq = q_[2] if q_[0] == "const" and isinstance(q_[2], int) else None
                m = pp[3]
                if kq is not None and m[0] == "const" and isinstance(m[2], int) and kq <= m[2]:
                    return "x - (x / %d) * %d" % (m[2], kq)
                if kq is not None and m[0] == "field":
                    return ("x - (x / m) * %d needs m >= %d" % (kq, kq), m, kq)
    # len - len/..: x - (x / k) * j with j <= k
    if tc[0] == "binop" and tc[1] == "Mul":
        for p, q in ((tc[2], tc[3]), (tc[3], tc[2])):
            if p[0] == "binop" and p[1] == "Div" and p[2] == ta and q[0] == "const" and p[3][0] in ("const", "field"):
                return None
    return None


def _has_upper_guard(iv, f, b, a):
    pl = op_place(a)
    if pl is None or not iv.stable(f, pl):
        return False
    key = iv.place_key(f, pl)
    for op, ga, gb, truth, gblk in iv.guards(f, b):
        if op == "is_empty":
            continue
        if not truth:
            op = {"Lt": "Ge", "Le": "Gt", "Gt": "Le", "Ge": "Lt", "Eq": "Ne", "Ne": "Eq"}[op]
        ka = iv.place_key(f, op_place(ga)) if ga["k"] != "const" else None
        kb = iv.place_key(f, op_place(gb)) if gb["k"] != "const" else None
        if ka == key and op == "Lt":
            return True
        if kb == key and op == "Gt":
            return True
    return False


def _index_pattern(f, R, base_t, idx_t):
    """relational idioms: i from 0..v.len(), enumerate()/position() index over the same container"""
    bs, is_ = tree_str(strip_deep(base_t)), tree_str(strip_deep(idx_t))
    # for i in 0..x.len() { x[i] }   => idx = ok(next(Range{0, len(x)}))
    m = re.search(r"Range::Range\{0_usize, (?:Vec|slice|VecDeque)::len\((.+?)\)\}", is_)
    if m and "next(" in is_:
        cont = m.group(1)
        if cont == bs or cont.replace("deref(", "").rstrip(")") == bs:
            return "index is the induction variable of 0..%s.len()" % bs
    # for (i, x) in v.iter().enumerate() { w[i] } with the same v
    if "enumerate(" in is_ and is_.endswith(".0"):
        m = re.search(r"enumerate\((?:slice::iter|into_iter|iter)\((?:deref\()?(.+?)\)?\)\)", is_)
        if m and m.group(1).rstrip(")") == bs.rstrip(")"):
            return "index comes from enumerate() over the same container"
    return None


def _slice_len_expr(t):
    """symbolic length of a slice expression: x[..n] -> n ; x[a..b] -> b - a (as string) ; to_le_bytes -> const"""
    sl = _static_len(t)
    if sl is not None:
        return str(sl)
    if t[0] == "call" and (t[1].endswith("::index") or t[1].endswith("::index_mut")) and len(t[2]) == 2:
        r = strip(t[2][1])
        if r[0] == "agg" and r[1][0] == "adt":
            if r[1][2] == "RangeTo":
                return tree_str(strip_deep(r[2][0]))
            if r[1][2] == "Range":
                lo, hi = strip_deep(r[2][0]), strip_deep(r[2][1])
                if lo[0] == "const" and hi[0] == "const" and isinstance(lo[2], int) and isinstance(hi[2], int):
                    return str(hi[2] - lo[2])
                # a .. a + n
                h = hi
                if h[0] == "binop" and h[1] == "Add" and h[2] == lo:
                    return str(h[3][2]) if h[3][0] == "const" and isinstance(h[3][2], int) else tree_str(h[3])
                return tree_str(("binop", "Sub", hi, lo))
            if r[1][2] == "RangeFrom":
                lo = strip_deep(r[2][0])
                gen = " ".join(t[4]) if len(t) > 4 else ""
                m = re.search(r"\[[^;\]]+; (\d+)\]", gen)
                if m and lo[0] == "const" and isinstance(lo[2], int):
                    return str(int(m.group(1)) - lo[2])
                return None
    if t[0] == "call" and t[1].endswith("to_le_bytes") or (t[0] == "call" and t[1].endswith("to_be_bytes")):
        m = re.search(r"<impl (u|i)(\d+)>", t[1])
        if m:
            return str(int(m.group(2)) // 8)
    if t[0] == "cast":
        return _slice_len_expr(strip(t[2]))
    return None


# ----------------------------------------------------------------------------------------

def load_residue():
    if not os.path.exists(RESIDUE_FILE):
        return {}
    with open(RESIDUE_FILE) as fh:
        d = json.load(fh)
    out = {e["signature"]: e for e in d.get("sites", [])}
    for e in d.get("sites", []):
        if e.get("key"):
            out.setdefault("key:" + e["key"], e)
            # provenance envelope: per (function, class group) the union of the value sources that were reviewed
            fn, cls, leaves = _split_key(e["key"])
            env = out.setdefault("env:%s" % fn, {"leaves": set(), "roots": set(), "entry": e, "classes": set()})
            env["classes"].add(_class_group(cls))
            env["leaves"] |= leaves
            env["roots"] |= set(e.get("roots", ["reader", "writer"]))
    for fn, flds in d.get("function_fields", {}).items():
        if "env:%s" % fn in out:
            out["env:%s" % fn]["leaves"] |= set(flds)
    return out


def _split_key(key):
    parts = key.split(" | ", 2)
    fn, cls = parts[0], parts[1]
    body = parts[2].strip()
    body = body[1:-1] if body.startswith("{") and body.endswith("}") else body
    return fn, cls, {x.strip() for x in body.split(", ") if x.strip()}


def _class_group(cls):
    return "overflow" if cls.startswith("Overflow(") else cls


def _small_const(leaf):
    if not leaf.startswith("c:"):
        return False
    try:
        return abs(int(leaf[2:])) < (1 << 16)
    except ValueError:
        return False


def envelope_match(residue, key, kind):
    """the site only combines value sources that were reviewed for the same function and class of condition (plus
    small constants and positions of the function's own iterations)"""
    fn, cls, leaves = _split_key(key)
    env = residue.get("env:%s" % fn)
    if env is None or kind not in env["roots"] or _class_group(cls) not in env["classes"]:
        return None
    extra = {l for l in leaves - env["leaves"] if not _small_const(l) and l not in (".0", ".1", "call:next", "call:Iterator::enumerate", "call:Iterator::zip", "call:slice::len", "call:Vec::len", "call:Ord::min", "call:range::next")}
    return env["entry"] if not extra else None


def panic_freedom(ctx, prog, rule_inv, rule_dis, kind, cfg_label=""):
    """kind: 'reader' | 'writer'.  returns undischarged sites (for table maintenance)."""
    rs = roots(prog, kind)
    reach_set = prog.reachable_from(rs)
    iv = Intervals(prog)
    residue = load_residue()
    sites = inventory(prog, reach_set)
    for p in reach_set:
        ctx.fn_seen(prog.fns[p])
    stats = collections.Counter()
    undischarged = []
    used_residue = set()
    for s in sites:
        if s.kind == "call:alloc-size":
            continue        # decided by the allocation rule (C09)
        if s.kind == "call:clamp-order" and kind == "reader":
            stats["clamp (decided by C13-R1)"] += 1
            continue
        stats["sources"] += 1
        why = discharge(prog, iv, s)
        s.sig = signature(s)
        if why:
            stats["discharged"] += 1
            ctx.ob(rule_dis, "discharged/%s" % _key(s.sig), True, "%s cannot panic: %s" % (s.sig, why), where=s.fn.file_line(s.block), nontrivial=True)
            continue
        s.key = coarse_key(s)
        ent = residue.get(s.sig) or residue.get("key:" + s.key) or envelope_match(residue, s.key, kind)
        if ent and kind in ent.get("roots", ["reader", "writer"]):
            stats["reviewed"] += 1
            used_residue.add(s.sig)
            ctx.ob(rule_dis, "reviewed/%s" % _key(s.sig), True, "%s — reviewed: %s" % (s.sig, ent["reason"]), where=s.fn.file_line(s.block), nontrivial=False)
            continue
        stats["open"] += 1
        undischarged.append(s)
        ctx.ob(rule_dis, "panic-site/%s" % _key(s.sig), False,
               "possible panic reachable from the %s API: %s at %s — not discharged by constants, intervals, field invariants or dominating guards, and its provenance signature is not in the reviewed table" % (kind, s.sig, s.fn.file_line(s.block)),
               where=s.fn.file_line(s.block))
    ctx.ob(rule_inv, "inventory/%s" % kind, True, "%d %s entry points reach %d functions; panic sources %s" % (len(rs), kind, len(reach_set), dict(stats)), nontrivial=True)
    ctx.extra.setdefault("panic_inventory", {})[(cfg_label or "lib") + ":" + kind] = dict(stats, roots=len(rs), functions=len(reach_set))
    return undischarged, sites


def _key(sig):
    s = re.sub(r"[^A-Za-z0-9_:.<>\[\]()|;,+*/% -]", "", sig)
    return s if len(s) < 200 else s[:200]
