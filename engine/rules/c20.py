"""C20 — bundled tools preserve data end to end (DESIGN §4 C20)."""
from mirlib import *
import facts
import tool_rules

TECHNIQUE = "MIR decision tables and dataflow of the five tool crates: verdict mapping of check-crc, stdout provenance of extract-xml, column/type/order tables and loop-body must-pass rule of from-xyz, option constants and output column trees of to-xyz, source APIs of unpack, dropped-Result rule on every tool main"
EXPLANATION = (
    "Decides that e57-check-crc returns true only in the Ok arm of validate_crc, conjoins directory results and exits "
    "non-zero exactly when the verdict is false; that e57-extract-xml writes to stdout only write_all(raw_xml(file)) and "
    "propagates its error; that e57-from-xyz parses columns 0-2 as f32 into Single and 3-5 as u8 into Integer in the order of "
    "the prototype constants, skips short lines, clears its reused line buffer on every loop iteration and finalizes both "
    "writers; that e57-to-xyz uses the documented iterator options, writes x, y, z of valid Cartesian points with ryu and "
    "(c*255) as u8 for red, green, blue with plain placeholders; that e57-unpack draws from xml(), pointcloud_raw() and "
    "blob(); and that no tool drops an io/e57 Result. Not decided: numeric text<->float round trip and process exit codes "
    "as observed by a shell.")


def run(ctx):
    ctx.rule("R1", "check-crc: true only in the Ok arm of validate_crc, directory mode = conjunction, main fails iff the verdict is false")
    ctx.rule("R2", "extract-xml: stdout receives exactly write_all(raw_xml(file)); no raw write(); error returned")
    ctx.rule("R3", "from-xyz: column/type/order tables, short lines skipped, line buffer cleared every iteration, both finalize calls checked, no dropped Result")
    ctx.rule("R4", "to-xyz: option constants, x y z via ryu in order, colours (c*255) as u8 in r g b order with plain placeholders, no dropped Result")
    ctx.rule("R5", "unpack: sources are xml(), pointclouds(), pointcloud_raw(), images(), blob(); XML written unmodified; no dropped Result")
    crates, info = facts.load("tools")
    ctx.configs["tools"] = info
    ctx.cfg = "tools"
    progs = {n: load_program("tools", n)[0] for n in crates}      # with helper inlining / combinator expansion
    ctx.call(tool_rules.check_crc, progs["e57_check_crc"], "R1")
    ctx.call(tool_rules.extract_xml, progs["e57_extract_xml"], "R2")
    ctx.call(tool_rules.from_xyz, progs["e57_from_xyz"], "R3")
    ctx.call(tool_rules.to_xyz, progs["e57_to_xyz"], "R4")
    ctx.call(tool_rules.unpack, progs["e57_unpack"], "R5")
    ctx.cfg = None
