"""C14 — bounds and default limits written by the writer are exact (DESIGN §4 C14)."""
from mirlib import *
import bounds_rules
import xml_rules

TECHNIQUE = "decision table record name -> (bounds struct, min field, max field, conversion) extracted from the edge-dominating name tests of the 18 update sites; orientation of update_min/update_max by edge reachability; presence sets; dataflow of the default limits; validate-before-update reachability rule"
EXPLANATION = (
    "Decides that each of the nine bounded attributes updates the min and max field of its own axis in its own bounds "
    "struct with the exact value values[i].to_f64/to_i64(&prototype[i].data_type) (no lossy cast), that update_min/update_max "
    "replace on > / < and store on None, that each bounds struct exists exactly for the record names that are updated for it, "
    "that the default colour/intensity limits are the limits() of the red/green/blue/intensity record types in this order and "
    "limits() maps every data type to same-typed values of its own min/max, that the setters overwrite the published field "
    "and limits are emitted only when complete, and that no rejection of a point is reachable after a bound was updated. "
    "Also the writer/reader field maps of the bounds, limits and point cloud structures: the bounds that were computed are the ones written. Not decided: exactness of the extrema for concrete point sequences; the XML tags of the bounds are decided under C04.")


def run(ctx):
    ctx.rule("R1", "update table: record name -> bounds struct / min field / max field / exact conversion, 18 sites")
    ctx.rule("R2", "update_min replaces when current > value, update_max when current < value, both store on None")
    ctx.rule("R3", "bounds structs are created exactly for the record names whose bounds are updated")
    ctx.rule("R4", "default limits: from_record_types(red, green, blue) / from_record_type(intensity) of the right records; limits() same-typed; setters overwrite; emitted only when complete")
    ctx.rule("R7", "the bounds and limits that were computed are the ones written: writer/reader inverse field maps of the bounds, limits and point cloud structures (shared with C04-R1/R2)")
    ctx.rule("R6", "every rejection of a point precedes all bound updates and the store (a rejected point leaves the bounds untouched)")
    for cfg in (["lib"] if ctx.tier == "quick" else ["lib", "lib_crc32c"]):
        prog, info = load_program(cfg, "e57")
        ctx.configs[cfg] = info
        ctx.cfg = cfg
        ctx.call(bounds_rules.update_table, prog, "R1")
        ctx.call(bounds_rules.orientation, prog, "R2")
        ctx.call(bounds_rules.presence_sets, prog, "R3")
        ctx.call(bounds_rules.default_limits, prog, "R4")
        ctx.call(bounds_rules.validation_before_update, prog, "R6")
        ctx.call(xml_rules.setters, prog, "R4")
        ctx.call(xml_rules.inverse_maps, prog, "R7", "R7", "R7", only=("CartesianBounds", "SphericalBounds", "IndexBounds", "ColorLimits", "IntensityLimits", "PointCloud"))
    ctx.cfg = None
