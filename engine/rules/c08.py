"""C08 — reading untrusted bytes never panics (DESIGN §4 C08)."""
from mirlib import *
import panic_rules
import bound_rules
import norm_rules

TECHNIQUE = "call-graph reachability from the reader API; inventory of every MIR Assert terminator and every call to a table-listed panicking std function; discharge by integer interval analysis with dominating-guard refinement, inferred invariants of private fields, sanitising-callee summaries and a few algebraic patterns; remaining sites keyed by provenance signature against a reviewed table"
EXPLANATION = (
    "Enumerates, for both feature configurations, every panic source (overflow / bounds / division asserts of the debug "
    "profile and calls such as slice indexing, copy_from_slice, ilog2, drain) in the functions reachable from the public "
    "reading entry points, proves about half of them impossible by interval reasoning over the MIR (constants, type widths, "
    "guards that dominate the site, invariants of private struct fields such as page_size in [5, 2^20] or packet_length in "
    "[1, 65536] inferred from all stores, facts callees establish on their Ok paths) and requires every other site to match, "
    "by (function, kind, operand provenance), an entry of a reviewed table with a written reason. A removed guard, a new "
    "arithmetic operation or an index with a different provenance is a new, unreviewed site and is reported. The clamp "
    "precondition is decided by the float-class analysis of C13. Not decided: panics inside std, roxmltree and the device; "
    "allocation failure (C09).")


def run(ctx):
    ctx.rule("R1", "inventory of panic sources reachable from the reader API (asserts + table-listed callees)")
    ctx.rule("R2", "each source is discharged by intervals / guards / field invariants, or matches a reviewed provenance signature")
    ctx.rule("R3", "allocation sizes are bounded (a Vec larger than isize::MAX panics with 'capacity overflow', allocation failure aborts) — shared with C09-R1")
    ctx.rule("R4", "vectors indexed by prototype position are created with prototype.len() entries and never resized")
    ctx.rule("R5", "f64::clamp preconditions of the normalisation (shared with C13-R1)")
    for cfg in ["lib", "lib_crc32c"]:
        prog, info = load_program(cfg, "e57")
        ctx.configs[cfg] = info
        ctx.cfg = cfg
        und, sites = panic_rules.panic_freedom(ctx, prog, "R1", "R2", "reader", cfg)
        ctx.floor("R1", "panic sources reachable from the reader API", len(sites), 150, semantic=False)
        ctx.call(bound_rules.allocation_sizes, prog, "R3", "reader")
        ctx.call(bound_rules.equal_length_classes, prog, "R4")
        inv = norm_rules.range_invariant(ctx, prog, "R5")
        ctx.call(norm_rules.normalize_absint, prog, "R5", bool(inv), result_class=False)
    ctx.cfg = None
