"""Compile-fail witnesses (DESIGN §3.5): cargo +nightly test --doc on /verif/witness, which
path-depends on /repo.  rustc decides; nothing of e57 is executed (the twins are no_run)."""
import hashlib
import json
import os
import re
import subprocess

import facts
from facts import VERIF, CACHE, Unusable

WDIR = os.path.join(VERIF, "witness")


def _results():
    key, _ = facts.source_key("lib")
    h = hashlib.sha256(open(os.path.join(WDIR, "src", "lib.rs"), "rb").read()).hexdigest()[:12]
    cache = os.path.join(CACHE, "witness-%s-%s.json" % (key, h))
    if os.path.exists(cache):
        return json.load(open(cache)), True
    env = dict(os.environ, CARGO_NET_OFFLINE="true", CARGO_TARGET_DIR=os.path.join(CACHE, "target-witness"), RUSTFLAGS="-Awarnings", RUSTDOCFLAGS="-Awarnings")
    wdir = WDIR
    if os.path.realpath(facts.REPO) != "/repo":
        # sensitivity replay on a scratch copy of the tree: a copy of the witness crate that depends on that copy
        import shutil
        wdir = os.path.join(os.path.dirname(os.path.realpath(facts.REPO)), "witness")
        if not os.path.exists(wdir):
            shutil.copytree(WDIR, wdir, ignore=shutil.ignore_patterns("target"))
            ct = open(os.path.join(wdir, "Cargo.toml")).read().replace('path = "/repo"', 'path = "%s"' % os.path.realpath(facts.REPO))
            open(os.path.join(wdir, "Cargo.toml"), "w").write(ct)
    p = subprocess.run(["cargo", "+nightly", "test", "--doc", "--offline"], cwd=wdir, env=env, stdout=subprocess.PIPE, stderr=subprocess.STDOUT, text=True)
    res = {}
    for m in re.finditer(r"^test src/lib\.rs - (\w+) \(line \d+\)(?: - (compile fail|compile))? \.\.\. (\w+)", p.stdout, re.M):
        res[m.group(1)] = {"kind": m.group(2) or "run", "result": m.group(3)}
    if not res:
        raise Unusable("witness doctests did not run:\n" + p.stdout[-3000:])
    os.makedirs(CACHE, exist_ok=True)
    for old in os.listdir(CACHE):
        if old.startswith("witness-") and old != os.path.basename(cache):
            os.remove(os.path.join(CACHE, old))
    json.dump(res, open(cache, "w"))
    return res, False


def run(ctx, rule, names):
    res, cached = _results()
    ctx.configs["witness"] = {"doctests": len(res), "cached": cached, "cmd": "cargo +nightly test --doc --offline (in /verif/witness, e57 = { path = \"/repo\" })"}
    for n in names:
        bad, twin = res.get(n + "_bad"), res.get(n + "_twin")
        if bad is None or twin is None:
            raise Unusable("witness %s missing from the doctest output" % n)
        twin_ok = twin["kind"] == "compile" and twin["result"] == "ok"
        if not twin_ok:
            # the twin must compile: otherwise the witness fails for an unrelated reason (API drift)
            raise Unusable("twin of witness %s does not compile any more — the witness is not meaningful" % n)
        ok = bad["kind"] == "compile fail" and bad["result"] == "ok"
        ctx.ob(rule, "witness/" + n, ok, "program %s_bad %s by rustc with the expected error code; its twin without the overlap compiles" % (n, "is rejected" if ok else "is ACCEPTED (or fails with a different error)"),
               where="witness/src/lib.rs:" + n)
