"""Error-discipline rules (C16)."""
import re

from mirlib import *
from proto import *
from cache_rules import strip_casts, const_val

ERR_RESULT = re.compile(r"^std::result::Result<.*, (std::io::Error|error::Error|Error)>$")
TEST_ONLY = ("is_ok", "is_err", "ok", "err", "unwrap_or", "unwrap_or_default", "unwrap_or_else", "is_ok_and", "is_err_and")
DROP_EXCEPTIONS = {
    "<paged_writer::PagedWriter<T> as std::ops::Drop>::drop": "Drop cannot return an error; E57Writer::finalize flushes explicitly and returns that result (R3)",
}


def _result_typed(fn, local):
    return bool(ERR_RESULT.match(fn.local_ty(local)))


def classify_result_use(fn, bi, t):
    """how is the Result produced by call block bi consumed?  returns (class, detail)."""
    dest = t["dest"]
    if dest["proj"]:
        return "stored", "stored into a place"
    n = dest["local"]
    if n == 0:
        return "returned", "returned directly"
    locs, sinks = flows(fn, n)
    if 0 in locs:
        return "returned", "flows into the return place"
    kinds = set()
    for sb, what, x in sinks:
        if what == "call":
            c = callee_of(x)
            last = c.rsplit("::", 1)[-1]
            if c.endswith("::branch"):
                kinds.add("try")
            elif last in CONVERTERS:
                kinds.add("converted")
            elif last in TEST_ONLY:
                kinds.add("tested:" + last)
            elif last in ("map", "map_err", "and_then", "or_else"):
                kinds.add("mapped")
            elif last in ("expect", "unwrap"):
                kinds.add("unwrapped")
            elif c.endswith("::from_residual"):
                kinds.add("try")
            else:
                kinds.add("passed:" + short(c))
        elif what == "stmt":
            rv = x["rv"]
            if rv["k"] == "discr":
                kinds.add("matched")
            elif rv["k"] == "aggregate":
                kinds.add("wrapped")
        elif what == "switch":
            kinds.add("matched")
    if not kinds:
        return "dropped", "the value is never used"
    strong = {k for k in kinds if not k.startswith("tested:")}
    if not strong:
        return "tested-only", "only inspected by %s, the error value is discarded" % sorted(kinds)
    return "consumed", ",".join(sorted(kinds))


def no_dropped_results(ctx, prog, rule, exceptions=DROP_EXCEPTIONS, floor=600):
    total = 0
    stats = collections.Counter()
    for p, f in sorted(prog.fns.items()):
        seen_fn = False
        for bi, t in f.calls():
            dest = t["dest"]
            if dest["proj"] or not _result_typed(f, dest["local"]):
                continue
            total += 1
            if not seen_fn:
                ctx.fn_seen(f)
                seen_fn = True
            cls, detail = classify_result_use(f, bi, t)
            stats[cls] += 1
            if cls in ("dropped", "tested-only"):
                if p in exceptions:
                    ctx.ob(rule, "named-exception/%s" % short(p), True, "%s: %s — %s" % (short(callee_of(t)), detail, exceptions[p]), where=f.file_line(bi), nontrivial=False)
                    continue
                ctx.ob(rule, "dropped/%s/%s" % (short(p), short(callee_of(t))), False,
                       "result of %s (%s) is %s: %s" % (callee_of(t), f.local_ty(dest["local"]), cls, detail), where=f.file_line(bi))
    ctx.ob(rule, "all-results-consumed", True, "%d Result-returning calls: %s" % (total, dict(stats)), nontrivial=True)
    ctx.extra.setdefault("result_call_stats", {})[ctx.cfg or "ctl"] = dict(stats)
    if floor:
        ctx.floor(rule, "Result-returning calls examined", total, floor, semantic=False)
    return stats


RAW = ("std::io::Read::read", "std::io::Write::write")


def _is_raw_transfer(c):
    if c in RAW:
        return True
    m = re.match(r"^<(.+) as std::io::(Read|Write)>::(read|write)$", c)
    return bool(m)


def short_transfer_loop(f, bi, loops=None):
    """facts about the raw Read::read / Write::write call in block bi, independent of how the loop is spelled:
    in a loop; its Result is propagated with `?`; a zero count leaves the loop (`if n == 0 { break }`, `match n { 0 =>
    break, .. }`, `while read(..)? != 0`); the count advances the buffer (`&mut buf[n..]`, `buf.split_at_mut(n).1`)."""
    loops = loops if loops is not None else natural_loops(f)
    mine = [h for h, body in loops.items() if bi in body]
    br = branch_of_call(f, bi)
    zero_exit = advance = False
    zero_succs = []
    if br and mine:
        body = loops[min(mine, key=lambda h: len(loops[h]))]
        R = Resolver(f)

        def is_count(t):
            t = strip(t)
            while t[0] == "cast":
                t = strip(t[2])
            return t[0] == "call" and len(t) > 3 and t[3] == bi
        for sb in body:
            tt = f.blocks[sb]["term"]
            if tt["k"] != "switch":
                continue
            dl = op_place(tt["discr"])
            d = strip(R.place(dl)) if dl else None
            if d is None:
                continue
            e = switch_edges(f, sb)
            zero_succ = None
            if d[0] == "binop" and d[1] in ("Eq", "Ne", "Gt", "Lt") and 0 in (const_val(d[2]), const_val(d[3])):
                other = d[3] if const_val(d[2]) == 0 else d[2]
                if is_count(other):
                    true_succ, false_succ = e.get("1", e["otherwise"]), e.get("0")
                    zero_succ = true_succ if d[1] == "Eq" else false_succ      # n != 0, n > 0, 0 < n are false for n == 0
            elif is_count(d):
                zero_succ = e.get("0")
            if zero_succ is not None and zero_succ not in body:
                zero_exit = True
                zero_succs.append(zero_succ)
        for sb in body:
            for st in f.blocks[sb]["stmts"]:
                rv = st["rv"]
                if is_variant_agg(rv, "ops::RangeFrom", "RangeFrom") and is_count(R.operand(rv["ops"][0])):
                    advance = True
            tt = f.blocks[sb]["term"]
            if tt["k"] == "call" and (callee_of(tt).endswith("::split_at_mut") or callee_of(tt).endswith("::split_at")) and len(tt["args"]) == 2 and is_count(R.operand(tt["args"][1])):
                advance = True
    return {"in_loop": bool(mine), "propagated": br is not None, "zero_exit": zero_exit, "advance": advance, "zero_succs": zero_succs}


def raw_transfer_discipline(ctx, prog, rule, floors=True):
    sites = 0
    for p, f in sorted(prog.fns.items()):
        loops = None
        for bi, t in f.calls(lambda c, t: _is_raw_transfer(c)):
            sites += 1
            ctx.fn_seen(f)
            c = callee_of(t)
            loops = loops if loops is not None else natural_loops(f)
            r = short_transfer_loop(f, bi, loops)
            on_device = c in RAW  # generic T: the raw device
            ok = r["in_loop"] and r["propagated"] and r["zero_exit"] and (r["advance"] or not on_device)
            ctx.ob(rule, "raw-transfer/%s/%s" % (short(p), short(c)), ok,
                   "%s: in loop=%s, error propagated=%s, zero count leaves the loop=%s, count advances the buffer=%s%s" % (
                       c, r["in_loop"], r["propagated"], r["zero_exit"], r["advance"], "" if on_device else " (self-advancing reader)"), where=f.file_line(bi))
    if not floors:
        return
    ctx.floor(rule, "raw read/write call sites", sites, 1, semantic=False)
    # exact transfers everywhere else: count them for the evidence
    exact = 0
    for p, f in prog.fns.items():
        exact += len(f.calls_to("Read::read_exact", "Write::write_all", "io::copy", "std::io::copy"))
    ctx.floor(rule, "read_exact / write_all / io::copy sites", exact, 15, semantic=False)


def ok_requires_call(f, pred):
    """every Ok path of f passes through a call selected by pred whose Result decides success: the call's value is
    returned as it is (possibly through a Converter), or it is fed to `?`. Shape-independent: `return x.flush()` and
    `x.flush()?; Ok(())` are the same behaviour."""
    blocks = [bi for bi, t in f.calls() if pred(callee_of(t), t)]
    if not blocks:
        return False, "no such call"
    if f.ok_reachable(removed=blocks) is not None:
        return False, "a successful return is reachable without the call"
    fwd_blocks = set()
    for bi, si, cls, p in f.ret_assignments():
        if cls == "fwd":
            tr = strip(Resolver(f)._call(p, bi, 0, frozenset()))
            if tr[0] == "call" and len(tr) > 3:
                fwd_blocks.add(tr[3])
            fwd_blocks.add(bi)
    for b in blocks:
        if b not in fwd_blocks and branch_of_call(f, b) is None:
            return False, "the result of the call at %s is neither returned nor propagated with ?" % f.file_line(b)
    return True, "%d call(s), each returned or propagated" % len(blocks)


def success_implies_flushed(ctx, prog, rule):
    f = prog.fn("e57_writer::E57Writer::<T>::finalize_customized_xml")
    ctx.fn_seen(f)
    PF = "<paged_writer::PagedWriter<T> as std::io::Write>::flush"
    # the *last* device operation on every Ok path is the flush: no Ok path from the header write avoids it
    good, why = ok_requires_call(f, lambda c, t: c == PF)
    hw = [bi for bi, t in f.calls() if callee_of(t) == "header::Header::write"]
    after = [s for b in hw for s in f.cfg().get(b, [])]
    fl = [bi for bi, t in f.calls() if callee_of(t) == PF]
    tail = bool(hw) and f.ok_reachable(removed=fl, start=after) is None
    ctx.ob(rule, "finalize-returns-flush/%s" % short(f.path), good and tail, "success of finalize_customized_xml requires the result of PagedWriter::flush (%s); a flush follows the header write on every Ok path: %s" % (why, tail))
    g = prog.fn(PF)
    ctx.fn_seen(g)
    good, why = ok_requires_call(g, lambda c, t: c == "std::io::Write::flush" and self_field(Resolver(g).operand(t["args"][0])) == "writer")
    ctx.ob(rule, "flush-forwards-device-flush/%s" % short(g.path), good, "success of PagedWriter::flush requires the result of the device's flush (%s)" % why)
    # E57Writer::finalize forwards finalize_customized_xml
    h = prog.fn("e57_writer::E57Writer::<T>::finalize")
    ctx.fn_seen(h)
    good, why = ok_requires_call(h, lambda c, t: c == f.path)
    ctx.ob(rule, "finalize-forwards/%s" % short(h.path), good, "success of E57Writer::finalize requires the result of finalize_customized_xml (%s)" % why)


VARIANT = {"read_err": "Read", "write_err": "Write", "invalid_err": "Invalid", "internal_err": "Internal"}


def converter_tables(ctx, prog, rule):
    n = 0
    for p, f in sorted(prog.fns.items()):
        if "error::Converter<" not in p:
            continue
        meth = p.rsplit("::", 1)[-1]
        if meth not in VARIANT:
            continue
        n += 1
        ctx.fn_seen(f)
        R = Resolver(f)
        on_result = p.startswith("<std::result::Result")
        ok_ok, ok_err, desc = False, False, []
        for bi, si, cls, payload in f.ret_assignments():
            if cls == "ok":
                t = strip(R.rvalue(payload))
                v = t[2][0]
                ok_ok = v[0] in ("ok", "field") and ("param", 1) in leaves(v)
                desc.append("Ok(%s)" % tree_str(v))
            elif cls == "err":
                t = R.rvalue(payload)
                e = t[2][0]
                if e[0] == "agg" and e[1][0] == "adt" and e[1][1] == "error::Error":
                    var = e[1][2]
                    vals = dict(zip(e[1][3], e[2]))
                    src = vals.get("source")
                    if on_result:
                        src_ok = src is not None and src[0] == "agg" and src[1][2] == "Some" and ("param", 1) in leaves(src)
                    else:
                        src_ok = src is not None and src[0] == "agg" and src[1][2] == "None"
                    d = vals.get("desc")
                    desc_ok = d is not None and ("param", 2) in leaves(d)
                    ok_err = var == VARIANT[meth] and src_ok and desc_ok
                    desc.append("Err(Error::%s{desc<-%s, source<-%s})" % (var, tree_str(d)[:40], tree_str(src)[:60]))
        ctx.ob(rule, "converter/%s/%s" % ("Result" if on_result else "Option", meth), ok_ok and ok_err, "; ".join(desc), where="%s:%d" % (f.span["file"], f.span["l0"]))
    ctx.floor(rule, "Converter methods", n, 8)


def controls(ctx):
    import framework
    prog, info = load_program("controls", "controls")
    ctx.configs["controls"] = info
    for name, expect in (("errs::drops_result", True), ("errs::tests_only", True), ("errs::propagates", False), ("errs::matches", False)):
        sub = framework.Ctx("CTL", ctx.tier)
        one = Program({"crate": "controls", "fns": [prog.fn(name).d], "adts": []})
        no_dropped_results(sub, one, "R1", exceptions={}, floor=0)
        ctx.control("R1", name, any(not o.ok for o in sub.obs), expect)
    for name, expect in (("errs::single_read", True), ("errs::looped_read", False)):
        sub = framework.Ctx("CTL", ctx.tier)
        one = Program({"crate": "controls", "fns": [prog.fn(name).d], "adts": []})
        raw_transfer_discipline(sub, one, "R2", floors=False)
        ctx.control("R2", name, any(not o.ok and "floor" not in o.key for o in sub.obs), expect)


def no_error_turned_into_success(ctx, prog, rule, floor=300):
    """for every call of a Result-returning function inside a Result-returning function: once the result is known to
    be Err (its `?`, match or is_err() test takes the error side), no path reaches a successful return.  An error that
    is matched and answered with Ok(..) (`Err(e) if e.kind() == .. => return Ok(0)`) hides a device failure."""
    from simple_rules import assume_result_of_call
    tested = 0
    for p, f in sorted(prog.fns.items()):
        opt = f.ret_ty().startswith("std::option::Option<std::result::Result<")
        if not f.ret_ty().startswith("std::result::Result<") and not opt:
            continue
        errs = f.err_exit_blocks()
        rets = set(f.return_blocks())
        def opt_errs(fv):
            # iterator protocol (`fn next() -> Option<Result<T>>`): the error side has to end in Some(Err(..)) - or in
            # Some(r) where r is the failed result itself; ending the iteration (None) or yielding a value hides the failure
            Rf = Resolver(fv, max_depth=12)

            def is_err(t):
                t = strip(t)
                if t[0] == "agg" and t[1][0] == "adt":
                    return t[1][2] == "Err"
                if t[0] == "call":
                    return t[1].endswith("::from_residual") or prog.is_always_err(t[1])
                if t[0] == "phi":
                    return all(is_err(a) for a in t[1])
                return False
            out = set()
            for bi_, si_, cls_, payload_ in fv.ret_assignments():
                if cls_ == "some":
                    v_ = strip(Rf.rvalue(payload_))
                    if v_[0] == "agg" and v_[2] and is_err(v_[2][0]):
                        out.add(bi_)
                elif cls_ == "err":
                    out.add(bi_)
            return out
        if opt and not opt_errs(f):
            continue
        for bi, t in f.calls():
            if t["dest"]["proj"] or t["target"] < 0 or not f.local_ty(t["dest"]["local"]).startswith("std::result::Result<"):
                continue
            g = assume_result_of_call(f, bi, False)
            if g == f.cfg():
                continue                    # never inspected here (returned as it is, or dropped: R1)
            tested += 1
            if opt:
                # values are resolved on the flow graph pruned under "this call failed": `Some(r.map(..))` is then Some(Err)
                from simple_rules import fn_view
                fv = fn_view(f, g)
                errs = opt_errs(fv)
                # the failed result handed out unchanged: Some(<the call result>)
                Rv = Resolver(fv, max_depth=12)
                for bi_, si_, cls_, payload_ in fv.ret_assignments():
                    if cls_ == "some":
                        v_ = strip(Rv.rvalue(payload_))
                        if v_[0] == "agg" and v_[2]:
                            x_ = strip(v_[2][0])
                            if x_[0] == "call" and len(x_) > 3 and x_[3] == bi:
                                errs.add(bi_)
            pth = find_path(g, g.get(bi, []), rets, errs)
            if pth is not None:
                ctx.fn_seen(f)
                ctx.ob(rule, "error-swallowed/%s/%s" % (short(p), short(callee_of(t))), False,
                       "%s: an Err from %s can end in a successful return" % (short(p), short(callee_of(t))), where=f.file_line(bi),
                       path=" -> ".join("bb%d" % b for b in pth[:12]))
    ctx.ob(rule, "no-error-swallowed", True, "%d inspected call results: the error side never reaches a successful return" % tested, nontrivial=False)
    ctx.floor(rule, "inspected Result-returning calls", tested, floor, semantic=False)
