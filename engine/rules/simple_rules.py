"""Rules for the simple point iterator (C05; parts reused by C13)."""
import struct

from mirlib import *
from proto import *
from cache_rules import strip_casts, const_val

SR = "pc_reader_simple::"
IT = "<pc_reader_simple::PointCloudReaderSimple<'_, T> as std::iter::Iterator>::next"
PRS = "pc_reader_simple::PointCloudReaderSimple::<'a, T>::"


def f64_of(t):
    t = strip(t)
    if t[0] == "const" and t[1] == "f64" and isinstance(t[2], int):
        return struct.unpack("<d", struct.pack("<Q", t[2]))[0]
    return None


def leaf_name(t):
    """canonical name of a leaf: field chains, 'Variant.field' names, array indices."""
    t = strip(t)
    if t[0] == "field":
        base = leaf_name(t[1])
        return (base + "." if base else "") + t[2]
    if t[0] == "param":
        return "arg%d" % t[1]
    if t[0] == "index":
        i = const_val(t[2])
        return "%s[%s]" % (leaf_name(t[1]), i if i is not None else "?")
    if t[0] == "call":
        return "%s(%s)" % (t[1].rsplit("::", 1)[-1], ",".join(leaf_name(a) for a in t[2]))
    if t[0] == "cast":
        return leaf_name(t[2])
    if t[0] == "local":
        return "_%d" % t[1]
    return tree_str(t)


def poly(t):
    """expand +,-,* over f64 into {sorted tuple of leaf names: coefficient}."""
    t = strip(t)
    c = f64_of(t)
    if c is not None:
        return {(): c}
    if t[0] == "binop" and t[1] in ("Add", "Sub"):
        a, b = poly(t[2]), poly(t[3])
        out = dict(a)
        for m, k in b.items():
            out[m] = out.get(m, 0.0) + (k if t[1] == "Add" else -k)
        return {m: k for m, k in out.items() if k != 0.0}
    if t[0] == "binop" and t[1] == "Mul":
        a, b = poly(t[2]), poly(t[3])
        out = {}
        for m1, k1 in a.items():
            for m2, k2 in b.items():
                m = tuple(sorted(m1 + m2))
                out[m] = out.get(m, 0.0) + k1 * k2
        return {m: k for m, k in out.items() if k != 0.0}
    if t[0] == "call" and len(t[2]) == 2 and t[1].rsplit("::", 1)[-1] in ("add", "sub", "mul") and "std::ops::" in t[1]:
        op = {"add": "Add", "sub": "Sub", "mul": "Mul"}[t[1].rsplit("::", 1)[-1]]
        return poly(("binop", op, t[2][0], t[2][1]))
    if t[0] == "unop" and t[1] == "Neg":
        return {m: -k for m, k in poly(t[2]).items()}
    return {(leaf_name(t),): 1.0}


def _agg_fields(t):
    t = strip(t)
    if t[0] == "agg" and t[1][0] == "adt":
        return t[1][2], dict(zip(t[1][3], t[2]))
    return None, {}


def _assigned_aggs(fn, adt, field):
    """aggregates assigned to <place>.field of the given ADT: list of (block, variant, {field: tree})"""
    R = Resolver(fn)
    out = []
    for bi, si, kind, payload in field_assignments(fn, adt, field):
        if kind != "stmt":
            continue
        # `p.f = match .. { .. => A{..}, .. => B{..} }`: one entry per arm, located at the arm
        src = op_place(payload["op"]) if payload["k"] == "use" else None
        for _ in range(4):
            if src is None or src["proj"]:
                break
            ds = fn.whole_defs(src["local"])
            if len(ds) == 1 and ds[0][0] == "stmt" and ds[0][1]["k"] == "use" and len(fn.defs().get(src["local"], [])) == 1:
                src = op_place(ds[0][1]["op"])
                continue
            break
        # `let new = match .. { .. => Some(A{..}), .. => None }; if let Some(v) = new { p.f = v }`: one entry per Some arm
        if src is not None and len(src["proj"]) == 2 and src["proj"][0]["k"] == "downcast" and src["proj"][0].get("variant") == "Some" and src["proj"][1]["k"] == "field":
            ods = fn.defs().get(src["local"], [])
            if ods and all(d[0] == "stmt" and not d[4]["proj"] and d[1]["k"] == "aggregate" and d[1]["kind"].get("variant") in ("Some", "None") for d in ods):
                for d in ods:
                    if d[2] not in fn.cfg() or d[1]["kind"].get("variant") != "Some":
                        continue
                    v, vals = _agg_fields(strip(R.operand(d[1]["ops"][0])))
                    out.append((d[2], v, vals))
                continue
        ds = fn.whole_defs(src["local"]) if src is not None and not src["proj"] else []
        if len(ds) > 1 and len(fn.defs().get(src["local"], [])) == len(ds) and all(d[0] == "stmt" for d in ds):
            for d in ds:
                if d[2] not in fn.cfg():
                    continue
                v, vals = _agg_fields(strip(R.rvalue(d[1])))
                out.append((d[2], v, vals))
            continue
        t = strip(R.rvalue(payload))
        v, vals = _agg_fields(t)
        out.append((bi, v, vals))
    return out


def formulas(ctx, prog, rule):
    # convert_to_cartesian
    f = prog.fn(SR + "convert_to_cartesian")
    ctx.fn_seen(f)
    got = {}
    for bi, v, vals in _assigned_aggs(f, "point::Point", "cartesian"):
        got[v] = {k: poly(x) for k, x in vals.items()}

    def P(*names):
        return {tuple(sorted(names)): 1.0}
    S = "arg1.spherical."
    want_valid = {"x": P(S + "Valid.range", "cos(%sValid.elevation)" % S, "cos(%sValid.azimuth)" % S),
                  "y": P(S + "Valid.range", "cos(%sValid.elevation)" % S, "sin(%sValid.azimuth)" % S),
                  "z": P(S + "Valid.range", "sin(%sValid.elevation)" % S)}
    want_dir = {"x": P("cos(%sDirection.elevation)" % S, "cos(%sDirection.azimuth)" % S),
                "y": P("cos(%sDirection.elevation)" % S, "sin(%sDirection.azimuth)" % S),
                "z": P("sin(%sDirection.elevation)" % S)}
    ctx.ob(rule, "formula/convert_to_cartesian/Valid", got.get("Valid") == want_valid, "x,y,z = %s (must be r cos(el) cos(az), r cos(el) sin(az), r sin(el))" % got.get("Valid"))
    ctx.ob(rule, "formula/convert_to_cartesian/Direction", got.get("Direction") == want_dir, "direction x,y,z = %s (unit range)" % got.get("Direction"))
    # convert_to_spherical
    g = prog.fn(SR + "convert_to_spherical")
    ctx.fn_seen(g)
    C = "arg1.cartesian."
    res = {}
    for bi, v, vals in _assigned_aggs(g, "point::Point", "spherical"):
        res[v] = {k: strip(x) for k, x in vals.items()}

    def is_norm(t, var):
        t = strip(t)
        if not (t[0] == "call" and t[1].endswith("f64>::sqrt")):
            return False
        p = poly(t[2][0])
        return p == {(C + var + ".x", C + var + ".x"): 1.0, (C + var + ".y", C + var + ".y"): 1.0, (C + var + ".z", C + var + ".z"): 1.0}

    def is_atan2(t, var):
        t = strip(t)
        return t[0] == "call" and t[1].endswith("f64>::atan2") and leaf_name(t[2][0]) == C + var + ".y" and leaf_name(t[2][1]) == C + var + ".x"

    def is_asin(t, var):
        t = strip(t)
        if not (t[0] == "call" and t[1].endswith("f64>::asin")):
            return False
        q = strip(t[2][0])
        return q[0] == "binop" and q[1] == "Div" and leaf_name(q[2]) == C + var + ".z" and is_norm(q[3], var)
    v = res.get("Valid", {})
    okv = bool(v) and is_norm(v.get("range", ("x",)), "Valid") and is_atan2(v.get("azimuth", ("x",)), "Valid") and is_asin(v.get("elevation", ("x",)), "Valid")
    ctx.ob(rule, "formula/convert_to_spherical/Valid", okv, "range, azimuth, elevation = %s (must be sqrt(x²+y²+z²), atan2(y, x), asin(z / range))" % {k: tree_str(strip_deep(x))[:120] for k, x in v.items()})
    d = res.get("Direction", {})
    okd = bool(d) and is_atan2(d.get("azimuth", ("x",)), "Direction") and is_asin(d.get("elevation", ("x",)), "Direction")
    ctx.ob(rule, "formula/convert_to_spherical/Direction", okd, "direction azimuth, elevation = %s" % {k: tree_str(strip_deep(x))[:120] for k, x in d.items()})
    # prepare_transform: quaternion -> column-major rotation matrix
    h = prog.fn(PRS + "prepare_transform")
    ctx.fn_seen(h)
    R = Resolver(h)
    ret = strip(R.local(0))
    okm = False
    desc = ""
    if ret[0] == "agg" and ret[1][0] == "tuple":
        arr = strip(ret[2][0])
        if arr[0] == "agg" and arr[1][0] == "array" and len(arr[2]) == 9:
            def q(n):
                return n
            ents = []
            for e in arr[2]:
                p = {}
                for m, k in poly(e).items():
                    p[tuple(sorted(x.rsplit(".", 1)[-1] for x in m))] = k
                ents.append(p)

            def sq(a, b, c, d):  # a² + b² - c² - d²
                return {(a, a): 1.0, (b, b): 1.0, (c, c): -1.0, (d, d): -1.0}

            def tw(a, b, c, d, sgn):  # 2(ab + sgn cd)
                return {tuple(sorted((a, b))): 2.0, tuple(sorted((c, d))): 2.0 * sgn}
            want = [sq("w", "x", "y", "z"), tw("x", "y", "w", "z", +1), tw("x", "z", "w", "y", -1),
                    tw("x", "y", "w", "z", -1), sq("w", "y", "x", "z"), tw("y", "z", "w", "x", +1),
                    tw("x", "z", "w", "y", +1), tw("y", "z", "w", "x", -1), sq("w", "z", "x", "y")]
            okm = ents == want
            desc = str(ents)
        tr = strip(ret[2][1])
        okt = leaf_name(tr).endswith("translation")
        okm = okm and okt
    ctx.ob(rule, "formula/prepare_transform", okm, "rotation entries (column-major) %s must be the matrix of the unit quaternion (w,x,y,z); translation passed through" % desc[:600])
    # transform_point
    tp = prog.fn(SR + "transform_point")
    ctx.fn_seen(tp)
    got = {}
    for bi, v, vals in _assigned_aggs(tp, "point::Point", "cartesian"):
        got[v] = {k: poly(x) for k, x in vals.items()}
    V = "arg1.cartesian.Valid."

    def row(r):
        return {tuple(sorted(("arg2[%d]" % r, V + "x"))): 1.0, tuple(sorted(("arg2[%d]" % (r + 3), V + "y"))): 1.0, tuple(sorted(("arg2[%d]" % (r + 6), V + "z"))): 1.0, ("arg3." + "xyz"[r],): 1.0}
    want = {"x": row(0), "y": row(1), "z": row(2)}
    ctx.ob(rule, "formula/transform_point", got == {"Valid": want}, "p' = %s (must be R[r]·x + R[r+3]·y + R[r+6]·z + t_r per row r)" % got)
    # RecordValue::to_f64
    tf = prog.fn("record::RecordValue::to_f64")
    ctx.fn_seen(tf)
    Rt = Resolver(tf)
    oks = []
    for bi, si, cls, payload in tf.ret_assignments():
        if cls == "ok":
            v = strip(Rt.rvalue(payload))[2][0]
            # one `Ok(value)` fed by a match (a phi of the arms) is the same as one Ok per arm
            for a in (strip(v)[1] if strip(v)[0] == "phi" else (v,)):
                oks.append(poly(a) if strip(a)[0] in ("binop", "call") else leaf_name(a))
    want_si = {tuple(sorted(("arg1.ScaledInteger.0", "arg2.ScaledInteger.scale"))): 1.0, ("arg2.ScaledInteger.offset",): 1.0}
    ok = want_si in oks and "arg1.Single.0" in oks and "arg1.Double.0" in oks and "arg1.Integer.0" in oks and len(oks) == 4
    ctx.ob(rule, "formula/RecordValue::to_f64", ok, "to_f64 results %s (must be value, value, raw*scale+offset, value)" % oks)
    # RecordValue::to_i64 (row / column / return index, invalid states): the stored integer itself, never through a float
    ti = prog.fn("record::RecordValue::to_i64")
    ctx.fn_seen(ti)
    Ri = Resolver(ti)
    oki, vals = True, []
    for bi, si, cls, payload in ti.ret_assignments():
        if cls == "ok":
            v = strip(Ri.rvalue(payload))[2][0]
            for a in (strip(v)[1] if strip(v)[0] == "phi" else (v,)):
                a = strip(a)
                while a[0] == "cast" and a[1] == "i64":
                    a = strip(a[2])
                vals.append(tree_str(strip_deep(a))[:80])
                oki = oki and a[0] == "field" and strip(a[1]) == ("param", 1) and a[2] in ("Integer.0", "ScaledInteger.0")
        elif cls not in ("err",):
            oki = False
            vals.append("<%s>" % cls)
    ctx.ob(rule, "formula/RecordValue::to_i64", oki and bool(vals), "to_i64 results %s (must be the stored integer payload itself: 64-bit integers do not survive a detour through f64)" % vals)


# ----------------------------------------------------------------------------------------
# assume-prune decision tables

def assume_cfg(fn, assumptions):
    """prune switch edges contradicting assumed enum variants.
    assumptions: list of (predicate on the stripped scrutinee tree, variant index)."""
    R = Resolver(fn)
    removed = set()
    for bi in fn.cfg():
        t = fn.blocks[bi]["term"]
        if t["k"] != "switch":
            continue
        dl = op_place(t["discr"])
        if dl is None:
            continue
        d = strip(R.place(dl))
        if d[0] != "discr":
            continue
        scrut = strip(d[1])
        for pred, vi in assumptions:
            if pred(scrut):
                e = switch_edges(fn, bi)
                keep = e.get(str(vi), e["otherwise"])
                for v, s in e.items():
                    if s != keep:
                        removed.add((bi, s))
                # several values may share the kept successor only if it is the same block: fine
    g = cfg_without_edges(fn, removed)
    return _propagate_const_flags(fn, g)


def fn_view(fn, g):
    """a copy of fn in which only the blocks reachable in the pruned graph g exist (the others are marked dead), so
    that value resolution only sees the definitions that can execute under the assumption that produced g"""
    from mirlib import Fn
    live = reach(g, [0])
    d = dict(fn.d)
    blocks = []
    for i, b in enumerate(fn.blocks):
        if i in live or b["cleanup"]:
            nb = b
            if i in live and b["term"]["k"] == "switch":
                keep = set(g.get(i, []))
                t = b["term"]
                tg = [[v, s_] for v, s_ in t["targets"] if s_ in keep]
                ow = t["otherwise"] if t["otherwise"] in keep else (tg[0][1] if tg else t["otherwise"])
                nb = dict(b)
                nb["term"] = dict(t, targets=tg, otherwise=ow)
            blocks.append(nb)
        else:
            nb = dict(b)
            nb["cleanup"] = True
            blocks.append(nb)
    d["blocks"] = blocks
    v = Fn(d, fn.crate)
    v.program = getattr(fn, "program", None)
    return v


def assume_result_of_call(fn, call_block, is_ok):
    """pruned CFG under the assumption that the Result returned by the call in call_block is Ok (or Err): switches on
    its discriminant, a following `?`, and is_ok() / is_err() tests keep only the matching edge"""
    t = fn.blocks[call_block]["term"]
    if t["k"] != "call" or t["dest"]["proj"]:
        return fn.cfg()
    locs, _ = flows(fn, t["dest"]["local"])
    locs = set(locs)
    if not is_ok:
        # an Err that is re-wrapped (`r.map(f)` keeps `Err(e)` as `Err(e)`; `.map_err(g)` builds `Err(g(e))`) is still an
        # Err: results rebuilt from the error payload of an assumed-Err value are assumed Err as well
        for _ in range(4):
            grew = False
            for b2 in fn.cfg():
                for st in fn.blocks[b2]["stmts"]:
                    rv = st["rv"]
                    if st["place"]["proj"] or st["place"]["local"] in locs:
                        continue
                    if rv["k"] == "aggregate" and rv["kind"].get("agg") == "adt" and rv["kind"].get("variant") == "Err" and rv["kind"]["adt"].endswith("result::Result") and rv["ops"]:
                        pl0 = op_place(rv["ops"][0])
                        ok_src = False
                        if pl0 is not None:
                            if pl0["local"] in locs and any(e.get("k") == "downcast" and e.get("variant") in ("Err", "Break") for e in pl0["proj"]):
                                ok_src = True
                            elif not pl0["proj"]:
                                # Err(g(e)) with e moved out of the assumed-Err value
                                ds0 = fn.whole_defs(pl0["local"])
                                for d0 in ds0:
                                    srcs = []
                                    if d0[0] == "stmt" and d0[1]["k"] == "use":
                                        srcs = [op_place(d0[1]["op"])]
                                    elif d0[0] == "call":
                                        srcs = [op_place(a_) for a_ in d0[1]["args"]]
                                    for sp in srcs:
                                        if sp is not None and sp["local"] in locs and any(e.get("k") == "downcast" and e.get("variant") in ("Err", "Break") for e in sp["proj"]):
                                            ok_src = True
                        if ok_src and len(fn.whole_defs(st["place"]["local"])) == 1:
                            more, _ = flows(fn, st["place"]["local"])
                            locs |= set(more)
                            grew = True
            if not grew:
                break
    removed = set()
    for sb in fn.cfg():
        tt = fn.blocks[sb]["term"]
        if tt["k"] == "switch":
            p = op_place(tt["discr"])
            ds = fn.whole_defs(p["local"]) if p is not None and not p["proj"] else []
            if len(ds) > 1 and all(d[0] == "stmt" and d[1] == ds[0][1] for d in ds):
                ds = ds[:1]            # copies of one statement made by jump threading
            if len(ds) == 1 and ds[0][0] == "stmt" and ds[0][1]["k"] == "discr" and not ds[0][1]["place"]["proj"] and ds[0][1]["place"]["local"] in locs:
                ty = fn.local_ty(ds[0][1]["place"]["local"])
                if ty in ("?", ""):
                    ty = fn.local_ty(t["dest"]["local"])          # a copy made by the normaliser: same type as the result
                e = switch_edges(fn, sb)
                if "ControlFlow<" in ty or "Result<" in ty:
                    ok_s, err_s = e.get("0", e["otherwise"]), e.get("1", e["otherwise"])
                    if ok_s != err_s:
                        removed.add((sb, err_s if is_ok else ok_s))
        elif tt["k"] == "call" and callee_of(tt).rsplit("::", 1)[-1] in ("is_ok", "is_err") and tt["args"]:
            a = op_place(tt["args"][0])
            if a is not None and a["local"] in locs:
                for sw, tr, fa in bool_switches(fn, sb):
                    truth = is_ok if callee_of(tt).endswith("is_ok") else (not is_ok)
                    removed.add((sw, fa if truth else tr))
    return _propagate_const_flags(fn, cfg_without_edges(fn, removed))


def assume_record_name(fn, name, variants, R=None):
    """pruned CFG under the assumption that the prototype entry's name is RecordName::<name>: switches on the
    discriminant of a `.name` place keep only that variant's edge, `x.name == RecordName::V` comparisons keep the edge
    for (V == name)"""
    from names import enum_const
    R = R or Resolver(fn)
    removed = set()
    idx = str(variants.index(name)) if name in variants else None
    for bi in fn.cfg():
        t = fn.blocks[bi]["term"]
        if t["k"] != "switch":
            continue
        dl = op_place(t["discr"])
        d = strip(R.place(dl)) if dl else None
        if d and d[0] == "discr":
            x = strip(d[1])
            if x[0] == "field" and x[2] == "name":
                e = switch_edges(fn, bi)
                keep = e.get(idx, e["otherwise"]) if idx is not None else e["otherwise"]
                removed |= {(bi, s_) for s_ in e.values() if s_ != keep}
    for bi, t in fn.calls(lambda c, t: ("RecordName as std::cmp::PartialEq>::eq" in c or "RecordName as std::cmp::PartialEq>::ne" in c)):
        v = enum_const(R.operand(t["args"][1])) or enum_const(R.operand(t["args"][0]))
        if v is None:
            continue
        for sw, tr, fa in bool_switches(fn, bi):
            is_eq = callee_of(t).endswith("::eq")
            holds = (v == name) if is_eq else (v != name)
            removed.add((sw, fa if holds else tr))
    g = cfg_without_edges(fn, removed)
    return _propagate_const_flags(fn, g)


def _propagate_const_flags(fn, g):
    """switches on a local that is only ever assigned constants (e.g. the result of `matches!`):
    keep only the edges for constants whose assignment is still reachable in the pruned graph."""
    changed = True
    g = {b: list(ss) for b, ss in g.items()}
    while changed:
        changed = False
        r = reach(g, [0])
        for bi in list(r):
            t = fn.blocks[bi]["term"]
            if t["k"] != "switch" or len(g.get(bi, [])) < 2:
                continue
            dl = op_place(t["discr"])
            if dl is None or dl["proj"]:
                continue
            n = dl["local"]
            # follow single-def copies
            for _ in range(4):
                ds = fn.whole_defs(n)
                if len(ds) == 1 and ds[0][0] == "stmt" and ds[0][1]["k"] == "use" and op_place(ds[0][1]["op"]) and not op_place(ds[0][1]["op"])["proj"]:
                    n = op_place(ds[0][1]["op"])["local"]
                else:
                    break
            ds = fn.defs().get(n, [])
            if not ds or any(d[0] != "stmt" or d[4]["proj"] or d[1]["k"] != "use" or d[1]["op"]["k"] != "const" or const_int(d[1]["op"]) is None for d in ds):
                continue
            vals = {const_int(d[1]["op"]) for d in ds if d[2] in r}
            if not vals:
                continue
            e = switch_edges(fn, bi)
            keep = set()
            for v in vals:
                keep.add(e.get(str(v), e["otherwise"]))
            new = [s_ for s_ in g[bi] if s_ in keep]
            if new != g[bi]:
                g[bi] = new
                changed = True
    return g


def _variants(prog, adt):
    return [v["name"] for v in prog.adt(adt)["variants"]]


def conversion_tables(ctx, prog, rule):
    cv = _variants(prog, "point::CartesianCoordinate")
    sv = _variants(prog, "point::SphericalCoordinate")

    def table(fn_path, target_field, a_field, a_vars, b_field, b_vars):
        f = prog.fn(fn_path)
        ctx.fn_seen(f)
        assigns = _assigned_aggs(f, "point::Point", target_field)
        out = {}
        for ai, av in enumerate(a_vars):
            for bi_, bv in enumerate(b_vars):
                g = assume_cfg(f, [(lambda s, n=a_field: leaf_name(s) == "arg1." + n, ai), (lambda s, n=b_field: leaf_name(s) == "arg1." + n, bi_)])
                r = reach(g, [0])
                hit = sorted({v for b, v, vals in assigns if b in r})
                out[(av, bv)] = hit[0] if len(hit) == 1 else ("unchanged" if not hit else "/".join(hit))
        return out
    t = table(SR + "convert_to_cartesian", "cartesian", "cartesian", cv, "spherical", sv)
    want = {}
    for a in cv:
        for b in sv:
            if a == "Valid":
                w = "unchanged"
            elif b == "Valid":
                w = "Valid"
            elif a == "Invalid" and b == "Direction":
                w = "Direction"
            else:
                w = "unchanged"
            want[(a, b)] = w
    ctx.ob(rule, "conversion-table/convert_to_cartesian", t == want, "(cartesian, spherical) -> new cartesian: %s; documented: valid spherical replaces any non-valid Cartesian, spherical direction replaces invalid Cartesian, otherwise unchanged" % {"%s,%s" % k: v for k, v in t.items()})
    t = table(SR + "convert_to_spherical", "spherical", "spherical", sv, "cartesian", cv)
    want = {}
    for a in sv:
        for b in cv:
            if a == "Valid":
                w = "unchanged"
            elif b == "Valid":
                w = "Valid"
            elif a == "Invalid" and b == "Direction":
                w = "Direction"
            else:
                w = "unchanged"
            want[(a, b)] = w
    ctx.ob(rule, "conversion-table/convert_to_spherical", t == want, "(spherical, cartesian) -> new spherical: %s" % {"%s,%s" % k: v for k, v in t.items()})
    # transform_point only touches Valid
    f = prog.fn(SR + "transform_point")
    assigns = _assigned_aggs(f, "point::Point", "cartesian")
    tt = {}
    for ai, av in enumerate(cv):
        g = assume_cfg(f, [(lambda s: leaf_name(s) == "arg1.cartesian", ai)])
        r = reach(g, [0])
        hit = sorted({v for b, v, vals in assigns if b in r})
        tt[av] = hit[0] if hit else "unchanged"
    ctx.ob(rule, "conversion-table/transform_point", tt == {"Valid": "Valid", "Direction": "unchanged", "Invalid": "unchanged"}, "pose is applied to %s" % tt)
    # convert_intensity: color None & intensity Some -> grey
    f = prog.fn(SR + "convert_intensity")
    ctx.fn_seen(f)
    R = Resolver(f)
    cols = field_assignments(f, "point::Point", "color")
    ci = {}
    for cname, cidx in (("None", 0), ("Some", 1)):
        for iname, iidx in (("None", 0), ("Some", 1)):
            # color.is_some() is a call, intensity is matched: prune on both forms
            g = _assume_option(f, {"arg1.color": cidx, "arg1.intensity": iidx})
            r = reach(g, [0])
            ci[(cname, iname)] = "grey" if any(b in r for b, si, k, p in cols) else "unchanged"
    okc = ci == {("None", "None"): "unchanged", ("None", "Some"): "grey", ("Some", "None"): "unchanged", ("Some", "Some"): "unchanged"}
    grey = False
    for b, si, k, p in cols:
        t = strip(R.rvalue(p))
        if t[0] == "agg" and t[1][2] == "Some":
            v, vals = _agg_fields(t[2][0])
            grey = bool(vals) and all(leaf_name(x) == "arg1.intensity" for x in vals.values()) and set(vals) == {"red", "green", "blue"}
    ctx.ob(rule, "conversion-table/convert_intensity", okc and grey, "(color, intensity) -> %s; grey = (i, i, i): %s" % ({"%s,%s" % k: v for k, v in ci.items()}, grey))


def _assume_option(fn, assumed):
    """prune on Option-typed places: discriminant switches and is_some()/is_none() calls."""
    R = Resolver(fn)
    removed = set()
    for bi in fn.cfg():
        t = fn.blocks[bi]["term"]
        if t["k"] == "switch":
            dl = op_place(t["discr"])
            if dl is None:
                continue
            d = strip(R.place(dl))
            if d[0] == "discr" and leaf_name(d[1]) in assumed:
                e = switch_edges(fn, bi)
                keep = e.get(str(assumed[leaf_name(d[1])]), e["otherwise"])
                removed |= {(bi, s) for s in e.values() if s != keep}
        elif t["k"] == "call" and callee_of(t).rsplit("::", 1)[-1] in ("is_some", "is_none"):
            n = leaf_name(R.operand(t["args"][0]))
            if n in assumed:
                for sw, tr, fa in bool_switches(fn, bi):
                    val = (assumed[n] == 1) if callee_of(t).endswith("is_some") else (assumed[n] == 0)
                    removed.add((sw, fa if val else tr))
    return cfg_without_edges(fn, removed)


# ----------------------------------------------------------------------------------------

def option_stage(ctx, prog, rule):
    flags = {"spherical_to_cartesian": "s2c", "cartesian_to_spherical": "c2s", "intensity_to_color": "i2c", "normalize_intensity": "ni", "normalize_color": "nc", "apply_pose": "transform"}
    n = 0
    for setter, fld in flags.items():
        f = prog.fn(PRS + setter)
        ctx.fn_seen(f)
        R = Resolver(f)
        written = {}
        for p_fld in set(flags.values()):
            for bi, si, kind, payload in field_assignments(f, "pc_reader_simple::PointCloudReaderSimple", p_fld):
                written[p_fld] = strip(R.rvalue(payload)) if kind == "stmt" else None
        all_w = [x for x in _all_self_writes(f)]
        ok = written == {fld: ("param", 2)} and all_w == [fld]
        n += 1
        ctx.ob(rule, "setter/%s" % setter, ok, "%s writes %s (must write exactly self.%s <- enable)" % (setter, {k: tree_str(v) for k, v in written.items()}, fld))
    ctx.floor(rule, "option setters", n, 6)
    # stage guards in next()
    f = prog.fn(IT)
    ctx.fn_seen(f)
    R = Resolver(f)
    stages = {"convert_to_cartesian": "s2c", "convert_to_spherical": "c2s", "convert_intensity": "i2c", "transform_point": "transform"}
    flag_sw = {}
    for bi in f.cfg():
        t = f.blocks[bi]["term"]
        if t["k"] == "switch":
            dl = op_place(t["discr"])
            d = strip(R.place(dl)) if dl else None
            sf = self_field(d) if d else None
            if sf in set(flags.values()):
                e = switch_edges(f, bi)
                flag_sw.setdefault(sf, []).append((bi, e["otherwise"], e.get("0")))
    sites = {}
    for name, flag in stages.items():
        blocks = [bi for bi, t in f.calls(lambda c, t: c == SR + name)]
        sites[name] = blocks
        ok = len(blocks) == 1
        guards = []
        if ok:
            C = blocks[0]
            for fl, sws in flag_sw.items():
                for sw, tr, fa in sws:
                    g = cfg_without_edges(f, [(sw, tr)])
                    if C not in reach(g, [0]):
                        guards.append(fl)
        ok = ok and guards == [flag]
        if ok:
            # ... and on nothing else: once the flag is set, no other test can skip the stage (for a whole buffer:
            # the stage's loop is always entered; inside a fused per-point loop: the call is always made)
            C = blocks[0]
            lps = natural_loops(f)
            hc = None
            for h_, body_ in lps.items():
                if C in body_ and (hc is None or len(body_) < len(lps[hc])):
                    hc = h_
            rets = set(f.return_blocks())
            for sw, tr, fa in flag_sw.get(flag, []):
                if hc is not None and sw in lps[hc]:
                    target, sinks = {C}, rets | {hc}
                elif hc is not None:
                    target, sinks = {hc}, rets
                else:
                    target, sinks = {C}, rets
                skip = find_path(f.cfg(), [tr], sinks, target) if tr not in target else None
                if skip is not None:
                    ok = False
                    guards = guards + ["<another condition: path %s avoids the stage>" % "->".join("bb%d" % b for b in skip[:8])]
        ctx.ob(rule, "stage-guard/%s" % name, ok, "%s is control-dependent on the flags %s (must be exactly [%s])" % (name, guards, flag), where=f.file_line(blocks[0]) if blocks else None)
    # per-point order: both coordinate conversions precede the pose.  Sites in different loops are
    # ordered by reachability; sites inside one (fused) loop by paths that avoid the loop header.
    loops = natural_loops(f)
    for a, b in (("convert_to_cartesian", "transform_point"), ("convert_to_spherical", "transform_point")):
        A, B = sites.get(a, []), sites.get(b, [])
        fwd = back = False
        if A and B:
            common = [h for h, body in loops.items() if A[0] in body and B[0] in body]
            avoid = set()
            if common:
                avoid = {min(common, key=lambda h: len(loops[h]))}
            fwd = find_path(f.cfg(), f.cfg().get(A[0], []), set(B), avoid) is not None
            back = find_path(f.cfg(), f.cfg().get(B[0], []), set(A), avoid) is not None
        ctx.ob(rule, "stage-order/%s<%s" % (a, b), fwd and not back, "%s runs before %s for each point (forward path %s, reverse path %s): the pose must not leak into derived coordinates" % (a, b, fwd, back))
    # normalisation flags are the `enabled` argument of normalize_value for the right channel
    pp = prog.fn(PRS + "pop_point")
    ctx.fn_seen(pp)
    Rp = Resolver(pp)
    uses = {}
    for bi, t in pp.calls(lambda c, t: c == PRS + "normalize_value"):
        en = self_field(Rp.operand(t["args"][1]))
        rng = self_field(Rp.operand(t["args"][3]))
        uses.setdefault((en, rng), 0)
        uses[(en, rng)] += 1
    want = {("nc", "red_range"): 1, ("nc", "green_range"): 1, ("nc", "blue_range"): 1, ("ni", "intensity_range"): 1}
    ctx.ob(rule, "normalisation-switches/pop_point", uses == want, "normalize_value(enabled, value, range) call sites: %s" % {"%s,%s" % k: v for k, v in uses.items()})


def _all_self_writes(f):
    out = []
    for n, ds in f.defs().items():
        for kind, payload, bi, si, place in ds:
            if place["proj"] and place["local"] == 1:
                out.append(".".join(fields_of(place)))
    return out


def indices_wiring(ctx, prog, rule):
    f = prog.fn(PRS + "prepare_indices")
    ctx.fn_seen(f)
    R = Resolver(f)
    ret = strip(R.local(0))
    v, vals = _agg_fields(ret)

    def rec_of(t):
        """RecordName variant passed to the `fi` closure"""
        t = strip(t)
        if t[0] == "call" and len(t[2]) >= 2:
            a = strip(t[2][1])
            if a[0] == "agg" and a[1][0] == "tuple" and a[2]:
                a = strip(a[2][0])
            if a[0] == "agg" and a[1][0] == "adt" and a[1][1] == "record::RecordName":
                return a[1][2]
        return None

    def triple(t):
        t = strip(t)
        alts = t[1] if t[0] == "phi" else (t,)
        for a in alts:
            a = strip(a)
            if a[0] == "agg" and a[1][0] == "adt" and a[1][2] == "Some":
                tup = strip(a[2][0])
                if tup[0] == "agg" and tup[1][0] == "tuple":
                    return tuple(rec_of(x[1]) if strip(x)[0] == "ok" else rec_of(x) for x in (strip_ok(y) for y in tup[2]))
        return None

    def strip_ok(t):
        return t
    got = {}
    for k, t in vals.items():
        if k in ("cartesian", "spherical", "color"):
            tr = triple(t)
            got[k] = tr
        else:
            got[k] = rec_of(t)
    # resolve 'ok(call)' wrappers in triples
    want = {"cartesian": ("CartesianX", "CartesianY", "CartesianZ"), "cartesian_invalid": "CartesianInvalidState",
            "spherical": ("SphericalRange", "SphericalAzimuth", "SphericalElevation"), "spherical_invalid": "SphericalInvalidState",
            "color": ("ColorRed", "ColorGreen", "ColorBlue"), "color_invalid": "IsColorInvalid",
            "intensity": "Intensity", "intensity_invalid": "IsIntensityInvalid", "row": "RowIndex", "column": "ColumnIndex"}
    ctx.ob(rule, "indices/prepare_indices", got == want, "Indices fields <- record names: %s" % got)
    lookup_by_position(ctx, prog, rule)


def lookup_by_position(ctx, prog, rule):
    """the indices used to read a point's values are positions in the *whole* prototype (values are stored in prototype
    order, extension attributes included): position() runs directly over pc.prototype.iter(), not over a filtered or
    shifted view of it"""
    f = prog.fn(PRS + "prepare_indices")
    ctx.fn_seen(f)
    okc, desc, n = True, [], 0
    for g in [f] + list(prog.closures_of(f)):
        Rc = Resolver(g)
        for bi, t in g.calls(lambda c, t: c.endswith("::position") or c.endswith("::rposition")):
            n += 1
            recv = Rc.operand(t["args"][0])
            x = recv
            adapters = []
            for _ in range(8):
                if x[0] == "call" and x[2] and x[1].rsplit("::", 1)[-1] in ("iter", "into_iter", "deref", "as_slice", "as_ref", "borrow", "by_ref", "copied", "cloned"):
                    x = x[2][0]
                    continue
                if x[0] == "call" and x[2] and "Iterator" in x[1]:
                    adapters.append(x[1].rsplit("::", 1)[-1])
                    x = x[2][0]
                    continue
                break
            xs = strip(x)
            whole = xs[0] == "field" and xs[2] == "prototype"
            desc.append("%s over %s%s" % (short(callee_of(t)), tree_str(strip_deep(xs))[:60], (" through " + ",".join(adapters)) if adapters else ""))
            okc = okc and whole and not adapters and callee_of(t).endswith("::position")
    ctx.ob(rule, "indices/lookup-by-position", okc and n >= 1, "indices are positions in the whole pc.prototype: %s" % desc)


def pop_point_tables(ctx, prog, rule):
    f = prog.fn(PRS + "pop_point")
    ctx.fn_seen(f)
    R = Resolver(f)
    # final Point aggregate
    pt = None
    for bi, si, cls, payload in f.ret_assignments():
        if cls == "ok":
            v = strip(R.rvalue(payload))[2][0]
            _, pt = _agg_fields(v)
    ctx.ob(rule, "point-built/pop_point", bool(pt), "pop_point returns Ok(Point{..})", nontrivial=False)
    if not pt:
        return
    # value access pattern: values[idx].to_f64(&proto[idx].data_type) with the same idx
    def val_idx(t):
        t = strip(t)
        if t[0] == "call" and t[1].rsplit("::", 1)[-1] in ("to_f64", "to_i64"):
            v, dt = strip(t[2][0]), strip(t[2][1])
            iv = _index_name(v)
            idt = _index_name(dt[1]) if dt[0] == "field" and dt[2] == "data_type" else None
            if iv is not None and iv == idt:
                return iv, t[1].rsplit("::", 1)[-1]
        if t[0] == "call" and t[1] == PRS + "normalize_value":
            return val_idx(t[2][2])
        return None, None

    def _index_name(t):
        t = strip(t)
        if t[0] == "call" and t[1].endswith("::index"):
            return leaf_name(t[2][1])
        if t[0] == "index":
            return leaf_name(t[2])
        return None
    # cartesian / spherical / colour component wiring
    def comp_table(tree, enum_field):
        alts = tree[1] if tree[0] == "phi" else (tree,)
        out = {}
        for a in alts:
            v, vals = _agg_fields(a)
            if v is None:
                continue
            inner = vals
            if v == "Some" and not vals:
                pass
            out[v] = {k: val_idx(x)[0] for k, x in inner.items()}
        return out
    I = "arg1.indices."
    ct = comp_table(strip(pt["cartesian"]), "cartesian")
    wantc = {"Valid": {"x": I + "cartesian.0", "y": I + "cartesian.1", "z": I + "cartesian.2"},
             "Direction": {"x": I + "cartesian.0", "y": I + "cartesian.1", "z": I + "cartesian.2"}, "Invalid": {}}
    ctx.ob(rule, "wiring/cartesian", ct == wantc, "cartesian components read from %s" % ct)
    st = comp_table(strip(pt["spherical"]), "spherical")
    wants = {"Valid": {"range": I + "spherical.0", "azimuth": I + "spherical.1", "elevation": I + "spherical.2"},
             "Direction": {"azimuth": I + "spherical.1", "elevation": I + "spherical.2"}, "Invalid": {}}
    ctx.ob(rule, "wiring/spherical", st == wants, "spherical components read from %s" % st)
    col = strip(pt["color"])
    alts = col[1] if col[0] == "phi" else (col,)
    cw = None
    for a in alts:
        a = strip(a)
        if a[0] == "agg" and a[1][2] == "Some":
            _, vals = _agg_fields(a[2][0])
            cw = {k: val_idx(x)[0] for k, x in vals.items()}
    wantcol = {"red": I + "color.0", "green": I + "color.1", "blue": I + "color.2"}
    ctx.ob(rule, "wiring/color", cw == wantcol, "colour channels read from %s" % cw)
    # decision tables of the four state attributes and defaults
    specs = [
        ("cartesian", "cartesian_invalid", "cartesian", {0: "Valid", 1: "Direction", 2: "Invalid"}, (0, 2)),
        ("spherical", "spherical_invalid", "spherical", {0: "Valid", 1: "Direction", 2: "Invalid"}, (0, 2)),
        ("color", "color_invalid", "color", {0: "Some", 1: "None"}, (0, 1)),
        ("intensity", "intensity_invalid", "intensity", {0: "Some", 1: "None"}, (0, 1)),
    ]
    for name, inv_field, data_field, want, defaults in specs:
        tab, dflt, err = _state_table(f, R, inv_field, data_field)
        ctx.ob(rule, "state-table/%s" % name, tab == want and err,
               "stored %s state -> %s; any other value -> error: %s (documented: %s)" % (name, tab, err, want))
        ctx.ob(rule, "state-default/%s" % name, dflt == {"present": defaults[0], "absent": defaults[1]},
               "state when the attribute %s is absent: %s (documented: data present -> %d, data absent -> %d)" % (inv_field, dflt, defaults[0], defaults[1]))
    # row / column defaults
    for k in ("row", "column"):
        t = strip(pt[k])
        alts = t[1] if t[0] == "phi" else (t,)
        consts = sorted(c for c in (const_signed_tree(a) for a in alts) if c is not None)
        reads = [val_idx(a) for a in alts if val_idx(a)[0]]
        ok = consts == [-1] and reads == [(I + k, "to_i64")]
        ctx.ob(rule, "default/%s" % k, ok, "%s <- %s or constant %s (must be values[indices.%s] as i64, default -1)" % (k, reads, consts, k))
    it = strip(pt["intensity"])


def const_signed_tree(t):
    t = strip(t)
    if t[0] == "const" and isinstance(t[2], int):
        v = t[2]
        if t[1] == "i64" and v >= 1 << 63:
            v -= 1 << 64
        return v
    return None


def _state_table(f, R, inv_field, data_field):
    """decision table of one invalid-state attribute, however it is spelled (an `==` chain, a `match` on the value, a
    helper returning the state).  returns (state value -> variant built, defaults {present, absent}, unknown values
    are rejected)."""
    I = "arg1.indices."
    # switches that test the state: the tested value reads values[indices.<inv_field>] through to_i64
    tests = []
    for bi in f.cfg():
        te = int_test_edges(f, R, bi)
        if te is None:
            continue
        val, cases, others = te
        names = tree_str_names(val).split()
        if (I + inv_field) in names and any(x[0] == "call" and x[1].endswith("to_i64") for x in leaves(val)):
            tests.append((bi, val, cases, others))
    if not tests:
        return {}, {}, False
    tab = {}
    test_blocks = {bi for bi, _, _, _ in tests}
    for bi, val, cases, others in tests:
        for k, succ in cases.items():
            if k >= 1 << 63:
                k -= 1 << 64
            rest = [s_ for kk, s_ in cases.items() if s_ != succ] + [o for o in others if o != succ]
            tab[k] = _first_variant(f, succ, rest)
    # values outside the table: the `others` edges that do not continue with another test of the state
    terminal = []
    for bi, val, cases, others in tests:
        # a test that is reached only through *case* edges of an earlier test of the same state (`(Some(_), s @ (0 | 1)) =>
        # if s == 0 {..} else {..}`) sees a finite set of values: its otherwise-edge stands for the rest of that set, not
        # for values outside the table
        bounded = False
        for bj, valj, casesj, othersj in tests:
            if bj == bi or not f.dominates(bj, bi):
                continue
            if not any(bi in reach(f.cfg(), [o]) for o in othersj) and any(bi in reach(f.cfg(), [s_]) for s_ in casesj.values()):
                bounded = True
        if bounded:
            continue
        for o in others:
            if not any(tb in reach(f.cfg(), [o]) for tb in test_blocks if tb != bi and f.dominates(bi, tb)):
                terminal.append(o)
    err = bool(terminal) and all(f.ok_reachable(start=[o]) is None for o in terminal)
    # defaults: constants that flow into the tested value, under attribute absent and data present / absent
    discr_locals = {op_place(f.blocks[bi]["term"]["discr"])["local"] for bi in test_blocks}
    dflt = {}
    for n_, ds in f.defs().items():
        for kind, payload, bi, si, place in ds:
            if kind != "stmt" or place["proj"] or bi not in f.cfg():
                continue
            c = None
            if payload["k"] == "use":
                c = const_signed_tree(R.rvalue(payload))
            elif is_variant_agg(payload, "result::Result", "Ok") and payload["ops"]:
                c = const_signed_tree(R.operand(payload["ops"][0]))
            if c is None:
                continue
            locs, _ = flows(f, n_)
            if not (locs & discr_locals):
                continue
            for present, lab in ((1, "present"), (0, "absent")):
                g = _assume_option(f, {I + inv_field: 0, I + data_field: present})
                if bi in reach(g, [0]):
                    dflt[lab] = c
    return tab, dflt, err


def tree_str_names(t):
    return " ".join(leaf_name(x) for x in leaves(t) if x[0] in ("field", "index"))


def _first_variant(f, start, other):
    """variant of the first enum aggregate (point::* or Option) built in the region reachable from
    `start` but not from `other` (one block or a list of blocks)."""
    r1 = reach(f.cfg(), [start])
    others = other if isinstance(other, (list, tuple, set)) else ([other] if other is not None else [])
    r2 = reach(f.cfg(), list(others)) if others else set()
    region = [b for b in sorted(r1 - r2)]
    # walk in BFS order from start inside the exclusive region
    order = []
    seen = set()
    q = [start]
    while q:
        b = q.pop(0)
        if b in seen or b not in r1 or b in r2:
            continue
        seen.add(b)
        order.append(b)
        q.extend(f.cfg().get(b, []))
    for b in order:
        for st in f.blocks[b]["stmts"]:
            rv = st["rv"]
            if rv["k"] == "aggregate" and rv["kind"].get("agg") == "adt":
                adt = rv["kind"]["adt"]
                if adt in ("point::CartesianCoordinate", "point::SphericalCoordinate") or adt.endswith("option::Option"):
                    return rv["kind"]["variant"]
    return None
