"""Per-path value summaries of a loop body (A11).

For a natural loop with header h the acyclic paths h -> .. -> h (one trip around the loop) are enumerated and every
path is walked statement by statement, building for each assigned local an expression over the values the locals had
at the loop header (`('in', n)`), constants and operators.  The switch decisions taken on the way are recorded as the
path condition.  No solver is involved: the results are compared with the expected per-iteration transfer function by
tree matching, which makes rules about small numeric kernels (one CRC round) independent of whether the kernel mutates
a local in place, threads a value through a fold closure or builds it functionally.

Expressions: ('c', value) | ('in', local) | (binop, a, b) | ('Not', a) | ('cast', ty, a) | ('field', a, idx)
             | ('tuple', (..)) | ('call', callee, (args..)) | ('unk', why)"""
from mirlib import *


def back_paths(fn, header, body, max_paths=64):
    """acyclic block paths that start at the header, stay inside the loop body and end with an edge back to it"""
    g = fn.cfg()
    out = []
    stack = [(header, [header])]
    while stack:
        b, path = stack.pop()
        for s in g.get(b, []):
            if s == header:
                out.append(path)
                if len(out) > max_paths:
                    return None
            elif s in body and s not in path:
                stack.append((s, path + [s]))
    return out


class Walk:
    def __init__(self, fn):
        self.fn = fn
        self.env = {}
        self.conds = []

    def place(self, pl):
        n = pl["local"]
        v = self.env.get(n, ("in", n))
        for e in pl["proj"]:
            k = e["k"]
            if k == "deref":
                continue
            if k == "field":
                if v[0] == "tuple" and e["idx"] < len(v[1]):
                    v = v[1][e["idx"]]
                elif v[0] in ("AddWithOverflow", "SubWithOverflow", "MulWithOverflow") and e["idx"] == 0:
                    v = (v[0][:-len("WithOverflow")], v[1], v[2])
                else:
                    v = ("field", v, e["idx"])
            elif k == "downcast":
                v = ("variant", v, e["variant"])
            else:
                v = ("unk", "projection %s" % k)
        return v

    def op(self, o):
        if o["k"] == "const":
            if "bits" in o:
                return ("c", int(o["bits"]))
            return ("unk", "const %s" % o.get("dbg"))
        return self.place(o["place"])

    def rvalue(self, rv):
        k = rv["k"]
        if k == "use":
            return self.op(rv["op"])
        if k == "binop":
            return (rv["op"], self.op(rv["a"]), self.op(rv["b"]))
        if k == "cast":
            return ("cast", rv.get("ty", ""), self.op(rv["a"]))
        if k == "unop":
            return (rv["op"], self.op(rv["a"]))
        if k == "ref":
            return self.place(rv["place"])
        if k == "aggregate" and rv["kind"].get("agg") in ("tuple", "closure"):
            return ("tuple", tuple(self.op(o) for o in rv["ops"]))
        if k == "discr":
            return ("discr", self.place(rv["place"]))
        return ("unk", k)

    def run(self, path, header):
        fn = self.fn
        for i, b in enumerate(path):
            blk = fn.blocks[b]
            for st in blk["stmts"]:
                if st["place"]["proj"]:
                    continue                                  # stores into aggregates are not tracked
                self.env[st["place"]["local"]] = self.rvalue(st["rv"])
            t = blk["term"]
            nxt = path[i + 1] if i + 1 < len(path) else header
            if t["k"] == "call" and not t["dest"]["proj"]:
                self.env[t["dest"]["local"]] = ("call", callee_of(t), tuple(self.op(a) for a in t["args"]))
            elif t["k"] == "switch":
                d = self.op(t["discr"])
                taken = None
                for v, tb in t["targets"]:
                    if tb == nxt:
                        taken = int(v) if str(v).lstrip("-").isdigit() else v
                self.conds.append((d, taken, [int(v) for v, _ in t["targets"] if str(v).lstrip("-").isdigit()]))
        return self


def strip_cast(e):
    while e[0] == "cast":
        e = e[2]
    return e


def tstr(e):
    if not isinstance(e, tuple):
        return str(e)
    if e[0] == "c":
        return str(e[1])
    if e[0] == "in":
        return "_%d" % e[1]
    return "%s(%s)" % (e[0], ", ".join(tstr(x) for x in e[1:]))
