"""Point-cloud section protocol rules of the writer and the raw reader (C01; reused by C02/C09)."""
from mirlib import *
from proto import *
from cache_rules import strip_casts, const_val

PCW = "pc_writer::PointCloudWriter::<'a, T>::"
PPOS = "paged_writer::PagedWriter::<T>::physical_position"
PSEEK = "paged_writer::PagedWriter::<T>::physical_seek"
CVW = "cv_section::CompressedVectorSectionHeader::write"
WBTD = PCW + "write_buffer_to_disk"
ALIGN = "paged_writer::PagedWriter::<T>::align"


def data_offset_provenance(ctx, prog, rule):
    f = prog.fn(PCW + "new")
    ctx.fn_seen(f)
    R = Resolver(f)
    hw = [bi for bi, t in f.calls(lambda c, t: c == CVW)]
    ctx.ob(rule, "section-header-write/PointCloudWriter::new", len(hw) == 1, "%d preliminary section header writes" % len(hw), nontrivial=False)
    if len(hw) != 1:
        return
    W = hw[0]
    br = branch_of_call(f, W)
    ctx.ob(rule, "section-header-write-checked/PointCloudWriter::new", br is not None, "the preliminary header write is followed by ?", where=f.file_line(W))
    # data_offset store
    das = field_assignments(f, "cv_section::CompressedVectorSectionHeader", "data_offset")
    ctx.ob(rule, "data-offset-store/PointCloudWriter::new", len(das) == 1, "%d assignments to section_header.data_offset" % len(das), nontrivial=False)
    for bi, si, kind, payload in das:
        t = strip(R.rvalue(payload)) if kind == "stmt" else strip(R._call(payload, bi, 0, frozenset()))
        is_pos = t[0] == "call" and t[1] == PPOS
        after = is_pos and br is not None and f.dominates(W, t[3]) and (br[1] is None or f.dominates(br[1], t[3]) or br[1] == t[3])
        ctx.ob(rule, "data-offset-provenance/PointCloudWriter::new", is_pos and after,
               "section_header.data_offset <- %s; must be the value of physical_position() taken after the header write succeeded (never section_offset + constant: the header may straddle a page checksum)" % tree_str(strip_deep(t)),
               where=f.file_line(bi, si if isinstance(si, int) and si < len(f.blocks[bi]["stmts"]) else None))
    # section_offset: physical_position before the header write, stored in the struct
    ok_so = False
    desc = "?"
    for bi in f.cfg():
        for si, st in enumerate(f.blocks[bi]["stmts"]):
            rv = st["rv"]
            if is_variant_agg(rv, "pc_writer::PointCloudWriter", "PointCloudWriter"):
                vals = dict(zip(rv["kind"]["fields"], rv["ops"]))
                t = strip(R.operand(vals["section_offset"]))
                desc = tree_str(t)
                ok_so = t[0] == "call" and t[1] == PPOS and f.dominates(t[3], W) and t[3] != W
                hdr = strip(R.operand(vals["section_header"]))
    ctx.ob(rule, "section-offset-provenance/PointCloudWriter::new", ok_so, "section_offset <- %s; must be physical_position() taken before the header is written" % desc)
    # the preliminary length is the header size
    sl = field_assignments(f, "cv_section::CompressedVectorSectionHeader", "section_length")
    okl = len(sl) == 1 and sl[0][2] == "stmt" and const_val(R.rvalue(sl[0][3])) == 32 and f.dominates(sl[0][0], W)
    ctx.ob(rule, "initial-section-length/PointCloudWriter::new", okl, "section_length starts as the constant header size 32 before the header write")


def finalize_protocol(ctx, prog, rule):
    f = prog.fn(PCW + "finalize")
    S = Steps(ctx, f, rule)
    R = Resolver(f)
    S.step("drain-buffer", calls_where(f, lambda c, t, R: c == WBTD and const_val(R.operand(t["args"][1])) == 0), what="write_buffer_to_disk(false)")
    S.step("last-flush", calls_where(f, lambda c, t, R: c == WBTD and const_val(R.operand(t["args"][1])) == 1), what="write_buffer_to_disk(true)")
    S.step("end-position", calls_where(f, lambda c, t, R: c == PPOS))
    S.step("seek-section-start", calls_where(f, lambda c, t, R: c == PSEEK and self_field(R.operand(t["args"][1])) == "section_offset"))
    S.step("header-write", calls_where(f, lambda c, t, R: c == CVW and self_field(R.operand(t["args"][0])) == "section_header"))
    endpos = S.steps.get("end-position", [])

    def seek_end(c, t, R):
        if c != PSEEK:
            return False
        a = strip(R.operand(t["args"][1]))
        return a[0] == "call" and a[1] == PPOS and a[3] in endpos
    S.step("seek-end", calls_where(f, seek_end))
    S.step("publish", calls_where(f, lambda c, t, R: c.endswith("Vec::<T, A>::push") and self_field(R.operand(t["args"][0])) == "pointclouds"))
    for n in ("last-flush", "end-position", "seek-section-start", "header-write", "seek-end", "publish"):
        S.must_pass(n)
    for a, b in (("last-flush", "end-position"), ("end-position", "seek-section-start"), ("seek-section-start", "header-write"), ("header-write", "seek-end"), ("seek-end", "publish")):
        S.before(a, b)
    # the drain loop: is_empty() guards the exit: the last flush is reachable only via the `empty` edge
    loops = natural_loops(f)
    drains = S.steps.get("drain-buffer", [])
    in_loop = bool(drains) and any(drains[0] in body for body in loops.values())
    guard_ok = False
    for bi, t in f.calls(lambda c, t: c.endswith("VecDeque::<T, A>::is_empty")):
        if self_field(R.operand(t["args"][0])) != "buffer":
            continue
        be = bool_edges(f, bi)
        if be:
            sw, tr, fa = be
            g = cfg_without_edges(f, [(sw, tr)])
            lf = S.steps.get("last-flush", [])
            guard_ok = bool(lf) and all(b not in reach(g, [0]) for b in lf)
    ctx.ob(rule, "drain-until-empty/%s" % short(f.path), in_loop and guard_ok,
           "write_buffer_to_disk(false) is looped (%s) and the last flush is reachable only through buffer.is_empty() == true (%s)" % (in_loop, guard_ok))
    # descriptor fields
    found = False
    for bi in f.cfg():
        for si, st in enumerate(f.blocks[bi]["stmts"]):
            rv = st["rv"]
            if not is_variant_agg(rv, "pointcloud::PointCloud", "PointCloud"):
                continue
            found = True
            vals = {n: strip(R.operand(o)) for n, o in zip(rv["kind"]["fields"], rv["ops"])}
            want = {"records": "point_count", "file_offset": "section_offset", "prototype": "prototype"}
            for k, src in want.items():
                v = vals.get(k)
                ok = v is not None and self_field(v) == src
                ctx.ob(rule, "descriptor/%s" % k, ok, "PointCloud.%s <- %s (must be self.%s)" % (k, tree_str(v), src), where=f.file_line(bi, si))
            g = vals.get("guid")
            okg = g is not None and g[0] == "agg" and g[1][2] == "Some" and self_field(g[2][0]) == "guid"
            ctx.ob(rule, "descriptor/guid", okg, "PointCloud.guid <- %s" % tree_str(g), where=f.file_line(bi, si))
            # every Option metadata field is taken from the writer field of the same name
            n_meta = 0
            for k, v in vals.items():
                if k in want or k == "guid":
                    continue
                n_meta += 1
                ok = v[0] == "call" and v[1].endswith("Option::<T>::take") and self_field(v[2][0]) == k
                ctx.ob(rule, "descriptor/%s" % k, ok, "PointCloud.%s <- %s (must be self.%s.take())" % (k, tree_str(v), k), where=f.file_line(bi, si))
            ctx.floor(rule, "metadata fields moved into the descriptor", n_meta, 20)
    ctx.ob(rule, "descriptor-built/%s" % short(f.path), found, "finalize builds the PointCloud descriptor", nontrivial=False)


def accept_once(ctx, prog, rule):
    f = prog.fn(PCW + "add_point")
    S = Steps(ctx, f, rule)
    R = Resolver(f)
    S.step("store", calls_where(f, lambda c, t, R: c.endswith("VecDeque::<T, A>::push_back") and self_field(R.operand(t["args"][0])) == "buffer" and strip(R.operand(t["args"][1])) == ("param", 2)),
           what="self.buffer.push_back(values)")
    S.must_pass("store")
    ctx.ob(rule, "store-once/%s" % short(f.path), len(S.steps["store"]) == 1 and not any(S.steps["store"][0] in body for body in natural_loops(f).values()),
           "exactly one push_back of the point, outside any loop")
    pcs = field_assignments(f, "pc_writer::PointCloudWriter", "point_count")
    okc = len(pcs) == 1
    if okc:
        bi, si, kind, payload = pcs[0]
        t = strip(R.rvalue(payload)) if kind == "stmt" else None
        okc = t is not None and t[0] == "binop" and t[1] == "Add" and self_field(t[2]) == "point_count" and const_val(t[3]) == 1
        okc = okc and f.ok_reachable(removed=[bi]) is None and not any(bi in body for body in natural_loops(f).values())
    ctx.ob(rule, "count-once/%s" % short(f.path), okc, "point_count += 1 exactly once on every successful path, outside any loop")
    # flush when the buffer is full: write_buffer_to_disk(false) guarded by len >= max_points_per_packet
    fl = calls_where(f, lambda c, t, R: c == WBTD)
    okf = False
    for bi in f.cfg():
        t = f.blocks[bi]["term"]
        if t["k"] != "switch":
            continue
        dl = op_place(t["discr"])
        d = strip(R.place(dl)) if dl else None
        if d and d[0] == "binop" and d[1] in ("Ge", "Gt", "Le", "Lt"):
            a, b = strip(d[2]), strip(d[3])
            names = {self_field(b), self_field(a)}
            if "max_points_per_packet" in names and any(x[0] == "call" and x[1].endswith("::len") for x in (a, b)):
                okf = bool(fl) and all(f.dominates(bi, x) for x in fl)
    ctx.ob(rule, "flush-when-full/%s" % short(f.path), okf, "write_buffer_to_disk(false) is called under the buffer.len() vs max_points_per_packet test")


def packet_rules(ctx, prog, rule_pair, rule_len, rule_align):
    f = prog.fn(WBTD)
    ctx.fn_seen(f)
    R = Resolver(f)
    # R4 announce/drain pairing on last_flush (param 2)
    def arms(call_true, call_false):
        """find switches on last_flush whose non-zero edge leads to call_true and zero edge to call_false"""
        out = []
        for bi in f.cfg():
            t = f.blocks[bi]["term"]
            if t["k"] != "switch":
                continue
            dl = op_place(t["discr"])
            d = strip(R.place(dl)) if dl else None
            if d != ("param", 2):
                continue
            e = switch_edges(f, bi)
            tb, fb = e["otherwise"], e.get("0")

            def first_call(b):
                seen = 0
                while b is not None and seen < 4:
                    tt = f.blocks[b]["term"]
                    if tt["k"] == "call":
                        return callee_of(tt), b
                    if tt["k"] == "goto":
                        b = tt["target"]
                        seen += 1
                        continue
                    return None, b
                return None, b
            out.append((bi, first_call(tb)[0], first_call(fb)[0]))
        return out
    sw = arms(None, None)
    pairs = {(short(a or ""), short(b or "")) for _, a, b in sw}
    # the same selection inside a closure built here (`.map(|bs| if last_flush { bs.all_bytes() } else { .. })`): the
    # closure captures last_flush
    import panic_rules
    cctx = panic_rules.closure_context(prog)
    for cp, (owner, ops, recv) in cctx.items():
        if owner.path != f.path or cp not in prog.fns:
            continue
        g = prog.fns[cp]
        Rg = Resolver(g)
        for bi in g.cfg():
            t = g.blocks[bi]["term"]
            if t["k"] != "switch":
                continue
            dl = op_place(t["discr"])
            if dl is None:
                continue
            _, d = panic_rules.translate_closure_tree(prog, g, Rg.place(dl))
            if strip(d) != ("param", 2):
                continue
            e = switch_edges(g, bi)

            def first_call_g(b):
                for _ in range(4):
                    if b is None:
                        return None
                    tt = g.blocks[b]["term"]
                    if tt["k"] == "call":
                        return callee_of(tt)
                    if tt["k"] != "goto":
                        return None
                    b = tt["target"]
                return None
            pairs.add((short(first_call_g(e["otherwise"]) or ""), short(first_call_g(e.get("0")) or "")))
    want = {("ByteStreamWriteBuffer::all_bytes", "ByteStreamWriteBuffer::full_bytes"), ("ByteStreamWriteBuffer::get_all_bytes", "ByteStreamWriteBuffer::get_full_bytes")}
    ctx.ob(rule_pair, "announce-drain-pairing/%s" % short(f.path), pairs == want,
           "selections on last_flush (true-arm, false-arm): %s; announced size and drained bytes must both be (all, full)" % sorted(pairs))
    # both selections inside loops over self.byte_streams
    # R5 length accounting
    hdr = None
    for bi in f.cfg():
        for si, st in enumerate(f.blocks[bi]["stmts"]):
            if is_variant_agg(st["rv"], "packet::DataPacketHeader", "DataPacketHeader"):
                hdr = (bi, si, st["rv"])
    ctx.ob(rule_len, "packet-header-built/%s" % short(f.path), hdr is not None, "write_buffer_to_disk builds a DataPacketHeader", nontrivial=False)
    if hdr:
        bi, si, rv = hdr
        vals = {n: strip_casts(R.operand(o)) for n, o in zip(rv["kind"]["fields"], rv["ops"])}
        pl = vals["packet_length"]
        # section_length += packet_length (same value)
        sl = field_assignments(f, "cv_section::CompressedVectorSectionHeader", "section_length")
        oks = False
        for b2, s2, kind, payload in sl:
            t = strip(R.rvalue(payload)) if kind == "stmt" else None
            if t and t[0] == "binop" and t[1] == "Add":
                oks = strip_casts(t[3]) == pl and self_field(t[2]) == "section_header.section_length" and (f.dominates(b2, bi) or b2 == bi)
        ctx.ob(rule_len, "section-length-accounting/%s" % short(f.path), oks and len(sl) == 1,
               "section_header.section_length += <the packet_length written into the packet header> (%d updates)" % len(sl), where=f.file_line(bi, si))
        bc = vals["bytestream_count"]
        okb = bc[0] == "call" and bc[1].endswith("::len") and self_field(bc[2][0]) == "prototype"
        ctx.ob(rule_len, "bytestream-count/%s" % short(f.path), okb, "bytestream_count <- %s (must be prototype.len())" % tree_str(bc), where=f.file_line(bi, si))
        # packet length = header(6) + 2*proto_len + sum of sizes, rounded up to 4
        txt = tree_str(strip_deep(pl))
        comps = leaves(pl)
        has6 = any(const_val(x) == 6 for x in comps if x[0] == "const")
        has2n = any(x[0] == "binop" and x[1] == "Mul" and 2 in (const_val(x[2]), const_val(x[3])) for x in comps)
        round4 = round_up_base(pl, 4) is not None
        ctx.ob(rule_len, "packet-length-formula/%s" % short(f.path), has6 and has2n and round4,
               "packet_length = %s ; needs header size 6, 2 bytes per stream, the stream sizes, and rounding up to a multiple of 4" % txt[:300], where=f.file_line(bi, si))
        # guard: packet_length > u16::MAX -> error dominates header write
        okg = False
        for b3 in f.cfg():
            t3 = f.blocks[b3]["term"]
            if t3["k"] != "switch":
                continue
            dl = op_place(t3["discr"])
            d = strip(R.place(dl)) if dl else None
            if d and d[0] == "binop" and d[1] in ("Gt", "Ge", "Lt", "Le") and (65535 in (const_val(d[2]), const_val(d[3])) or 65536 in (const_val(d[2]), const_val(d[3]))):
                okg = f.dominates(b3, bi)
        ctx.ob(rule_len, "packet-length-cap/%s" % short(f.path), okg, "the u16 packet length limit is tested before the header is written")
    # sizes announced: one u16 per byte stream, written little endian, before the payload
    S = Steps(ctx, f, rule_len)
    S.step("packet-header", calls_where(f, lambda c, t, R: c == "packet::DataPacketHeader::write"))
    S.step("size-table", calls_where(f, lambda c, t, R: c.endswith("Write::write_all") and contains_call(R.operand(t["args"][1]), "to_le_bytes")))
    S.step("payload", calls_where(f, lambda c, t, R: c.endswith("Write::write_all") and (contains_call(R.operand(t["args"][1]), "get_all_bytes") or contains_call(R.operand(t["args"][1]), "get_full_bytes"))))
    S.precedes_only("packet-header", "size-table")
    S.precedes_only("size-table", "payload")
    # R6 align on every Ok path
    S6 = Steps(ctx, f, rule_align)
    S6.step("align", calls_where(f, lambda c, t, R: c == ALIGN))
    S6.must_pass("align")


def round_up_base(t, m):
    """U when the tree is U rounded up to the next multiple of m (m a power of two) in one of the usual spellings:
    U.next_multiple_of(m) | U + (m - U % m) % m | if U % m != 0 { U + (m - U % m) } else { U } | (U + m-1) / m * m |
    (U + m-1) & !(m-1);  None otherwise (in particular for U + (m - U % m), which adds m to aligned values)"""
    def sc(x):
        x = strip(x)
        while x[0] == "cast":
            x = strip(x[2])
        return x

    def is_rem(x, u):
        x = sc(x)
        return x[0] == "binop" and x[1] == "Rem" and sc(x[2]) == u and const_val(x[3]) == m

    def is_gap(x, u):
        x = sc(x)          # m - u % m
        return x[0] == "binop" and x[1] == "Sub" and const_val(x[2]) == m and is_rem(x[3], u)
    t = sc(t)
    if t[0] == "call" and t[1].endswith("next_multiple_of") and len(t[2]) == 2 and const_val(t[2][1]) == m:
        return sc(t[2][0])
    if t[0] == "binop" and t[1] == "Add":
        for u, g in ((sc(t[2]), sc(t[3])), (sc(t[3]), sc(t[2]))):
            if g[0] == "binop" and g[1] == "Rem" and const_val(g[3]) == m and is_gap(g[2], u):
                return u
    if t[0] == "phi" and len(t[1]) == 2:
        for u, other in ((sc(t[1][0]), sc(t[1][1])), (sc(t[1][1]), sc(t[1][0]))):
            if other[0] == "binop" and other[1] == "Add":
                for a, g in ((sc(other[2]), other[3]), (sc(other[3]), other[2])):
                    if a == u and is_gap(g, u):
                        return u
                    # `let mut x = U; if x % m != 0 { x += m - x % m }`: the update refers to the variable itself
                    if a[0] == "local" and is_gap(g, a):
                        return u
    if t[0] == "binop" and t[1] == "Mul" and const_val(t[3]) == m:
        q = sc(t[2])
        if q[0] == "binop" and q[1] == "Div" and const_val(q[3]) == m:
            a = sc(q[2])
            if a[0] == "binop" and a[1] == "Add" and const_val(a[3]) == m - 1:
                return sc(a[2])
    if t[0] == "binop" and t[1] == "BitAnd":
        for a, k in ((sc(t[2]), t[3]), (sc(t[3]), t[2])):
            kv = const_val(k)
            if kv is not None and (kv & (m - 1)) == 0 and ((kv >> 2) & 1) == 1 and a[0] == "binop" and a[1] == "Add" and const_val(a[3]) == m - 1:
                return sc(a[2])
    return None


def raw_reader_count(ctx, prog, rule, path="<pc_reader_raw::PointCloudReaderRaw<'_, T> as std::iter::Iterator>::next", adt="pc_reader_raw::PointCloudReaderRaw", records=("records",), yield_from=None):
    f = prog.fn(path)
    ctx.fn_seen(f)
    R = Resolver(f)
    # entry guard read >= records -> None
    guard = None
    for bi in f.cfg():
        t = f.blocks[bi]["term"]
        if t["k"] != "switch":
            continue
        dl = op_place(t["discr"])
        d = strip(R.place(dl)) if dl else None
        if d and d[0] == "binop" and d[1] in ("Ge", "Lt", "Gt", "Le"):
            a, b = self_field(d[2]), self_field(d[3])
            if a == "read" and b in (".".join(records),):
                e = switch_edges(f, bi)
                more = e.get("0") if d[1] == "Ge" else (e["otherwise"] if d[1] == "Lt" else None)
                if more is not None:
                    guard = (bi, more)
    ctx.ob(rule, "entry-guard/%s" % short(f.path), guard is not None and guard[0] == 0 or (guard is not None and f.dominates(guard[0], guard[1])),
           "next() starts with the test read >= records" if guard else "no test of read against records found")
    if guard is None:
        return
    gb, more = guard
    # every Some(Ok(..)) exit is reachable only through the `more` edge and passes exactly one read += 1
    incs = [(bi, si) for bi, si, kind, payload in field_assignments(f, adt, "read")]
    yields = []
    for bi, si, cls, payload in f.ret_assignments():
        if cls == "some":
            t = R.rvalue(payload)
            inner = t[2][0] if t[0] == "agg" and t[2] else None
            if inner is not None and inner[0] == "agg" and inner[1][0] == "adt" and inner[1][2] == "Ok":
                yields.append((bi, si))
    if not yields:
        # `Some(self.helper())`: the Ok(point) is built first and wrapped later; the yield site is where the Ok is built
        for n_, ds in f.defs().items():
            for kind, payload, bi, si, place in ds:
                if kind == "stmt" and not place["proj"] and bi in f.cfg() and is_variant_agg(payload, "result::Result", "Ok"):
                    locs, _sinks = flows(f, n_)
                    if 0 in locs:
                        yields.append((bi, si))
    ctx.ob(rule, "yield-sites/%s" % short(f.path), len(yields) >= 1, "%d Some(Ok(point)) exits, %d increments of read" % (len(yields), len(incs)), nontrivial=False)
    other = cfg_without_edges(f, [(gb, more)])
    still = reach(other, [0])
    # the increment belongs to the successful pop: under "pop_point returned Ok" every path to the return passes exactly
    # one increment, under "pop_point returned Err" none is reachable
    from simple_rules import assume_result_of_call, fn_view
    pops = [bi for bi, t in f.calls(lambda c, t: c.endswith("::pop_point"))]
    corr = None
    if len(pops) == 1 and incs:
        P = pops[0]
        g_ok = assume_result_of_call(f, P, True)
        g_err = assume_result_of_call(f, P, False)
        inc_blocks = {b for b, _ in incs}
        rets = set(f.return_blocks())
        after = f.cfg().get(P, [])
        skip_ok = find_path(g_ok, after, rets, inc_blocks)
        reach_err = reach(g_err, after)
        twice = any(find_path(g_ok, g_ok.get(b, []), {b2}, set()) for b in inc_blocks for b2 in inc_blocks)
        corr = skip_ok is None and not (inc_blocks & reach_err) and not twice
    for yb, ys in yields:
        ok1 = yb not in still
        # exactly one increment dominates the yield and lies in the same arm
        doms = [(b, s) for b, s in incs if b == yb or f.dominates(b, yb)]
        ok2 = len(doms) == 1 or bool(corr)
        ctx.ob(rule, "yield-bounded/%s" % short(f.path), ok1 and ok2,
               "Some(Ok(..)) exit: reachable only when read < records = %s; increments of read on the way = %d (must be 1)" % (ok1, len(doms)), where=f.file_line(yb, ys))
    for b, s in incs:
        t = strip(R.rvalue(f.blocks[b]["stmts"][s]["rv"]))
        ok = t[0] == "binop" and t[1] == "Add" and self_field(t[2]) == "read" and const_val(t[3]) == 1
        ctx.ob(rule, "increment-by-one/%s" % short(f.path), ok, "read <- %s" % tree_str(t), where=f.file_line(b, s))


def iter_is_plain(R, f, next_block):
    """the iterator advanced in next_block walks its collection front to back without skipping (no rev/skip/filter/..)"""
    if next_block is None or next_block < 0:
        return False
    t = f.blocks[next_block]["term"]
    tr = R.operand(t["args"][0]) if t["k"] == "call" and t["args"] else None
    if tr is None:
        return False
    bad = ("rev", "skip", "step_by", "filter", "take", "skip_while", "take_while", "chain", "cycle")
    return not any(x[0] == "call" and x[1].rsplit("::", 1)[-1] in bad for x in leaves(tr))


def pop_point_order(ctx, prog, rule):
    f = prog.fn("queue_reader::QueueReader::<'a, T>::pop_point")
    ctx.fn_seen(f)
    R = Resolver(f)
    # loop over 0..prototype.len(), pop_front of queues[i], push to output in that order
    rng = None
    for bi in f.cfg():
        for st in f.blocks[bi]["stmts"]:
            if is_variant_agg(st["rv"], "ops::Range", "Range"):
                lo, hi = (strip(R.operand(o)) for o in st["rv"]["ops"])
                rng = (const_val(lo), hi)
    ok_r = rng is not None and rng[0] == 0 and rng[1][0] == "call" and rng[1][1].endswith("::len") and self_field(rng[1][2][0]) == "pc.prototype"
    import elems
    pops_ = calls_where(f, lambda c, t, R: c.endswith("VecDeque::<T, A>::pop_front"))
    by_iteration = False
    for b in pops_:
        e_ = elems.elem_of(R.operand(f.blocks[b]["term"]["args"][0]))
        # `for queue in self.queues.iter_mut()`: every queue once, in order
        by_iteration = e_ is not None and self_field(strip(e_[0])) == "queues" and not e_[1] and e_[2][0] == "next" and iter_is_plain(R, f, e_[2][1])
    ctx.ob(rule, "pop-range/%s" % short(f.path), ok_r or by_iteration, "values are popped for i in 0..pc.prototype.len() (or by iterating self.queues in order): %s" % (rng and tree_str(rng[1])))
    pops = calls_where(f, lambda c, t, R: c.endswith("VecDeque::<T, A>::pop_front"))
    okp = False
    for b in pops:
        a = strip(R.operand(f.blocks[b]["term"]["args"][0]))
        okp = a[0] == "call" and a[1].endswith("index_mut") and self_field(a[2][0]) == "queues"
        e_ = elems.elem_of(R.operand(f.blocks[b]["term"]["args"][0]))
        okp = okp or (e_ is not None and self_field(strip(e_[0])) == "queues" and not e_[1])
    pushes = calls_where(f, lambda c, t, R: c.endswith("Vec::<T, A>::push") and strip(R.operand(t["args"][0])) == ("param", 2))
    okq = len(pushes) == 1 and len(pops) == 1 and f.dominates(pops[0], pushes[0])
    if okq:
        v = strip(R.operand(f.blocks[pushes[0]]["term"]["args"][1]))
        okq = v[0] == "call" and v[3] == pops[0]
    ctx.ob(rule, "pop-then-push/%s" % short(f.path), okp and okq, "one pop_front from queues[i] per record, pushed to the output in index order")
    clears = calls_where(f, lambda c, t, R: c.endswith("Vec::<T, A>::clear") and strip(R.operand(t["args"][0])) == ("param", 2))
    ctx.ob(rule, "output-cleared/%s" % short(f.path), len(clears) == 1 and bool(pushes) and f.dominates(clears[0], pushes[0]), "the output vector is cleared before values are pushed")


class _UnitMismatch(Exception):
    pass


def _unit(prog, t, depth=0):
    """'bytes' | 'bits' | '8' (the conversion factor) | 'n' (a plain count / unknown constant factor) of a capacity
    expression; raises _UnitMismatch when bytes and bits are added or subtracted"""
    t = strip(t)
    while t[0] == "cast":
        t = strip(t[2])
    if depth > 30:
        return "n"
    if t[0] == "const" and isinstance(t[2], int):
        return "8" if t[2] == 8 else ("n" if t[2] in (0, 1) else "bytes")
    if t[0] == "call":
        last = t[1].rsplit("::", 1)[-1].split("<")[0]
        if last in ("len",):
            return "bytes"                                  # one byte (or a fixed number of bytes) per prototype entry
        if last in ("sum", "bit_size", "integer_bits"):
            return "bits"
        if last in ("saturating_sub", "saturating_add", "wrapping_sub", "wrapping_add", "checked_sub", "checked_add", "min", "max") and len(t[2]) == 2:
            a, b = _unit(prog, t[2][0], depth + 1), _unit(prog, t[2][1], depth + 1)
            if {a, b} == {"bytes", "bits"}:
                raise _UnitMismatch("%s of %s and %s: %s" % (last, a, b, tree_str(strip_deep(t))[:120]))
            return a if a in ("bytes", "bits") else b
        return "n"
    if t[0] == "binop":
        a, b = _unit(prog, t[2], depth + 1), _unit(prog, t[3], depth + 1)
        if t[1] in ("Add", "Sub"):
            if {a, b} == {"bytes", "bits"}:
                raise _UnitMismatch("%s of %s and %s: %s" % (t[1], a, b, tree_str(strip_deep(t))[:120]))
            return a if a in ("bytes", "bits") else b
        if t[1] == "Mul":
            if "8" in (a, b):
                other = b if a == "8" else a
                return "bits" if other in ("bytes", "8") else other
            return a if a in ("bytes", "bits") else (b if b in ("bytes", "bits") else "n")
        if t[1] == "Div":
            if b == "8" and a == "bits":
                return "bytes"
            return "n" if a == b else a
    if t[0] == "phi":
        us = {_unit(prog, a, depth + 1) for a in t[1]} - {"n"}
        if us == {"bytes", "bits"}:
            raise _UnitMismatch("alternatives in bytes and in bits: %s" % tree_str(strip_deep(t))[:120])
        return us.pop() if len(us) == 1 else "n"
    return "n"


def packet_capacity_units(ctx, prog, rule):
    """get_max_packet_points divides the space of a 64 KiB packet by the size of a point: both in the same unit.  The
    expression is typed with bytes / bits (x8 converts); adding or subtracting a byte count and a bit count, or dividing
    bytes by bits, makes packets overflow for large prototypes"""
    f = prog.fn("pc_writer::get_max_packet_points")
    ctx.fn_seen(f)
    R = Resolver(f, max_depth=30)
    verdict, desc = None, "no Ok(quotient) found"
    for bi, si, cls, p in f.ret_assignments():
        if cls != "ok":
            continue
        v = strip(strip(R.rvalue(p))[2][0])
        while v[0] == "cast":
            v = strip(v[2])
        if not (v[0] == "binop" and v[1] == "Div"):
            # the same quotient as `available.checked_div(size)` matched for None / Some
            cd = [x for x in leaves(v) if x[0] == "call" and x[1].rsplit("::", 1)[-1] == "checked_div" and len(x[2]) == 2]
            if not cd:
                continue
            v = ("binop", "Div", cd[0][2][0], cd[0][2][1])
        try:
            un, ud = _unit(prog, v[2]), _unit(prog, v[3])
            okv = True if (un == ud and un in ("bits", "bytes")) else (None if "n" in (un, ud) else False)
            desc = "capacity %s / point size %s" % (un, ud)
        except _UnitMismatch as e:
            okv, desc = False, str(e)
        verdict = okv if verdict is None else (False if False in (verdict, okv) else (None if None in (verdict, okv) else True))
    ctx.ob(rule, "capacity-units/get_max_packet_points", verdict, "get_max_packet_points: %s (must be bits / bits)" % desc)
