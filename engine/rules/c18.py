"""C18 — unknown extension content never alters standard content (DESIGN §4 C18)."""
from mirlib import *
import xml_rules

TECHNIQUE = "enumeration of every element lookup of the reader from MIR (callee generics tell namespace-aware from name-only matching, the iterator chain tells children() from descendants()); edge-dominance rules for the vector-child filters; expression-tree rule for the prototype prefix lookup"
EXPLANATION = (
    "Decides, for every has_tag_name lookup reachable in the reader, whether it matches by expanded name or by local name "
    "only, and whether it searches direct children or all descendants; that point clouds and images are created only for "
    "children that are <vectorChild type=\"Structure\">; that a prototype record's namespace prefix is looked up on the "
    "record element itself for its own namespace and its name is built from that prefix and the local name; and that "
    "extensions are read from the root element's namespace declarations. On today's tree all lookups are name-only and four "
    "use descendants(): each is a listed known finding (foreign-namespace elements with standard local names can shadow "
    "standard content); any new lookup of that kind is a new violation. No reader function navigates the XML tree by position (next sibling, first child, n-th child), so a foreign element placed between two standard ones cannot hide either; two positional controls must fire and a by-name control stay silent. Not decided: values of extension attributes "
    "round-trip (C01/C04 clauses).")


def run(ctx):
    ctx.rule("R1", "every element lookup in the reader is namespace-aware (known finding per site today)")
    ctx.rule("R2", "lookups for children of a known parent use children(), not descendants() (4 known findings today)")
    ctx.rule("R3", "prototype prefix looked up on the record element for its own namespace; vector entries filtered by vectorChild + type=Structure; extensions from root namespaces")
    ctx.rule("R5", "record identity is namespace + name: no comparison between the local tag names of two record names")
    ctx.rule("R4", "no reader function finds XML content by position (next sibling, first child, n-th child): foreign elements may sit anywhere")
    prog, info = load_program("lib", "e57")
    ctx.configs["lib"] = info
    ctx.cfg = "lib"
    ctx.call(xml_rules.namespace_rules, prog, "R1", "R2", "R3")
    import simple_rules
    ctx.call(simple_rules.lookup_by_position, prog, "R3")
    ctx.call(xml_rules.no_positional_navigation, prog, "R4")
    ctx.call(xml_rules.no_local_name_identity, prog, "R5")
    ctx.call(xml_rules.writer_validators_not_in_reader, prog, "R3")
    ctx.call(xml_rules.prototype_order, prog, "R3")
    ctx.call(xml_rules.inverse_maps, prog, "R3", "R3", "R3", only=("PointCloud",))
    ctx.cfg = None
    ctx.call(xml_rules.positional_controls, "R4")
    ctx.call(xml_rules.local_name_controls, "R5")
