"""C09 — reading untrusted bytes uses bounded time and memory per call (DESIGN §4 C09)."""
from mirlib import *
import bound_rules
import packet_rules
import pcw_rules
import blob_rules
import simple_rules

TECHNIQUE = "for every allocation reachable from the reader API: interval bound of the size (guards, field invariants, sanitising callees) or provenance from lengths of in-memory data; classification of every natural loop by a progress / bound argument (bounded iterator, bit-consuming, input-consuming by must-call, paged read until 0, fill loop with sentinel excluded); yield-count typestate; bounded blob copy"
EXPLANATION = (
    "Decides that every allocation size reachable from the reading API is either proved below a constant cap (XML length <= "
    "10 MiB, page size <= 1 MiB after PagedReader::new succeeded, u16 stream sizes, packet lengths <= 65536) or is a length "
    "of data already held in memory; that each of the 28 loops reachable from the reading API has a progress argument — "
    "iteration over an in-memory collection or a bounded range, extraction of >= 1 bits per iteration, a call that reads "
    ">= 1 byte from the file on every Ok path, reading until read returns 0 with a non-empty buffer, or a fill loop whose "
    "bound has its usize::MAX sentinel excluded by a dominating guard and otherwise derives from in-memory lengths; that both "
    "iterators yield only while read < records; and that Blob::read copies through take(self.length). Not decided: "
    "constant factors, roxmltree's parsing cost, actual peak memory.")


def run(ctx):
    ctx.rule("R1", "every allocation size is bounded by a constant cap or is a length of in-memory data")
    ctx.rule("R2", "every loop reachable from the reader API has a progress / bound argument")
    ctx.rule("R3", "both iterators yield only on the read < records edge, one increment per yield")
    ctx.rule("R4", "Blob::read hands its output only to io::copy(reader.take(self.length), writer)")
    ctx.rule("R5", "the untrusted XML is parsed with DTDs disabled (no entity expansion)")
    ctx.rule("R6", "no loop that appends to a collection scans that collection on every trip (linear work per call)")
    for cfg in ["lib", "lib_crc32c"]:
        prog, info = load_program(cfg, "e57")
        ctx.configs[cfg] = info
        ctx.cfg = cfg
        ctx.call(bound_rules.allocation_sizes, prog, "R1", "reader")
        ctx.call(bound_rules.loop_progress, prog, "R2", "reader", floor=12)
        ctx.call(pcw_rules.raw_reader_count, prog, "R3")
        ctx.call(pcw_rules.raw_reader_count, prog, "R3", path=simple_rules.IT, adt="pc_reader_simple::PointCloudReaderSimple", records=("pc", "records"))
        ctx.call(blob_rules.read_bounded, prog, "R4")
        ctx.call(bound_rules.xml_parser_options, prog, "R5")
        ctx.call(bound_rules.no_growing_rescan, prog, "R6")
        ctx.call(packet_rules.skip_length, prog, "R2")
    ctx.cfg = None
