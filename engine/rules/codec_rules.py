"""Bit-stream codec shape rules (C12-R2..R5): stored form on the writer side, extraction window
and value reconstruction on the reader side, zero-width wiring."""
from mirlib import *
from proto import *
from cache_rules import strip_casts, const_val, slice_of, is_self_field


def stored_form(ctx, prog, rule):
    f = prog.fn("record::serialize_integer")
    ctx.fn_seen(f)
    R = Resolver(f)
    ok = False
    desc = ""
    for bi, t in f.calls(lambda c, t: c == "bs_write::ByteStreamWriteBuffer::add_bits"):
        buf, data, bits = (strip(R.operand(a)) for a in t["args"][:3])
        d = strip_casts(data)
        desc = "add_bits(%s, %s, %s)" % (tree_str(buf), tree_str(strip_deep(d)), tree_str(bits))
        le = d[0] == "call" and d[1].endswith("u64>::to_le_bytes")
        diff = strip(d[2][0]) if le else None
        okd = False
        if diff is not None:
            while diff[0] == "cast" and diff[1] == "u64":
                inner = strip(diff[2])
                okd = (inner[0] == "call" and inner[1].endswith("wrapping_sub") and strip(inner[2][0]) == ("param", 1) and strip(inner[2][1]) == ("param", 2)) or \
                      (inner[0] == "binop" and inner[1] == "Sub" and strip_casts(inner[2]) == ("param", 1) and strip_casts(inner[3]) == ("param", 2))
                diff = inner
        okb = bits[0] == "call" and bits[1] == "record::integer_bits" and strip(bits[2][0]) == ("param", 2) and strip(bits[2][1]) == ("param", 3)
        ok = le and okd and okb and buf == ("param", 4)
    ctx.ob(rule, "stored-form/serialize_integer", ok, "%s (must be add_bits(buffer, &((value - min) as u64).to_le_bytes(), integer_bits(min, max)))" % desc)
    # floats on the writer side
    g = prog.fn("record::RecordDataType::write")
    ctx.fn_seen(g)
    Rg = Resolver(g)
    found = {}
    for bi, t in g.calls(lambda c, t: c == "bs_write::ByteStreamWriteBuffer::add_bytes"):
        d = strip_casts(Rg.operand(t["args"][1]))
        if d[0] == "call" and d[1].endswith("::to_le_bytes"):
            ty = "f32" if "f32" in d[1] else ("f64" if "f64" in d[1] else d[1])
            src = strip(d[2][0])
            found[ty] = tree_str(src)
    okf = set(found) == {"f32", "f64"} and "Single" in found["f32"] and "Double" in found["f64"]
    ctx.ob(rule, "stored-form/floats-writer", okf, "RecordDataType::write: add_bytes(to_le_bytes) per float type: %s (Single -> f32 4 bytes, Double -> f64 8 bytes)" % found)
    # both integer variants go through serialize_integer(value payload, min, max of the same variant) - in two arms or in
    # one or-pattern arm
    import re as _re
    covered, consistent, ncalls = set(), True, 0
    for bi, t in g.calls(lambda c, t: c == "record::serialize_integer"):
        ncalls += 1
        vs = [set(_re.findall(r"\b(ScaledInteger|Integer)\.", tree_str(strip_deep(Rg.operand(a))))) for a in t["args"][:3]]
        consistent = consistent and bool(vs[0]) and vs[0] == vs[1] == vs[2]
        covered |= vs[0]
    ctx.ob(rule, "stored-form/integers-writer", ncalls >= 1 and consistent and covered == {"ScaledInteger", "Integer"},
           "ScaledInteger and Integer both go through serialize_integer with the value, minimum and maximum of the same variant (%d calls, variants %s)" % (ncalls, sorted(covered)), nontrivial=False)
    # reader side floats
    for name, bits, fty, ity, variant in (("unpack_doubles", 64, "f64", "u64", "Double"), ("unpack_singles", 32, "f32", "u32", "Single")):
        h = prog.fn("bitpack::BitPack::" + name)
        ctx.fn_seen(h)
        Rh = Resolver(h)
        okx = any(const_val(Rh.operand(t["args"][1])) == bits for bi, t in h.calls(lambda c, t: c.endswith("ByteStreamReadBuffer::extract")))
        okv = False
        desc = ""
        for bi, t in h.calls(lambda c, t: c.endswith("push_back")):
            v = strip(Rh.operand(t["args"][1]))
            desc = tree_str(strip_deep(v))
            if v[0] == "agg" and v[1][2] == variant:
                x = strip(v[2][0])
                if x[0] == "call" and x[1].endswith("%s>::from_le_bytes" % fty):
                    y = strip(x[2][0])
                    if y[0] == "call" and y[1].endswith("%s>::to_le_bytes" % ity):
                        z = strip_casts(y[2][0])
                        okv = z[0] == "call" and z[1].endswith("extract")
        ctx.ob(rule, "stored-form/%s" % name, okx and okv, "extract(%d) -> %s (must rebuild %s::from_le_bytes(%s::to_le_bytes(extracted)))" % (bits, desc[:160], fty, ity))


def extract_window(ctx, prog, rule):
    f = prog.fn("bs_read::ByteStreamReadBuffer::extract")
    ctx.fn_seen(f)
    R = Resolver(f)
    # returned value
    ok_ret, ok_win, ok_src, ok_adv, ok_guard = False, False, False, False, False
    desc = ""
    for bi, si, cls, payload in f.ret_assignments():
        if cls == "some":
            v = strip(R.rvalue(payload))[2][0]
            desc = tree_str(strip_deep(v))
            x = strip(v)
            if x[0] == "cast" and x[1] == "u64":
                s = strip(x[2])
                if s[0] == "binop" and s[1] == "Shr":
                    w, sh = strip(s[2]), strip_casts(s[3])
                    phase = sh[0] == "binop" and sh[1] == "Rem" and is_self_field(sh[2], "offset") and const_val(sh[3]) == 8
                    wide = w[0] == "call" and w[1].endswith("u128>::from_le_bytes")
                    ok_ret = phase and wide
                    if wide:
                        arr = strip(w[2][0])
                        while arr[0] == "partial":
                            arr = arr[1]
                        ok_win = arr[0] == "repeat" and const_val(arr[1]) == 0 and arr[2].strip().startswith("16")
    ctx.ob(rule, "window/extract-result", ok_ret, "extract returns %s (must be (u128::from_le_bytes(window) >> (offset %% 8)) as u64)" % desc[:200])
    ctx.ob(rule, "window/size", ok_win, "the window is a zeroed [u8; 16]: 64 bits at bit phase 7 span 9 bytes, so a window of 8 bytes or a u64 drops bits")
    copies = [(R.operand(t["args"][0]), R.operand(t["args"][1]), False) for bi, t in f.calls(lambda c, t: c.endswith("copy_from_slice"))]
    # element-wise spelling: for (d, s) in dst.iter_mut().zip(src) { *d = *s }
    import elems
    for n_, ds_ in f.defs().items():
        for kind_, payload_, bi_, si_, place_ in ds_:
            if kind_ != "stmt" or bi_ not in f.cfg() or len(place_["proj"]) != 1 or place_["proj"][0]["k"] != "deref":
                continue
            tr_ = R.local(place_["local"])
            tr_ = tr_[1] if tr_[0] == "partial" else tr_
            de, se = elems.elem_of(tr_), elems.elem_of(R.rvalue(payload_))
            if de is None or se is None or de[1] or se[1] or not elems.same_position(de, se) or de[2][0] != "next":
                continue
            dv, sv = de[0], se[0]
            while strip(dv)[0] == "call" and strip(dv)[1].rsplit("::", 1)[-1] in ("iter_mut", "into_iter") and strip(dv)[2]:
                dv = strip(dv)[2][0]
            while strip(sv)[0] == "call" and strip(sv)[1].rsplit("::", 1)[-1] in ("iter", "into_iter") and strip(sv)[2]:
                sv = strip(sv)[2][0]
            copies.append((dv, sv, True))
    for dtree, stree, zipped in copies:
        dst = slice_of(dtree)
        src = slice_of(stree)
        if src and is_self_field(src[0], "buffer") and src[1] == "range" and (dst or zipped):
            lo, hi = strip_casts(src[2]), strip_casts(src[3])
            oklo = lo[0] == "binop" and lo[1] == "Div" and is_self_field(lo[2], "offset") and const_val(lo[3]) == 8
            okhi = False
            if hi[0] == "binop" and hi[1] == "Div" and const_val(hi[3]) == 8:
                n = strip_casts(hi[2])
                if n[0] == "binop" and n[1] == "Add" and const_val(n[3]) == 7:
                    m = strip_casts(n[2])
                    okhi = m[0] == "binop" and m[1] == "Add" and is_self_field(m[2], "offset") and strip_casts(m[3]) == ("param", 2)
            okn = False
            if dst and dst[1] == "to":
                okn = strip_casts(dst[3])[0] == "binop" and strip_casts(dst[3])[1] == "Sub" and strip_casts(strip_casts(dst[3])[2]) == hi and strip_casts(strip_casts(dst[3])[3]) == lo
                if not okn:
                    # the window is cut to the length of the source slice itself
                    n_ = strip_casts(dst[3])
                    okn = n_[0] == "call" and n_[1].endswith("::len") and tree_str(strip_deep(n_[2][0])) == tree_str(strip_deep(strip(stree)))
            elif zipped and not dst:
                # zip over the whole window stops at the end of the (shorter) source slice
                w_ = strip(dtree)
                while w_[0] in ("partial", "ref"):
                    w_ = strip(w_[1])
                okn = w_[0] == "repeat"
            ok_src = oklo and okhi and okn
    ctx.ob(rule, "window/source-bytes", ok_src, "window[..end-start] <- buffer[offset/8 .. (offset+bits+7)/8]")
    offs = field_assignments(f, "bs_read::ByteStreamReadBuffer", "offset")
    if len(offs) == 1:
        t = strip(R.rvalue(offs[0][3]))
        ok_adv = t[0] == "binop" and t[1] == "Add" and is_self_field(t[2], "offset") and strip_casts(t[3]) == ("param", 2)
    ctx.ob(rule, "window/advance", ok_adv, "offset += bits exactly once")
    for bi in f.cfg():
        ot = order_test(f, R, bi)
        if ot is not None:
            oe = order_edges(ot, lambda x: strip(x)[0] == "call" and strip(x)[1].endswith("::available"), lambda y: strip_casts(y) == ("param", 2))
            if oe is not None:
                short_b = oe[0]
                nones = [b for b, s, cls, p in f.ret_assignments() if cls == "none"]
                ok_guard = bool(nones) and all(b in reach(f.cfg(), [short_b]) for b in nones) and not any(b in reach(f.cfg(), [short_b]) for b, s, cls, p in f.ret_assignments() if cls == "some")
    # the same guard spelled `self.available().checked_sub(bits)?` (None exactly when fewer bits are available)
    def _is_short_sub(t):
        t = strip(t)
        return (t[0] == "call" and t[1].rsplit("::", 1)[-1] == "checked_sub" and len(t[2]) == 2 and strip(t[2][0])[0] == "call"
                and strip(t[2][0])[1].endswith("::available") and strip_casts(t[2][1]) == ("param", 2))
    shorts = []
    for bi, t in f.calls(lambda c, t: c.rsplit("::", 1)[-1] == "checked_sub"):
        if _is_short_sub(R._call(t, bi, 0, frozenset())):
            br = branch_of_call(f, bi)
            if br is not None and br[2] is not None:
                shorts.append(br[2])
    for sw, some_s, none_s in option_tests(f, R, _is_short_sub):
        shorts.append(none_s)
    for short_b in shorts:
        nones = [b for b, s, cls, p in f.ret_assignments() if cls in ("none", "err")]
        somes = [b for b, s, cls, p in f.ret_assignments() if cls == "some"]
        if not any(b in reach(f.cfg(), [short_b]) for b in somes) and (not nones or any(b in reach(f.cfg(), [short_b]) for b in nones)):
            ok_guard = True
    ctx.ob(rule, "window/availability-guard", ok_guard, "extract returns None when fewer than `bits` bits are available and never yields then")
    a = prog.fn("bs_read::ByteStreamReadBuffer::available")
    ctx.fn_seen(a)
    t = strip(Resolver(a).local(0))
    oka = t[0] == "binop" and t[1] == "Sub" and is_self_field(t[3], "offset")
    if oka:
        m = strip_casts(t[2])
        oka = m[0] == "binop" and m[1] == "Mul" and 8 in (const_val(m[2]), const_val(m[3]))
    ctx.ob(rule, "window/available", oka, "available() = buffer.len() * 8 - offset: %s" % tree_str(strip_deep(t)))


def append_shape(ctx, prog, rule):
    f = prog.fn("bs_read::ByteStreamReadBuffer::append")
    ctx.fn_seen(f)
    R = Resolver(f)
    # keeps the unconsumed tail: tmp <- buffer[offset/8..] ++ data ; offset -= (offset/8)*8
    keep = False
    for bi, t in f.calls(lambda c, t: c.endswith("extend_from_slice")):
        sl = slice_of(R.operand(t["args"][1]))
        if sl and is_self_field(sl[0], "buffer") and sl[1] == "from":
            lo = strip_casts(sl[2])
            keep = lo[0] == "binop" and lo[1] == "Div" and is_self_field(lo[2], "offset") and const_val(lo[3]) == 8
    ctx.ob(rule, "append/keeps-unconsumed-tail", keep, "append keeps buffer[offset/8..] in front of the new data")
    offs = field_assignments(f, "bs_read::ByteStreamReadBuffer", "offset")
    oko = False
    if len(offs) == 1:
        t = strip(R.rvalue(offs[0][3]))
        if t[0] == "binop" and t[1] == "Rem" and is_self_field(t[2], "offset") and const_val(t[3]) == 8:
            oko = True          # offset % 8 == offset - (offset / 8) * 8
        if t[0] == "binop" and t[1] == "Sub" and is_self_field(t[2], "offset"):
            m = strip_casts(t[3])
            if m[0] == "binop" and m[1] == "Mul" and 8 in (const_val(m[2]), const_val(m[3])):
                d = strip_casts(m[2] if const_val(m[3]) == 8 else m[3])
                oko = d[0] == "binop" and d[1] == "Div" and is_self_field(d[2], "offset") and const_val(d[3]) == 8
    ctx.ob(rule, "append/offset-rebased", oko, "offset -= (offset / 8) * 8 (bit phase preserved)")
    ext = [strip(R.operand(t["args"][1])) for bi, t in f.calls(lambda c, t: c.endswith("extend_from_slice"))]
    scratch_cleared(ctx, prog, rule)
    ctx.ob(rule, "append/new-data-last", len(ext) == 2 and ext[1] == ("param", 2), "the new packet bytes are appended after the kept tail")


def scratch_cleared(ctx, prog, rule):
    """append() assembles the new buffer in a scratch vector that is reused across calls: some vector must be emptied
    on every path (the old buffer before it becomes the next scratch vector, or the scratch vector before it is
    filled); without it the consumed bytes of an earlier packet come back."""
    f = prog.fn("bs_read::ByteStreamReadBuffer::append")
    R = Resolver(f)
    clears = []
    for bi, t in f.calls(lambda c, t: c.endswith("Vec::<T, A>::clear") or c.endswith("Vec::<T, A>::truncate")):
        clears.append(bi)
    # building a fresh vector instead of reusing one is fine as well
    fresh = [bi for bi, t in f.calls(lambda c, t: c.endswith("Vec::<T>::new") or c.endswith("Vec::<T>::with_capacity") or c.endswith("::to_vec") or c.endswith("mem::take"))]
    ok = bool(clears or fresh) and f.any_reachable(f.return_blocks(), removed=clears + fresh) is None
    ctx.ob(rule, "append/scratch-cleared", ok, "every path through append() empties a vector (clear / truncate) or builds a fresh one: %d clear sites, %d fresh vectors" % (len(clears), len(fresh)))


def zero_width_wiring(ctx, prog, rule):
    f = prog.fn("queue_reader::QueueReader::<'a, T>::parse_byte_streams")
    ctx.fn_seen(f)
    R = Resolver(f)
    seen = {}
    # every RecordValue that parse_byte_streams builds itself (pushed one by one or via extend(repeat(v).take(n)))
    for bi in f.cfg():
        for st in f.blocks[bi]["stmts"]:
            rv = st["rv"]
            if rv["k"] == "aggregate" and rv["kind"].get("agg") == "adt" and rv["kind"]["adt"] == "record::RecordValue" and rv["ops"]:
                x = strip(R.operand(rv["ops"][0]))
                seen[rv["kind"]["variant"]] = tree_str(x)
    ok = set(seen) == {"ScaledInteger", "Integer"} and all(".min" in s for s in seen.values()) and "ScaledInteger.min" in seen.get("ScaledInteger", "") and "Integer.min" in seen.get("Integer", "")
    ctx.ob(rule, "zero-width/synthesised-value", ok, "zero-width records are filled with %s (must be the record's own minimum, per integer kind)" % seen)
    # guarded by bit_size() == 0, else the unpack function of the same kind
    pairs = {}
    for bi, t in f.calls(lambda c, t: c.startswith("bitpack::BitPack::unpack")):
        pairs[short(callee_of(t))] = [tree_str(strip(R.operand(a))) for a in t["args"][1:3]]
    okp = set(pairs) >= {"BitPack::unpack_scaled_ints", "BitPack::unpack_ints", "BitPack::unpack_singles", "BitPack::unpack_doubles"}
    okp = okp and "ScaledInteger.min" in pairs["BitPack::unpack_scaled_ints"][0] and "ScaledInteger.max" in pairs["BitPack::unpack_scaled_ints"][1] and "Integer.min" in pairs["BitPack::unpack_ints"][0] and "Integer.max" in pairs["BitPack::unpack_ints"][1]
    ctx.ob(rule, "zero-width/unpack-dispatch", okp, "unpack dispatch per data type with (min, max) of the same record: %s" % pairs)
    # stream i is unpacked into queue i
    oki = True
    n = 0
    for bi, t in f.calls(lambda c, t: c.startswith("bitpack::BitPack::unpack")):
        import elems
        se = elems.elem_of(R.operand(t["args"][0]))
        qe = elems.elem_of(R.operand(t["args"][-1]))
        n += 1
        if not (se is not None and qe is not None and self_field(strip(se[0])) == "byte_streams" and self_field(strip(qe[0])) == "queues"
                and not se[1] and not qe[1] and elems.same_position(se, qe)):
            oki = False
        if len(t["args"]) == 4:
            # (min, max) of the prototype record at the same position
            me = elems.elem_of(R.operand(t["args"][1]))
            if not (me is not None and "prototype" in tree_str(strip(me[0])) and elems.same_position(me, se)):
                oki = False
    ctx.ob(rule, "zero-width/stream-queue-pairing", oki and n == 4, "byte_streams[i] is unpacked into queues[i] for the same i (%d sites)" % n)


def add_bits_shape(ctx, prog, rule):
    f = prog.fn("bs_write::ByteStreamWriteBuffer::add_bits")
    ctx.fn_seen(f)
    R = Resolver(f)
    # aligned fast path: extend_from_slice(data[..(bits+7)/8]); last_byte_bit = bits % 8
    fast = False
    for bi, t in f.calls(lambda c, t: c.endswith("extend_from_slice")):
        sl = slice_of(R.operand(t["args"][1]))
        if sl and strip(sl[0]) == ("param", 2) and sl[1] == "to":
            hi = strip_casts(sl[3])
            if hi[0] == "binop" and hi[1] == "Div" and const_val(hi[3]) == 8:
                n = strip_casts(hi[2])
                fast = n[0] == "binop" and n[1] == "Add" and strip_casts(n[2]) == ("param", 3) and const_val(n[3]) == 7
    ctx.ob(rule, "add-bits/aligned-path", fast, "byte-aligned case appends data[..(bits+7)/8]")
    lbb = field_assignments(f, "bs_write::ByteStreamWriteBuffer", "last_byte_bit")
    trees = [tree_str(strip_deep(strip(R.rvalue(p)))) for bi, si, kind, p in lbb if kind == "stmt"]
    okl = any(t == "(arg3 Rem 8_usize)" for t in trees)
    ctx.ob(rule, "add-bits/phase-update", okl and len(trees) == 2, "last_byte_bit <- bits %% 8 on the aligned path, one more assignment in the bit loop: %s" % trees)
    # bit loop: decided algebraically (exact affine forms and affine forms mod 8, see bitloop.py)
    import bitloop
    for clause, (verdict, detail) in sorted(bitloop.analyse(f).items()):
        ctx.ob(rule, "add-bits/bit-loop/%s" % clause, verdict, detail)
    # range 0..bits
    rng = False
    for bi in f.cfg():
        for st in f.blocks[bi]["stmts"]:
            if is_variant_agg(st["rv"], "ops::Range", "Range"):
                lo, hi = (strip(R.operand(o)) for o in st["rv"]["ops"])
                rng = const_val(lo) == 0 and strip_casts(hi) == ("param", 3)
    for n_, (h_, init_, bound_) in counter_locals(f).items():
        rng = const_val(strip(R.operand(init_))) == 0 and strip_casts(strip(R.operand(bound_))) == ("param", 3)
    ctx.ob(rule, "add-bits/loop-range", rng, "the bit loop runs for b in 0..bits")
    # full_bytes / all_bytes / get_* agree
    g = prog.fn("bs_write::ByteStreamWriteBuffer::get_full_bytes")
    h = prog.fn("bs_write::ByteStreamWriteBuffer::get_all_bytes")
    ctx.fn_seen(g)
    ctx.fn_seen(h)
    Rg, Rh = Resolver(g), Resolver(h)
    okg = False
    for bi, t in g.calls(lambda c, t: c.endswith("::drain")):
        r = strip(Rg.operand(t["args"][1]))
        okg = r[0] == "agg" and r[1][2] == "RangeTo" and strip(r[2][0])[0] == "call" and strip(r[2][0])[1].endswith("full_bytes")
    okh = any(strip(Rh.operand(t["args"][1]))[0] == "agg" and strip(Rh.operand(t["args"][1]))[1][2] == "RangeFull" for bi, t in h.calls(lambda c, t: c.endswith("::drain")))
    # std::mem::take(&mut self.buffer) hands out the whole buffer as well
    okh = okh or any(self_field(strip(Rh.operand(t["args"][0]))) == "buffer" for bi, t in h.calls(lambda c, t: c.endswith("mem::take") or c.endswith("mem::replace")))
    okz = any(kind == "stmt" and const_val(Rh.rvalue(p)) == 0 for bi, si, kind, p in field_assignments(h, "bs_write::ByteStreamWriteBuffer", "last_byte_bit"))
    ctx.ob(rule, "add-bits/drain-sizes", okg and okh and okz, "get_full_bytes drains ..full_bytes(), get_all_bytes drains everything and resets the bit phase")
    fb = prog.fn("bs_write::ByteStreamWriteBuffer::full_bytes")
    ctx.fn_seen(fb)
    t = Resolver(fb).local(0)
    alts = [tree_str(strip_deep(a)) for a in (t[1] if t[0] == "phi" else (t,))]
    okfb = sorted(alts) == sorted(["Vec::len(arg1.buffer)", "(Vec::len(arg1.buffer) Sub 1_usize)"])
    # the same value as one expression: len - usize::from(last_byte_bit != 0)
    okfb = okfb or alts in (["(Vec::len(arg1.buffer) Sub (arg1.last_byte_bit Ne 0_usize))"], ["(Vec::len(arg1.buffer) Sub ((arg1.last_byte_bit Ne 0_usize) as usize))"])
    ctx.ob(rule, "add-bits/full-bytes", okfb, "full_bytes() = len - 1 when a partial byte exists, else len: %s" % alts)
