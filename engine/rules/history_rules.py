"""History-independence rules of the reader (C17-R2, R3, R5)."""
from mirlib import *
from proto import *
from cache_rules import strip_casts, const_val

SEEK = "paged_reader::PagedReader::<T>::seek_physical"


def _uses_reader(fn, R, t, reader_pred):
    return any(reader_pred(strip(R.operand(a))) for a in t["args"])


def seek_first(ctx, prog, rule):
    entries = [
        ("queue_reader::QueueReader::<'a, T>::new", lambda t: t == ("param", 2), lambda a: leaf(a) == "arg1.file_offset"),
        ("blob::Blob::read", lambda t: t == ("param", 2), lambda a: leaf(a) == "arg1.offset"),
        ("e57_reader::E57Reader::<T>::extract_xml", lambda t: t == ("param", 1), lambda a: a == ("param", 2)),
    ]
    for path, is_reader, is_target in entries:
        f = prog.fn(path)
        ctx.fn_seen(f)
        R = Resolver(f)
        seeks = [(bi, t) for bi, t in f.calls(lambda c, t: c == SEEK)]
        first = [bi for bi, t in seeks if is_target(strip(R.operand(t["args"][1])))]
        ok = len(first) == 1 and branch_of_call(f, first[0]) is not None
        ctx.ob(rule, "absolute-seek/%s" % short(path), ok, "%s starts with seek_physical(<its own absolute offset>)? (%d matching seeks, result checked=%s)" % (short(path), len(first), ok), where=f.file_line(first[0]) if first else None)
        if not ok:
            continue
        br = branch_of_call(f, first[0])
        cont = br[1]
        bad = []
        for bi, t in f.calls():
            if bi == first[0]:
                continue
            if _uses_reader(f, R, t, is_reader) or any(is_reader(strip_casts(R.operand(a))) for a in t["args"]):
                if not (f.dominates(cont, bi) or cont == bi):
                    bad.append((bi, short(callee_of(t))))
        ctx.ob(rule, "seek-dominates-uses/%s" % short(path), not bad, "uses of the page reader not dominated by the successful seek: %s" % [(f.file_line(b), c) for b, c in bad])
    # QueueReader::new positions at the data offset read from the section header it just read
    f = prog.fn("queue_reader::QueueReader::<'a, T>::new")
    R = Resolver(f)
    ok = False
    for bi, t in f.calls(lambda c, t: c == SEEK):
        a = strip(R.operand(t["args"][1]))
        if a[0] == "field" and a[2] == "data_offset":
            src = strip(a[1])
            ok = src[0] == "call" and src[1] == "cv_section::CompressedVectorSectionHeader::read" and branch_of_call(f, bi) is not None
            # the struct is built only after this seek succeeded
            for b2 in f.cfg():
                for st in f.blocks[b2]["stmts"]:
                    if is_variant_agg(st["rv"], "queue_reader::QueueReader", "QueueReader"):
                        ok = ok and f.dominates(bi, b2)
    ctx.ob(rule, "second-seek/QueueReader::new", ok, "QueueReader::new seeks to the data_offset of the section header it has just read, before the reader is handed out")


def leaf(t):
    from simple_rules import leaf_name
    return leaf_name(t)


def fresh_state(ctx, prog, rule):
    f = prog.fn("queue_reader::QueueReader::<'a, T>::new")
    R = Resolver(f)
    agg = None
    for bi in f.cfg():
        for st in f.blocks[bi]["stmts"]:
            if is_variant_agg(st["rv"], "queue_reader::QueueReader", "QueueReader"):
                agg = dict(zip(st["rv"]["kind"]["fields"], st["rv"]["ops"]))
    if not agg:
        ctx.ob(rule, "fresh-queues/QueueReader::new", False, "no QueueReader literal found")
        return
    desc = {}
    ok = True
    for k, want in (("buffer", "Vec::<T>::new"), ("buffer_sizes", "from_elem"), ("byte_streams", "from_elem"), ("queues", "from_elem")):
        if k not in agg:
            # the buffer is no longer a field of the iterator's own QueueReader: it lives somewhere that outlives the iterator
            desc[k] = "<not a field of QueueReader any more>"
            ok = False
            continue
        t = strip(R.operand(agg[k]))
        desc[k] = tree_str(t)[:80]
        good = t[0] == "call" and t[1].endswith(want)
        if good and want == "from_elem":
            n = strip(t[2][1])
            good = n[0] == "call" and n[1].endswith("::len") and "prototype" in tree_str(n)
            init = strip(t[2][0])
            good = good and (const_val(init) == 0 or (init[0] == "call" and init[1].rsplit("::", 1)[-1] == "new"))
        ok = ok and good
    ctx.ob(rule, "fresh-queues/QueueReader::new", ok, "buffers and queues of a new iterator are freshly created and sized by the prototype: %s" % desc)
    # iterators start at read = 0
    for path, adt in (("pc_reader_raw::PointCloudReaderRaw::<'a, T>::new", "pc_reader_raw::PointCloudReaderRaw"), ("pc_reader_simple::PointCloudReaderSimple::<'a, T>::new", "pc_reader_simple::PointCloudReaderSimple")):
        g = prog.fn(path)
        ctx.fn_seen(g)
        Rg = Resolver(g)
        okr = False
        for bi in g.cfg():
            for st in g.blocks[bi]["stmts"]:
                if is_variant_agg(st["rv"], adt, adt.split("::")[-1]):
                    vals = dict(zip(st["rv"]["kind"]["fields"], st["rv"]["ops"]))
                    okr = const_val(Rg.operand(vals["read"])) == 0
                    q = strip(Rg.operand(vals["queue_reader"]))
                    okr = okr and q[0] == "call" and q[1] == "queue_reader::QueueReader::<'a, T>::new"
        ctx.ob(rule, "fresh-iterator/%s" % short(path), okr, "a new iterator starts with read = 0 and its own QueueReader::new(pc, reader)")


def private_state(ctx, prog, rule):
    pubs = [p for p, f in prog.fns.items() if f.self_ty.startswith("paged_reader::PagedReader") and f.public]
    ctx.ob(rule, "page-reader-not-exported", not pubs, "functions of PagedReader reachable from outside the crate: %s" % pubs, nontrivial=False)
    a = prog.adt("e57_reader::E57Reader")
    pf = [fl["name"] for fl in a["variants"][0]["fields"] if fl["pub"]]
    ctx.ob(rule, "reader-fields-private", not pf, "public fields of E57Reader: %s" % pf, nontrivial=False)
    a = prog.adt("paged_reader::PagedReader")
    pf = [fl["name"] for fl in a["variants"][0]["fields"] if fl["pub"]]
    ctx.ob(rule, "page-reader-fields-private", not pf, "public fields of PagedReader: %s" % pf, nontrivial=False)
    # descriptor state of E57Reader is written only by its constructor
    writers = set()
    e57_fields = [fl["name"] for fl in prog.adt("e57_reader::E57Reader")["variants"][0]["fields"]]
    for p, f in prog.fns.items():
        if short(p) in ("E57Reader::new", "E57Reader::<T>::new"):
            continue
        for fld in e57_fields:
            if field_assignments(f, "e57_reader::E57Reader", fld) or field_mut_borrows(f, "e57_reader::E57Reader", fld):
                writers.add((short(p), fld))
    allowed = {("E57Reader::pointcloud_simple", "reader"), ("E57Reader::pointcloud_raw", "reader"), ("E57Reader::blob", "reader")}
    extra = sorted(writers - allowed)
    ctx.ob(rule, "descriptors-immutable", not extra, "functions that assign or mutably borrow E57Reader state: %s; only the three read operations may borrow `reader` mutably, nothing else is ever modified after new(): %s" % (sorted(writers), extra))


def reader_state_inventory(ctx, prog, rule):
    """state that survives from one read operation to the next is what makes results depend on history.  The page
    reader may change exactly its cursor and its (typestate-checked) page cache after construction; a new field that
    is assigned by a read path (a remembered failure, a cache of results) is unreviewed history."""
    # reader: the device handle; its position is re-established by the absolute seek that dominates every page load
    # (C07-R3).  crc: Crc32::calculate takes &mut self but never writes its table (C07-R5 looks at every store).
    allowed = {"paged_reader::PagedReader": {"page_num", "page_buffer", "offset", "reader", "crc"}}
    for adt, ok_fields in allowed.items():
        a = prog.adt(adt)
        fields = [fl["name"] for fl in a["variants"][0]["fields"]]
        mutated = {}
        for p, f in prog.fns.items():
            if p.endswith("::new"):
                continue
            for fld in fields:
                if field_assignments(f, adt, fld) or field_partial_writes(f, adt, fld) or (fld not in ok_fields and field_mut_borrows(f, adt, fld)):
                    mutated.setdefault(fld, set()).add(short(p))
        extra = {k: sorted(v) for k, v in mutated.items() if k not in ok_fields}
        ctx.ob(rule, "reader-state/%s" % adt.rsplit("::", 1)[-1], not extra,
               "fields of %s changed after construction: %s (reviewed: %s)%s" % (adt.rsplit("::", 1)[-1], {k: sorted(v) for k, v in mutated.items()}, sorted(ok_fields),
                                                                               "" if not extra else "; unreviewed state: %s" % extra))
