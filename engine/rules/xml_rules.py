"""XML metadata rules built on xmlgen (C04, C02-R2/R3, C18, C19-R2/R3)."""
import json
import os
import re

from mirlib import *
from proto import *
from cache_rules import strip_casts, const_val
from simple_rules import leaf_name
import xmlgen
from facts import VERIF

VOCAB = json.load(open(os.path.join(VERIF, "spec", "e57_vocab.json")))

# (label, root adt, writer fn, reader fns)
STRUCTS = [
    ("Root", "root::Root", "root::serialize_root", ["root::root_from_document"]),
    ("PointCloud", "pointcloud::PointCloud", "pointcloud::PointCloud::xml_string", ["pointcloud::PointCloud::from_node"]),
    ("CartesianBounds", "bounds::CartesianBounds", "bounds::CartesianBounds::xml_string", ["bounds::CartesianBounds::from_node"]),
    ("SphericalBounds", "bounds::SphericalBounds", "bounds::SphericalBounds::xml_string", ["bounds::SphericalBounds::from_node"]),
    ("IndexBounds", "bounds::IndexBounds", "bounds::IndexBounds::xml_string", ["bounds::IndexBounds::from_node"]),
    ("IntensityLimits", "limits::IntensityLimits", "limits::IntensityLimits::xml_string", ["limits::IntensityLimits::from_node"]),
    ("ColorLimits", "limits::ColorLimits", "limits::ColorLimits::xml_string", ["limits::ColorLimits::from_node"]),
    ("Transform", "transform::Transform", "transform::Transform::xml_string", ["transform::Transform::from_node", "transform::Quaternion::from_node", "transform::Translation::from_node"]),
    ("DateTime", "date_time::DateTime", "date_time::DateTime::xml_string", ["date_time::DateTime::from_node"]),
    ("Image", "images::Image", "images::Image::xml_string", ["images::Image::from_node"]),
    ("VisualReferenceImage", "images::VisualReferenceImage", "images::VisualReferenceImage::xml_string", ["images::VisualReferenceImage::from_node"]),
    ("PinholeImage", "images::PinholeImage", "images::PinholeImage::xml_string", ["images::PinholeImage::from_node"]),
    ("SphericalImage", "images::SphericalImage", "images::SphericalImage::xml_string", ["images::SphericalImage::from_node"]),
    ("CylindricalImage", "images::CylindricalImage", "images::CylindricalImage::xml_string", ["images::CylindricalImage::from_node"]),
    ("Blob", "blob::Blob", "blob::Blob::xml_string", ["blob::Blob::from_node"]),
]
NUMERIC = ("f32", "f64", "i8", "i16", "i32", "i64", "u8", "u16", "u32", "u64", "usize", "isize", "bool")


def vtype(v):
    """display type of a value token"""
    ty = v["trait"].split(":", 1)[1] if ":" in v["trait"] else "?"
    return ty.lstrip("&").strip()


def chain_of(tree, root_param=1):
    """longest field chain rooted at the serialiser's self parameter inside a value tree"""
    best = None
    for x in leaves(tree):
        if x[0] != "field":
            continue
        names = []
        t = x
        while True:
            t = strip(t)
            if t[0] == "field":
                names.append(t[2])
                t = t[1]
                continue
            if t[0] == "call" and t[1].endswith("::next") and t[2]:
                # element of an iterated collection
                t = t[2][0]
                continue
            if t[0] == "call" and any(t[1].endswith(s) for s in ("::into_iter", "::iter", "::deref", "Option::<T>::filter", "Option::<T>::as_ref")) and t[2]:
                t = t[2][0]
                continue
            break
        if t[0] == "param":
            ch = tuple(reversed(names))
            if best is None or len(ch) > len(best[1]):
                best = (t[1], ch)
    return best


def clean_chain(ch):
    out = []
    for n in ch:
        if re.fullmatch(r"[A-Z]\w*\.\d+|\d+", n):
            # enum payload position (Some.0 / Pinhole.0 / tuple index): not a field of a struct
            if re.fullmatch(r"(Some|Ok)\.\d+", n):
                continue
            out.append(n)
            continue
        out.append(n.split(".")[-1] if re.match(r"[A-Z]\w*\.", n) else n)
    return tuple(out)


def _inner_adt(ty):
    ty = ty.strip().lstrip("&").strip()
    m = re.match(r"(?:std::option::Option|std::vec::Vec|std::boxed::Box)<(.*)>$", ty)
    while m:
        ty = m.group(1).strip().lstrip("&").strip()
        m = re.match(r"(?:std::option::Option|std::vec::Vec|std::boxed::Box)<(.*)>$", ty)
    return ty


def owner_field(prog, root_adt, chain):
    """walk ADT field types along the chain: returns (owner adt, field name, field type) of the last struct field"""
    adt = root_adt
    owner = None
    for n in chain:
        a = prog.adts.get(adt)
        if a is None:
            return owner
        fld = None
        if re.fullmatch(r"[A-Z]\w*\.\d+", n):
            var, idx = n.split(".")
            for v in a["variants"]:
                if v["name"] == var and int(idx) < len(v["fields"]):
                    fld = v["fields"][int(idx)]
        else:
            for v in a["variants"]:
                for f in v["fields"]:
                    if f["name"] == n:
                        fld = f
        if fld is None:
            return owner
        if not re.fullmatch(r"[A-Z]\w*\.\d+", n):
            owner = (adt, n, fld["ty"])
        adt = _inner_adt(fld["ty"])
    return owner


def writer_fields(prog, root_adt, fn_path):
    """(owner adt, field) -> list of dict(tag, path, where, etype, vtype, spec, tree)"""
    m, text, problems, root = xmlgen.writer_map(prog, fn_path)
    out = {}
    selfp = 1
    heads = set()
    for name, sites in m.items():
        for s in sites:
            ch = chain_of(s["tree"])
            if ch is None:
                continue
            p, chain = ch
            chain = clean_chain(chain)
            if p == selfp and chain:
                heads.add(chain[0])
            of = owner_field(prog, root_adt, chain) if p == selfp else None
            if of is None:
                continue
            out.setdefault((of[0], of[1]), []).append(dict(tag=s["path"].rsplit("/", 1)[-1], path=s["path"], where=s["where"], etype=s["etype"], vtype=vtype(s), spec=s["spec"], tree=s["tree"], fty=of[2]))
    WRITER_HEADS[fn_path] = heads
    return out, text, problems, root


WRITER_HEADS = {}


def reader_fields(prog, fns):
    out = {}
    for fp in fns:
        rm = xmlgen.reader_map(prog, fp)
        for adt, flds in rm.items():
            for f, lst in flds.items():
                out.setdefault((adt, f), []).extend(lst)
    return out


def closure_lookups(prog, fn_path):
    """closures of a from_node function: list of dict(tags, type const compared, axis)"""
    fn = prog.fn(fn_path)
    out = {}
    for cl in prog.closures_of(fn):
        Rc = Resolver(cl)
        tags, types = [], []
        for bi, t in cl.calls(lambda c, t: c.endswith("has_tag_name")):
            a = strip(Rc.operand(t["args"][1]))
            tags.append(a[2] if a[0] == "const" else tree_str(a))
        for bi, t in cl.calls(lambda c, t: c.rsplit("::", 1)[-1] in ("eq", "ne")):
            for a in t["args"][:2]:
                for x in leaves(Rc.operand(a)):
                    if x[0] == "const" and isinstance(x[2], str) and x[2] not in ("type",):
                        types.append(x[2])
                    if x[0] == "const" and isinstance(x[2], tuple) and len(x[2]) == 3 and x[2][0] == "enum":
                        types.append(x[2][2])
        out[cl.path] = dict(tags=tags, types=types)
    return out


# ----------------------------------------------------------------------------------------

def inverse_maps(ctx, prog, rule_maps, rule_cov, rule_fmt, only=None):
    n_struct, n_fields = 0, 0
    skel_problems = []
    for label, adt, wfn, rfns in STRUCTS:
        if label == "Blob":
            continue
        if only is not None and label not in only:
            continue
        w, text, problems, root = writer_fields(prog, adt, wfn)
        r = reader_fields(prog, rfns)
        for f in [wfn] + rfns:
            ctx.fn_seen(prog.fn(f))
        n_struct += 1
        skel_problems += ["%s: %s" % (label, p) for p in problems if "outside any element" not in p or label not in ("Transform", "DateTime")]
        # Blob and DateTime read through attributes / closures: extend the reader map
        r.update(_special_reader(prog, label, adt, rfns))
        for (oadt, fld), sites in sorted(w.items()):
            if oadt != adt and not _same_family(oadt, adt):
                continue      # nested structures are compared under their own entry
            rr = r.get((oadt, fld))
            wtags = sorted({(s["tag"], _norm_type(s)) for s in sites if s["where"] in ("text", "cdata") or s["where"].startswith("attr:")})
            n_fields += 1
            if not rr:
                if (label, fld) in WRITE_ONLY_OK:
                    ctx.ob(rule_maps, "written-not-read/%s.%s" % (label, fld), True, "%s.%s is written as %s and deliberately not read back: %s" % (label, fld, wtags, WRITE_ONLY_OK[(label, fld)]), nontrivial=False)
                    continue
                # a lookup helper that takes the tag as its parameter (`let child = |tag| node.children().find(..)`) hides
                # which tag feeds which field from this extraction: undecided, not a violation
                param_tags = False
                for rf_ in rfns:
                    fn_ = prog.fns.get(rf_)
                    for cl_ in (prog.closures_of(fn_) if fn_ is not None else []):
                        Rc_ = Resolver(cl_)
                        for b_, t_ in cl_.calls(lambda c, t: c.endswith("has_tag_name")):
                            a_ = strip(Rc_.operand(t_["args"][1]))
                            if a_[0] != "const":
                                param_tags = True
                ctx.ob(rule_maps, "field-map/%s.%s" % (label, fld), None if param_tags else False, "%s.%s is written as %s but no lookup in %s reads it into that field%s" % (
                    label, fld, wtags, [short(x) for x in rfns], " (the reader looks tags up through a helper with a tag parameter)" if param_tags else ""))
                continue
            rtags = sorted({(t, ty) for t, ty, h in rr if t})
            if (label, fld) in MAP_EXCEPTIONS:
                ctx.ob(rule_maps, "field-map-exception/%s.%s" % (label, fld), True, "%s.%s: written as %s, read from %s — %s" % (label, fld, wtags, rtags, MAP_EXCEPTIONS[(label, fld)]), nontrivial=False)
                continue
            ok = _compatible(wtags, rtags)
            ctx.ob(rule_maps, "field-map/%s.%s" % (label, fld), ok, "%s.%s: written as %s, read from %s" % (label, fld, wtags, rtags), where=prog.fn(wfn).span["file"])
        # coverage: every field of the ADT is serialised
        a = prog.adts.get(adt)
        if a:
            for f in a["variants"][0]["fields"]:
                covered = f["name"] in WRITER_HEADS.get(wfn, set()) or (label, f["name"]) in NOT_SERIALISED_OK
                ctx.ob(rule_cov, "field-coverage/%s.%s" % (label, f["name"]), covered, "%s.%s (%s) %s by %s" % (label, f["name"], f["ty"], "is serialised" if covered else "is NOT serialised", short(wfn)),
                       nontrivial=False)
        # number formatting
        for (oadt, fld), sites in w.items():
            for s in sites:
                if s["vtype"] in NUMERIC:
                    ok = s["spec"] is None or xmlgen.plain_spec(s["spec"])
                    ok = ok and s["trait"].startswith("display") if "trait" in s else ok
                    # the number written is the field itself: no arithmetic between the field and the formatter
                    arith = [x for x in leaves(s["tree"]) if x[0] in ("binop", "unop") or (x[0] == "call" and x[1].rsplit("::", 1)[-1] in (
                        "abs", "neg", "mul", "add", "sub", "div", "round", "floor", "ceil", "trunc", "min", "max", "clamp", "rem", "powi", "sqrt"))]
                    ctx.ob(rule_fmt, "value-is-field/%s.%s" % (label, fld), not arith, "%s.%s is written as %s (must be the stored field itself, not a value computed from it)" % (label, fld, tree_str(strip_deep(s["tree"]))[:120]), nontrivial=False)
                    if not ok or True:
                        ctx.ob(rule_fmt, "plain-display/%s.%s" % (label, fld), ok, "%s.%s (%s) is formatted with spec %s (must be plain {} Display: shortest round-trip representation)" % (label, fld, s["vtype"], s["spec"]), nontrivial=False)
    if only is None or "IntensityLimits" in only or "ColorLimits" in only or "limits" in only:
        limit_value_forms(ctx, prog, rule_maps)
    ctx.floor(rule_maps, "structures compared", n_struct, 14 if only is None else len(only))
    ctx.floor(rule_maps, "fields compared", n_fields, 80 if only is None else 4 * len(only))
    ctx.ob("R3w", "skeleton-fragments", not skel_problems, "per-structure XML fragments tokenise as balanced XML: %s" % skel_problems[:5]) if False else None
    return skel_problems


LIMIT_FORMS = {"Integer": ("Integer", None), "ScaledInteger": ("ScaledInteger", None), "Single": ("Float", "single"), "Double": ("Float", "double")}


def limit_value_forms(ctx, prog, rule):
    """a limit value is a RecordValue: the element written for each variant must carry the (type, precision) pair that
    limits::extract_limit maps back to that variant (Float without precision is read as Double)"""
    n = 0
    for wfn in ("limits::IntensityLimits::xml_string", "limits::ColorLimits::xml_string"):
        out, text, problems, root = xmlgen.writer_map(prog, wfn)
        for name, sites in sorted(out.items()):
            m = re.search(r"\.(Integer|ScaledInteger|Single|Double)\.0$", name)
            if not m:
                continue
            want = LIMIT_FORMS[m.group(1)]
            for st in sites:
                if st["where"] != "text":
                    continue
                e = st.get("elem")
                n += 1
                attrs = e.attrs if e is not None else {}
                prec = attrs.get("precision")
                ok = attrs.get("type") == want[0] and (prec == want[1] or (want[1] in (None, "double") and prec is None))
                ctx.ob(rule, "limit-form/%s/%s/%s" % (short(wfn), st["path"].rsplit("/", 1)[-1], m.group(1)), ok,
                       "%s limit %s is written with type=%s precision=%s (the reader maps type=%s precision=%s to this variant)" % (
                           m.group(1), st["path"], attrs.get("type"), prec, want[0], want[1] or "absent"), nontrivial=False)
    ctx.floor(rule, "limit value forms (variant x limit element)", n, 32)


MAP_EXCEPTIONS = {
    ("Root", "minor_version"): "root_from_document reads versionMajor into minor_version; Root is crate-private and no API exposes the minor version, so no observable behaviour depends on it (observation in DESIGN.md)",
}
WRITE_ONLY_OK = {
    ("Root", "minor_version"): "root_from_document reads versionMajor twice (the minor version is not exposed by any API); observation recorded in DESIGN.md, not a round-trip loss",
}
NOT_SERIALISED_OK = {
    ("Root", "format"): "written as the constant format name",
    ("DateTime", "atomic_reference"): "written as the constant 1 / 0 selected by the field (decided by the dedicated rule datetime-flag)",
}


def _chain_heads(prog, wfn):
    fn = prog.fn(wfn)
    heads = set()
    toks = xmlgen.emissions(prog, fn)

    def visit(tl):
        for tk in tl:
            if tk[0] == "val":
                ch = chain_of(tk[1])
                if ch:
                    heads.update(clean_chain(ch[1])[:1])
            elif tk[0] == "call":
                for a in tk[2]:
                    ch = chain_of(a)
                    if ch:
                        heads.update(clean_chain(ch[1])[:1])
            elif tk[0] == "alt":
                for alt in tk[1]:
                    visit(alt)
    visit(toks)
    # guards such as `if let Some(x) = &self.field` that lead to emission through a nested call are covered by the call args
    return heads


def _same_family(a, b):
    fam = [{"images::VisualReferenceImage", "images::VisualReferenceImageProperties"}, {"images::PinholeImage", "images::PinholeImageProperties"},
           {"images::SphericalImage", "images::SphericalImageProperties"}, {"images::CylindricalImage", "images::CylindricalImageProperties"},
           {"transform::Transform", "transform::Quaternion", "transform::Translation"}]
    return any(a in f and b in f for f in fam)


def _norm_type(s):
    if s["where"].startswith("attr:"):
        return "attr:" + s["where"][5:]
    return s["etype"]


def _compatible(wtags, rtags):
    """writer (tag,type) set vs reader (tag,type) set"""
    wt = {t for t, _ in wtags}
    rt = {t for t, _ in rtags}
    if not wt or not wt <= rt:
        return False
    for t, ty in wtags:
        rty = {y for x, y in rtags if x == t}
        if ty is None:
            return False
        if ty.startswith("attr:"):
            if ty not in rty and "Blob" not in rty:
                return False
        elif "Limit" in rty:
            if ty not in ("Integer", "ScaledInteger", "Float"):
                return False
        elif ty not in rty:
            return False
    return True


def _special_reader(prog, label, adt, rfns):
    out = {}
    if label == "Blob":
        f = prog.fn("blob::Blob::from_node")
        R = Resolver(f)
        for bi in f.cfg():
            for st in f.blocks[bi]["stmts"]:
                if is_variant_agg(st["rv"], "blob::Blob", "Blob"):
                    for name, op in zip(st["rv"]["kind"]["fields"], st["rv"]["ops"]):
                        t = R.operand(op)
                        for x in leaves(t):
                            if x[0] == "call" and x[1].endswith("::attribute"):
                                a = strip(x[2][1])
                                if a[0] == "const":
                                    out.setdefault((adt, name), []).append(("!self", "attr:" + a[2], "attribute"))
        # normalise: writer tag is the element name given by the caller -> compare attribute names only
        out = {k: [(None, ty, h) for _, ty, h in v] for k, v in out.items()}
    if label == "DateTime":
        f = prog.fn("date_time::DateTime::from_node")
        R = Resolver(f)
        cls = closure_lookups(prog, f.path)
        for bi in f.cfg():
            for st in f.blocks[bi]["stmts"]:
                if is_variant_agg(st["rv"], "date_time::DateTime", "DateTime"):
                    for name, op in zip(st["rv"]["kind"]["fields"], st["rv"]["ops"]):
                        t = R.operand(op)
                        for x in leaves(t):
                            if x[0] == "agg" and x[1][0] == "closure" and x[1][1] in cls:
                                c = cls[x[1][1]]
                                for tag in c["tags"]:
                                    for ty in (c["types"] or [None]):
                                        out.setdefault((adt, name), []).append((tag, ty, "closure"))
    if label == "PointCloud":
        f = prog.fn("pointcloud::PointCloud::from_node")
        R = Resolver(f)
        # originalGuids: children <vectorChild type="String"> of the element found by the closure
        cl_tags = [t for c in closure_lookups(prog, f.path).values() for t in c["tags"]]
        body_tags = [strip(R.operand(t["args"][1]))[2] for bi, t in f.calls(lambda c, t: c.endswith("has_tag_name")) if strip(R.operand(t["args"][1]))[0] == "const"]
        str_cmp = any("'String'" in tree_str(strip_deep(R.operand(a))) or "Some('String')" in tree_str(R.operand(a)) for bi, t in f.calls(lambda c, t: c.rsplit("::", 1)[-1] in ("ne", "eq")) for a in t["args"][:2])
        # the same lookups spelled with iterator adapters: closures built (transitively) in from_node
        import panic_rules
        cctx = panic_rules.closure_context(prog)
        for cp, (owner, ops, recv) in cctx.items():
            o = owner
            for _ in range(3):
                if o.kind == "Closure" and o.path in cctx:
                    o = cctx[o.path][0]
            if o.path != f.path or cp not in prog.fns:
                continue
            g = prog.fns[cp]
            Rg = Resolver(g)
            for bi, t in g.calls(lambda c, t: c.endswith("has_tag_name")):
                a = strip(Rg.operand(t["args"][1]))
                if a[0] == "const":
                    (cl_tags if a[2] == "originalGuids" else body_tags).append(a[2])
            str_cmp = str_cmp or any("'String'" in tree_str(strip_deep(Rg.operand(a))) for bi, t in g.calls(lambda c, t: c.rsplit("::", 1)[-1] in ("ne", "eq")) for a in t["args"][:2])
        if "originalGuids" in cl_tags and "vectorChild" in body_tags and str_cmp:
            out.setdefault((adt, "original_guids"), []).append(("vectorChild", "String", "loop over originalGuids"))
        cls = closure_lookups(prog, f.path)
        for bi in f.cfg():
            for st in f.blocks[bi]["stmts"]:
                if is_variant_agg(st["rv"], "pointcloud::PointCloud", "PointCloud"):
                    for name, op in zip(st["rv"]["kind"]["fields"], st["rv"]["ops"]):
                        if name not in ("file_offset", "records"):
                            continue
                        t = R.operand(op)
                        for x in leaves(t):
                            if x[0] == "call" and x[1].endswith("::attribute"):
                                a = strip(x[2][1])
                                if a[0] == "const" and a[2] != "type":
                                    out.setdefault((adt, name), []).append(("points", "attr:" + a[2], "attribute"))
                            if x[0] == "agg" and x[1][0] == "closure" and x[1][1] in cls and name == "original_guids":
                                for tag in cls[x[1][1]]["tags"]:
                                    out.setdefault((adt, name), []).append((tag, "Vector", "closure"))
    return out


def blob_attrs(ctx, prog, rule):
    """Blob: attributes written = attributes read"""
    w, text, problems, root = writer_fields(prog, "blob::Blob", "blob::Blob::xml_string")
    r = _special_reader(prog, "Blob", "blob::Blob", [])
    for fld in ("offset", "length"):
        ws = sorted({s["where"] for s in w.get(("blob::Blob", fld), [])})
        rs = sorted({ty for _, ty, _ in r.get(("blob::Blob", fld), [])})
        ctx.ob(rule, "field-map/Blob.%s" % fld, ws == rs and len(ws) == 1, "Blob.%s: written to %s, read from %s" % (fld, ws, rs))
    e = [x for x in xmlgen.walk(root)]
    ctx.ob(rule, "blob-type-attr", len(e) == 1 and e[0].attrs.get("type") == "Blob", "blob elements carry type=\"Blob\"", nontrivial=False)


# ----------------------------------------------------------------------------------------
# escaping gate (C04-R5)

def _numeric_text(t):
    """x.to_string() of a numeric x (or a choice between such)"""
    while t[0] in ("ok", "partial", "ref") or (t[0] == "cast"):
        t = t[2] if t[0] == "cast" else t[1]
    if t[0] == "phi":
        return all(_numeric_text(a) for a in t[1])
    return t[0] == "call" and t[1].endswith("ToString>::to_string") and len(t) > 4 and t[4] and t[4][0].lstrip("&").strip() in NUMERIC


def escaping_gate(ctx, prog, rule):
    m, text, problems, root = xmlgen.writer_map(prog, "root::serialize_root")
    n_str = 0
    for name, sites in m.items():
        for s in sites:
            ty = vtype(s)
            if ty in NUMERIC or _numeric_text(s["tree"]):
                continue
            n_str += 1
            tree = strip(s["tree"])
            key = re.sub(r"replace\(|,.*", "", name)[:60]
            if s["where"] == "cdata":
                ok = _is_replace(tree, "]]>", "]]]]><![CDATA[>")
                ctx.ob(rule, "cdata-escaped/%s" % s["path"].replace("e57Root/", ""), ok,
                       "string %s reaches CDATA of <%s> as %s (must pass replace(\"]]>\", \"]]]]><![CDATA[>\"), the only sequence CDATA cannot carry)" % (key, s["path"], tree_str(tree)[:120]), where=s["fn"])
            elif s["where"].startswith("attr:"):
                chain = _replace_chain(tree)
                order = [c[0] for c in chain]
                ok = "&" in order and order[0] == "&" and "<" in order and '"' in order and all(dict(chain).get(k) == v for k, v in (("&", "&amp;"), ("<", "&lt;"), ('"', "&quot;")))
                ctx.ob(rule, "attribute-escaped/%s/%s" % (s["path"].replace("e57Root/", ""), s["where"][5:]), ok,
                       "string %s reaches attribute %s of <%s> through the replacements %s (must escape & first, then < and \")" % (key, s["where"][5:], s["path"], chain), where=s["fn"])
            elif s["where"] in ("name", "attrname"):
                if "serialize_record_type" in tree_str(tree):
                    continue      # the attribute list of a prototype record: decided by the type-attributes rule
                ok = _name_is_validated(prog, tree)
                ctx.ob(rule, "name-validated/%s" % key, ok, "string %s is used as an XML name in <%s>; it must come from a value checked by Extension::validate_name (%s)" % (key, s["path"], tree_str(tree)[:100]), where=s["fn"])
            elif s["where"] == "text":
                # non-numeric text outside CDATA
                alts = tree[1] if tree[0] == "phi" else (tree,)
                ok = all(a[0] == "const" for a in alts) or "serialize_record_type" in tree_str(tree)
                ctx.ob(rule, "text-is-constant/%s" % s["path"].replace("e57Root/", ""), ok, "non-numeric value %s is written as element text outside CDATA" % tree_str(tree)[:100], where=s["fn"])
    ctx.floor(rule, "string values reaching the XML", n_str, 25)


def _is_replace(t, a, b):
    t = strip(t)
    return t[0] == "call" and t[1].endswith("::replace") and len(t[2]) == 3 and _lit(t[2][1]) == a and _lit(t[2][2]) == b


def _lit(t):
    t = strip(t)
    if t[0] == "const":
        if isinstance(t[2], str):
            return t[2]
        if isinstance(t[2], int) and t[1] == "char":
            return chr(t[2])
    if t[0] == "local" or t[0] == "phi":
        return None
    return None


def _replace_chain(t):
    """innermost-first list of (from, to) replacements applied to a value"""
    chain = []
    t = strip(t)
    while t[0] == "call" and t[1].endswith("::replace") and len(t[2]) == 3:
        chain.append((_lit(t[2][1]), _lit(t[2][2])))
        t = strip(t[2][0])
    return chain[::-1]


def _name_is_validated(prog, tree):
    s = tree_str(tree)
    # record names: tag_name()/namespace() of Record.name, validated by Extension::validate_prototype in add_pointcloud
    if "tag_name(" in s or "namespace(" in s or s.endswith(".namespace") or ".namespace" in s:
        f = prog.fn("e57_writer::E57Writer::<T>::add_pointcloud")
        v = [bi for bi, t in f.calls(lambda c, t: c == "extension::Extension::validate_prototype")]
        n = [bi for bi, t in f.calls(lambda c, t: c.endswith("PointCloudWriter::<'a, T>::new"))]
        ok1 = bool(v) and bool(n) and gated_by_ok(f, v[0], n)
        g = prog.fn("e57_writer::E57Writer::<T>::register_extension")
        v2 = [bi for bi, t in g.calls(lambda c, t: c == "extension::Extension::validate_name")]
        p2 = [bi for bi, t in g.calls(lambda c, t: c.endswith("Vec::<T, A>::push"))]
        ok2 = bool(v2) and bool(p2) and gated_by_ok(g, v2[0], p2)
        h = prog.fn("extension::Extension::validate_prototype")
        names = sorted(tree_str(strip(Resolver(h).operand(t["args"][0]))) for bi, t in h.calls(lambda c, t: c == "extension::Extension::validate_name"))
        ok3 = len(names) == 2 and all(branch_of_call(h, bi) is not None for bi, t in h.calls(lambda c, t: c == "extension::Extension::validate_name"))
        return ok1 and ok2 and ok3
    return False


def xml_name_start(ctx, prog, rule):
    """validate_name must reject names that XML does not accept (first character digit or '-')."""
    f = prog.fn("extension::Extension::validate_name")
    ctx.fn_seen(f)
    R = Resolver(f)
    first_char_check = False
    for bi, t in f.calls():
        c = callee_of(t)
        if c.endswith("Chars<'a> as std::iter::Iterator>::next") or c.endswith("::first") or (c.endswith("starts_with") and False):
            # `name.chars().next()` inspects the first character; the next() of a loop over all characters does not
            if not any(bi in body for body in natural_loops(f).values()):
                first_char_check = True
    for cl in prog.closures_of(f):
        pass
    # starts_with(|c| ..) / starts_with(char::is_...) on the name itself (not on the lower-cased copy used for the "xml" prefix test)
    for bi, t in f.calls(lambda c, t: c.endswith("::starts_with")):
        a = strip(R.operand(t["args"][1]))
        if not (a[0] == "const" and isinstance(a[2], str)):
            first_char_check = True
    ctx.ob(rule, "xml-name-start/Extension::validate_name", first_char_check,
           "validate_name checks every character against [A-Za-z0-9_-] but has no separate rule for the first character, so names such as '0129' or '-_-' pass although they are not XML names (the finalized file does not parse)")
    # the per-character predicate itself
    okp = False
    for cl in prog.closures_of(f):
        cs = [short(callee_of(t)) for bi, t in cl.calls()]
        txt = " ".join(tree_str(strip_deep(Resolver(cl).local(0))) for _ in [0])
        okp = okp or any("is_ascii_alphanumeric" in x for x in cs)
    # a predicate spelled differently (range patterns in a loop) is not judged here: undecided, not a violation
    ctx.ob(rule, "xml-name-chars/Extension::validate_name", True if okp else None, "every character must be ASCII alphanumeric, '_' or '-'", nontrivial=False)
    # empty and xml-prefixed names rejected
    errs = [bi for bi, t in f.calls(lambda c, t: c == "error::Error::invalid")]
    ctx.ob(rule, "xml-name-rejections/Extension::validate_name", len(errs) >= 3, "%d rejection sites (empty, xml prefix, characters)" % len(errs), nontrivial=False)


# ----------------------------------------------------------------------------------------
# vocabulary and skeleton (C02-R2/R3)

def vocabulary(ctx, prog, rule_vocab, rule_wf):
    m, text, problems, root = xmlgen.writer_map(prog, "root::serialize_root")
    ctx.fn_seen(prog.fn("root::serialize_root"))
    ctx.ob(rule_wf, "skeleton-well-formed/serialize_root", not problems, "the maximal document skeleton (all optionals taken, loops once, %d characters) tokenises as balanced XML: %s" % (len(text), problems[:4]))
    top = [e for e in root.children]
    okroot = len(top) == 1 and top[0].tag == "e57Root" and top[0].attrs.get("xmlns") == VOCAB["namespace"] and top[0].attrs.get("type") == "Structure"
    ext_ns = [a for a in (top[0].attrs if top else {}) if a.startswith("xmlns:")]
    ctx.ob(rule_wf, "root-namespace/serialize_root", okroot and len(ext_ns) == 1, "root element e57Root carries the default namespace %s and one xmlns:<prefix> per registered extension: %s" % (VOCAB["namespace"], sorted((top[0].attrs if top else {}).keys())))
    ctx.ob(rule_wf, "xml-declaration/serialize_root", text.startswith('<?xml version="1.0" encoding="UTF-8"?>'), "document starts with the XML declaration", nontrivial=False)
    n = 0
    bad = []
    for e in xmlgen.walk(root):
        if e.parent is None or e.parent.tag is None:
            continue
        if xmlgen.MARK_RE.search(e.tag):
            # prototype records: names come from RecordName::tag_name (checked separately)
            continue
        ctxname = _vocab_context(e.parent)
        spec = VOCAB.get(ctxname)
        n += 1
        if spec is None or e.tag not in spec.get("children", {}):
            bad.append("<%s> inside <%s> (context %s) is not in the E57 vocabulary" % (e.tag, e.parent.tag, ctxname))
            continue
        want = spec["children"][e.tag][0].split("|")
        if e.attrs.get("type") not in want:
            bad.append("<%s> inside <%s> has type=%s, standard says %s" % (e.tag, e.parent.tag, e.attrs.get("type"), want))
    for b in bad:
        ctx.ob(rule_vocab, "vocabulary/%s" % re.sub(r"[^A-Za-z<>/ ]", "", b)[:60], False, b)
    ctx.ob(rule_vocab, "vocabulary/all-elements", not bad, "%d elements of the writer's skeleton checked against the table written from the standard (parent, name, E57 type)" % n)
    ctx.floor(rule_vocab, "elements in the skeleton", n, 150)
    # required children are emitted unconditionally
    f = prog.fn("root::serialize_root")
    # tag names of the prototype: RecordName::tag_name table ⊆ spec
    tn = prog.fn("record::RecordName::tag_name")
    ctx.fn_seen(tn)
    R = Resolver(tn)
    t = R.local(0)
    consts = sorted(a[2] for a in (t[1] if t[0] == "phi" else (t,)) if strip(a)[0] == "const" and isinstance(strip(a)[2], str))
    ctx.ob(rule_vocab, "prototype-names/RecordName::tag_name", consts == sorted(VOCAB["prototype_names"]), "standard point attributes are written as %s" % consts)
    # reader side of the same table
    fr = prog.fn("record::RecordName::from_namespace_and_tag_name")
    ctx.fn_seen(fr)
    return root


def _vocab_context(parent):
    tag = parent.tag
    if tag == "vectorChild":
        return "%s/vectorChild" % parent.parent.tag
    if tag in VOCAB.get("aliases", {}):
        return VOCAB["aliases"][tag]
    return tag


def record_name_tables(ctx, prog, rule):
    """RecordName::tag_name and from_namespace_and_tag_name are inverse on the standard names."""
    tn = prog.fn("record::RecordName::tag_name")
    R = Resolver(tn)
    w = {}
    names = [v["name"] for v in prog.adt("record::RecordName")["variants"]]
    for bi in tn.cfg():
        t = tn.blocks[bi]["term"]
        if t["k"] == "switch":
            for v, tgt in t["targets"]:
                for st in tn.blocks[tgt]["stmts"]:
                    if not st["place"]["proj"] and tn.local_ty(st["place"]["local"]) == "&str":
                        x = strip(R.rvalue(st["rv"]))
                        if x[0] == "const" and isinstance(x[2], str):
                            w[names[int(v)]] = x[2]
    fr = prog.fn("record::RecordName::from_namespace_and_tag_name")
    Rr = Resolver(fr)
    r = {}
    # string match: chain of <str as PartialEq>::eq(tag, "const") -> variant aggregate
    for bi, t in fr.calls(lambda c, t: c.rsplit("::", 1)[-1] == "eq"):
        cst = None
        for a in t["args"][:2]:
            x = strip(Rr.operand(a))
            if x[0] == "const" and isinstance(x[2], str):
                cst = x[2]
        be = bool_edges(fr, bi)
        if cst and be:
            b = be[1]
            for _ in range(3):
                found = None
                for st in fr.blocks[b]["stmts"]:
                    if st["rv"]["k"] == "aggregate" and st["rv"]["kind"].get("adt") == "record::RecordName":
                        found = st["rv"]["kind"]["variant"]
                if found:
                    r[found] = cst
                    break
                tt = fr.blocks[b]["term"]
                if tt["k"] == "goto":
                    b = tt["target"]
                else:
                    break
    ok = w == r and len(w) == 20
    if not ok and (not r or not w) and len(w) in (0, 20) and len(r) in (0, 20):
        ok = None       # one direction is not spelled as a match on constants at all (e.g. a lookup table): not judged
    ctx.ob(rule, "record-name-tables", ok, "RecordName -> tag (%d) and tag -> RecordName (%d) are inverse tables" % (len(w), len(r)) + ("" if ok else ": %s vs %s" % (sorted(set(w.items()) ^ set(r.items()))[:6], "")))


# ----------------------------------------------------------------------------------------
# prototype type attributes (C19-R2, C04)

def float_limit_emission(ctx, prog, rule):
    """a Single / Double prototype record carries `minimum` exactly when its min is Some and `maximum` exactly when its
    max is Some, independently of each other: decided per variant and per presence combination on the pruned flow graph
    of serialize_record_type (a one-sided limit is a legal prototype and has to come back)"""
    from simple_rules import _assume_option, assume_cfg, leaf_name
    f = prog.fn("record::serialize_record_type")
    R = Resolver(f)
    adt = prog.adt("record::RecordDataType")
    vidx = {v["name"]: i for i, v in enumerate(adt["variants"])}
    # emission sites: appends whose text starts an attribute
    sites = {"minimum": [], "maximum": []}
    for bi, t in f.calls(lambda c, t: c.endswith("AddAssign<&str>>::add_assign") or c.endswith("String::push_str")):
        arg = R.operand(t["args"][1])
        sa = strip(arg)
        # `s += &helper(min, max)` with the helper inlined: the appended value is a choice between strings built in
        # different arms - the site of an attribute is the arm that builds it
        for alt in (sa[1] if sa[0] == "phi" else (arg,)):
            try:
                toks = xmlgen.sval(prog, f, alt)
            except Exception:
                continue
            lits = " ".join(tk[1] for tk in toks if tk[0] == "lit")
            blk = bi
            if sa[0] == "phi":
                calls_ = [x for x in leaves(alt) if x[0] == "call" and len(x) > 3 and isinstance(x[3], int) and x[3] >= 0]
                blk = calls_[0][3] if calls_ else bi
            for a in sites:
                if (" %s=" % a) in lits:
                    sites[a].append(blk)
    n = 0
    for var in ("Single", "Double"):
        if not sites["minimum"] or not sites["maximum"]:
            ctx.ob(rule, "float-limit-emission/%s" % var, None, "no separate appends of minimum / maximum found in serialize_record_type (%s)" % {k: len(v) for k, v in sites.items()})
            continue
        gv = assume_cfg(f, [(lambda s_: strip(s_) == ("param", 1) or leaf_name(s_) == "arg1", vidx[var])])
        bad = []
        for smin in (0, 1):
            for smax in (0, 1):
                go = _assume_option(f, {"arg1.%s.min" % var: smin, "arg1.%s.max" % var: smax})
                g = {b: [x for x in ss if x in go.get(b, [])] for b, ss in gv.items()}
                r = reach(g, [0])
                got_min = any(b in r for b in sites["minimum"])
                got_max = any(b in r for b in sites["maximum"])
                n += 1
                if got_min != bool(smin) or got_max != bool(smax):
                    bad.append("min %s / max %s -> minimum %s, maximum %s" % ("Some" if smin else "None", "Some" if smax else "None", "written" if got_min else "not written", "written" if got_max else "not written"))
        ctx.ob(rule, "float-limit-emission/%s" % var, not bad, "%s: minimum is written exactly when min is Some and maximum exactly when max is Some%s" % (var, ("; VIOLATED: " + "; ".join(bad)) if bad else ""))
    if n < 8:
        ctx.ob(rule, "float-limit-emission/coverage", None, "only %d of 8 presence combinations could be decided (the attributes are not appended at separate sites)" % n, nontrivial=False)


def type_attributes(ctx, prog, rule):
    f = prog.fn("record::serialize_record_type")
    ctx.fn_seen(f)
    float_limit_emission(ctx, prog, rule)
    R = Resolver(f)
    ret = R.local(0)
    alts = ret[1] if ret[0] == "phi" else (ret,)
    written = {}
    fmts = {}
    for a in alts:
        a = strip(a)
        if not (a[0] == "agg" and a[1][0] == "tuple"):
            continue
        first = strip(a[2][0])
        if first[0] == "const" or (first[0] == "partial") or not (first[0] == "call" and first[1].endswith("must_use")):
            toks = _builder_tokens(prog, f, a[2][0])
        else:
            toks = xmlgen.expand(prog, f, xmlgen.sval(prog, f, a[2][0]))
        text, vals = xmlgen.render(toks)
        attrs = dict(re.findall(r'(\w+)="([^"]*)"', text))
        ty = attrs.get("type")
        prec = attrs.get("precision")
        key = ty if ty != "Float" else ("Float:single" if prec == "single" else "Float:double")
        vmap = {}
        for an, av in attrs.items():
            mm = xmlgen.MARK_RE.search(av)
            if mm:
                v = vals[int(mm.group(1))]
                vmap[an] = (leaf_name(v[1]), vtype(dict(trait=v[2])), v[3])
        written[key] = (sorted(attrs), vmap)
    want = {"Float:single": ["maximum", "minimum", "precision", "type"], "Float:double": ["maximum", "minimum", "type"],
            "ScaledInteger": ["maximum", "minimum", "offset", "scale", "type"], "Integer": ["maximum", "minimum", "type"]}
    got = {k: v[0] for k, v in written.items()}
    verdict_w = got == want
    if not verdict_w and all(got.get(k) == want[k] for k in ("ScaledInteger", "Integer")) and all(
            got.get(k) is not None and set(got[k]) <= set(want[k]) and set(want[k]) - set(got[k]) <= {"minimum", "maximum"} for k in ("Float:single", "Float:double")):
        # the optional float limits are appended under attribute names this extraction cannot read (computed keys):
        # undecided here; their presence logic is float-limit-emission's business
        verdict_w = None
    ctx.ob(rule, "type-attributes/written", verdict_w, "attributes written per data type: %s (integer kinds must always carry minimum and maximum, scaled integers scale and offset)" % got)
    okv = True
    for k, (_, vmap) in written.items():
        var = {"Float:single": "Single", "Float:double": "Double"}.get(k, k)
        for an, fld in (("minimum", "min"), ("maximum", "max"), ("scale", "scale"), ("offset", "offset")):
            if an in vmap:
                name, ty, spec = vmap[an]
                okv = okv and name.replace(".Some.0", "") == "arg1.%s.%s" % (var, fld) and (spec is None or xmlgen.plain_spec(spec))
    ctx.ob(rule, "type-attributes/values", okv, "each attribute carries the field of the same meaning, formatted with plain Display: %s" % {k: {a: v[0] for a, v in vm.items()} for k, (_, vm) in written.items()})
    # unconditional for the integer kinds: the integer arms are single format! calls (no Option guards)
    # reader vocabulary
    g = prog.fn("record::RecordDataType::from_node")
    ctx.fn_seen(g)
    Rg = Resolver(g)
    read = collections.defaultdict(set)
    for bi, t in g.calls(lambda c, t: c == "record::optional_attribute" or c.startswith("record::optional_attribute::<")):
        a = strip(Rg.operand(t["args"][1]))
        ty = t["callee"]["args"][-1] if t["callee"].get("args") else "?"
        read[a[2]].add(ty)
    for bi, t in g.calls(lambda c, t: c.endswith("::attribute")):
        a = strip(Rg.operand(t["args"][1]))
        if a[0] == "const":
            read[a[2]].add("str")
    wantr = {"minimum": {"f32", "f64", "i64"}, "maximum": {"f32", "f64", "i64"}, "scale": {"f64"}, "offset": {"f64"}, "precision": {"str"}, "type": {"str"}}
    ctx.ob(rule, "type-attributes/read", dict(read) == wantr, "attributes read by RecordDataType::from_node with their parse types: %s" % {k: sorted(v) for k, v in read.items()})


def _builder_tokens(prog, f, tree):
    """`let mut str = String::from(..); if .. { str += &format!(..) }` tuples in serialize_record_type"""
    t = strip(tree)
    # the local is a String builder: collect String::from + add_assign on it in RPO order
    R = Resolver(f)
    out = []
    # find builder locals by their initial constant
    init = None
    for x in leaves(tree):
        if x[0] == "const" and isinstance(x[2], str) and x[2].startswith("type="):
            init = x[2]
    if init is None:
        raise xmlgen.CannotInterpret("cannot interpret attribute string %s" % tree_str(t)[:100])
    # locate the builder local
    order = {b: i for i, b in enumerate(rpo(f.cfg(), 0))}
    target = None
    for n, ds in f.defs().items():
        for kind, payload, bi, si, place in ds:
            if kind == "call" and not place["proj"] and callee_of(payload).endswith("From<&str>>::from"):
                a = strip(R.operand(payload["args"][0]))
                if a[0] == "const" and a[2] == init:
                    target = n
    toks = [("lit", init)]
    adds = []
    for bi, tt in f.calls(lambda c, t: c.endswith("AddAssign<&str>>::add_assign")):
        p = op_place(tt["args"][0])
        ds = f.whole_defs(p["local"]) if p else []
        if len(ds) == 1 and ds[0][0] == "stmt" and ds[0][1]["k"] == "ref" and ds[0][1]["place"]["local"] == target:
            adds.append((order.get(bi, 0), xmlgen.sval(prog, f, R.operand(tt["args"][1]))))
    for _, tl in sorted(adds, key=lambda x: x[0]):
        toks.extend(tl)
    return xmlgen.expand(prog, f, toks)


def prototype_order(ctx, prog, rule):
    f = prog.fn("pointcloud::PointCloud::from_node")
    ctx.fn_seen(f)
    R = Resolver(f)
    ok = False
    for bi, t in f.calls(lambda c, t: c.endswith("Vec::<T, A>::push")):
        v = strip(R.operand(t["args"][1]))
        if v[0] == "agg" and v[1][0] == "adt" and v[1][1] == "record::Record":
            loops = natural_loops(f)
            ok = any(bi in body for body in loops.values()) and "children" in tree_str(v)
    if not ok:
        # the same as an iterator pipeline: prototype_tag.children().filter(..).map(|n| .. Record{..}).collect()
        ORDER_KEEPING = ("map", "filter", "filter_map", "into_iter", "iter", "by_ref", "peekable", "fuse", "inspect", "map_while", "take_while", "flatten", "flat_map")
        for bi in f.cfg():
            for st in f.blocks[bi]["stmts"]:
                if not is_variant_agg(st["rv"], "pointcloud::PointCloud", "PointCloud"):
                    continue
                vals = dict(zip(st["rv"]["kind"]["fields"], st["rv"]["ops"]))
                x = strip(R.operand(vals["prototype"]))
                if not (x[0] == "call" and x[1].rsplit("::", 1)[-1] == "collect" and x[2]):
                    continue
                chain, builds_record = [], False
                y = strip(x[2][0])
                while y[0] == "call" and y[2]:
                    last = y[1].rsplit("::", 1)[-1]
                    chain.append(last)
                    if last in ("map", "filter_map") and len(y[2]) == 2:
                        cl = strip(y[2][1])
                        if cl[0] == "agg" and cl[1][0] == "closure" and cl[1][1] in prog.fns:
                            cf = prog.fns[cl[1][1]]
                            builds_record = builds_record or any(is_variant_agg(s2["rv"], "record::Record", "Record") for b2 in cf.cfg() for s2 in cf.blocks[b2]["stmts"])
                    if last == "children":
                        break
                    y = strip(y[2][0])
                ok = bool(chain) and chain[-1] == "children" and all(c in ORDER_KEEPING for c in chain[:-1]) and builds_record
    ctx.ob(rule, "prototype-order/reader", ok, "records are pushed in the document order of the children of <prototype>")
    g = prog.fn("pointcloud::PointCloud::xml_string")
    ctx.fn_seen(g)
    Rg = Resolver(g)
    okw = False
    for bi, t in g.calls(lambda c, t: c == "record::Record::xml_string"):
        a = tree_str(strip(Rg.operand(t["args"][0])))
        okw = "arg1.prototype" in a and "next" in a and "rev" not in a and "sort" not in a
    ctx.ob(rule, "prototype-order/writer", okw, "records are written by iterating self.prototype in order")


# ----------------------------------------------------------------------------------------
# namespace / scoping rules (C18)

def child_tags(prog, t):
    """tags of the child-element lookups inside a value tree: every `find(<iterator>, |n| n.has_tag_name(TAG))`, with a
    captured TAG resolved to the capturing function's value"""
    import names as nm
    out = []
    for x in leaves(t):
        if x[0] == "agg" and x[1][0] == "closure" and x[1][1] in prog.fns:
            g = prog.fns[x[1][1]]
            Rg = Resolver(g)
            cap = nm._capture_index(g)
            for bi, tt in g.calls(lambda c, t: c.endswith("has_tag_name")):
                a = strip(Rg.operand(tt["args"][1]))
                if a[0] == "field" and strip(a[1]) == ("param", 1) and a[2] in cap and cap[a[2]] < len(x[2]):
                    a = strip(x[2][cap[a[2]]])
                out.append(a[2] if a[0] == "const" and isinstance(a[2], str) else None)
    return out


def _filter_predicate(pf):
    """closure `|n| n.has_tag_name("vectorChild") && n.attribute("type") == Some("Structure")`: can it return true only
    when both tests hold?"""
    R = Resolver(pf)
    tag_edges, type_edges = [], []
    for bi, t in pf.calls(lambda c, t: c.endswith("has_tag_name")):
        a = strip(R.operand(t["args"][1]))
        if a[0] == "const" and a[2] == "vectorChild":
            tag_edges += [(sw, tr) for sw, tr, fa in bool_switches(pf, bi)]
            tag_call = bi
    type_calls = []
    for bi, t in pf.calls(lambda c, t: c.rsplit("::", 1)[-1] in ("eq", "ne")):
        txt = tree_str(strip_deep(R.operand(t["args"][0]))) + tree_str(strip_deep(R.operand(t["args"][1])))
        if "'type'" in txt and "'Structure'" in txt and callee_of(t).endswith("eq"):
            type_calls.append(bi)
    res = {"tag": False, "type": False}
    if not tag_edges or not type_calls:
        return res
    # every definition of the result is the constant false, or the type comparison evaluated behind the tag test
    behind_tag = lambda b: b not in reach(cfg_without_edges(pf, tag_edges), [0])
    ok_tag = ok_type = True
    for kind, payload, bi, si, place in pf.defs().get(0, []):
        if place["proj"] or bi not in pf.cfg():
            continue
        if kind == "call":
            ok_type = ok_type and bi in type_calls
            ok_tag = ok_tag and behind_tag(bi)
            continue
        v = strip(R.rvalue(payload))
        if v[0] == "const" and v[2] == 0:
            continue
        if v[0] == "call" and len(v) > 3 and v[3] in type_calls:
            ok_tag = ok_tag and behind_tag(v[3])
            continue
        if v[0] == "const" and v[2] == 1:
            ok_tag = ok_tag and behind_tag(bi)
            te = [(sw, tr) for tc in type_calls for sw, tr, fa in bool_switches(pf, tc)]
            ok_type = ok_type and bool(te) and bi not in reach(cfg_without_edges(pf, te), [0])
            continue
        ok_tag = ok_type = False
    res["tag"], res["type"] = ok_tag, ok_type
    return res


def lookup_sites(prog):
    """every has_tag_name / descendants use in the reader: list of dict(fn, tag, axis, ns_aware)"""
    out = []
    for p, f in sorted(prog.fns.items()):
        R = Resolver(f)
        for bi, t in f.calls(lambda c, t: c.endswith("has_tag_name")):
            a = strip(R.operand(t["args"][1]))
            owner = p.split("::{closure")[0]
            if f.kind == "Closure" and (owner not in prog.fns or not (a[0] == "const" and isinstance(a[2], str))):
                # a tag captured from the enclosing function; when that function is a helper that was inlined into
                # its callers, the lookup belongs to the caller and the tag is the caller's constant
                import panic_rules
                ofn, tt = panic_rules.translate_closure_tree(prog, f, R.operand(t["args"][1]))
                tt = strip(tt)
                if owner not in prog.fns and ofn is not f:
                    owner = ofn.path.split("::{closure")[0]
                    if not (a[0] == "const" and isinstance(a[2], str)):
                        a = tt
                elif tt[0] == "const" and isinstance(tt[2], str):
                    a = tt
            if a[0] == "const" and isinstance(a[2], str):
                tag = a[2]
            else:
                # a tag that is not a constant: name it after the parameter of the owning function it comes from
                import panic_rules
                ofn2, tt2 = panic_rules.translate_closure_tree(prog, f, R.operand(t["args"][1])) if f.kind == "Closure" else (f, a)
                tt2 = strip(tt2)
                while tt2[0] in ("cast", "ref"):
                    tt2 = strip(tt2[2] if tt2[0] == "cast" else tt2[1])
                if tt2[0] == "param" and ofn2.local_name(tt2[1]):
                    tag = "<param:%s>" % ofn2.local_name(tt2[1])
                else:
                    tag = "<%s>" % tree_str(a)
            gen = [g for g in t["callee"].get("args", []) if not g.startswith("'")]
            ns_aware = not any(g.strip() == "&str" or g.strip().endswith("&str") for g in gen)
            out.append(dict(fn=p, owner=owner, tag=tag, ns_aware=ns_aware, block=bi, line=f.file_line(bi)))
    return out


def axis_sites(prog):
    out = []
    for p, f in sorted(prog.fns.items()):
        for bi, t in f.calls(lambda c, t: c.endswith("::descendants")):
            # which closure consumes it
            R = Resolver(f)
            tags = []
            for b2, t2 in f.calls(lambda c, t: c.endswith("::find")):
                tr = R.operand(t2["args"][0])
                if any(x[0] == "call" and x[1].endswith("::descendants") and x[3] == bi for x in leaves(tr)):
                    cls = [x for x in leaves(R.operand(t2["args"][1])) if x[0] == "agg" and x[1][0] == "closure"]
                    for c in cls:
                        cf = prog.fns.get(c[1][1])
                        if cf:
                            for b3, t3 in cf.calls(lambda c, t: c.endswith("has_tag_name")):
                                a = strip(Resolver(cf).operand(t3["args"][1]))
                                tags.append(a[2] if a[0] == "const" else "<param>")
            out.append(dict(fn=p, tags=tags, line=f.file_line(bi)))
    return out


def bodies_of(prog, path):
    """the function and every closure written inside it: (body, tr) where tr(tree) expresses a value of that body in
    terms of the function (captures become the function's values, the closure's item parameter becomes
    next(<receiver of the adapter it is handed to>))"""
    import panic_rules
    cctx = panic_rules.closure_context(prog)

    def owner_of(q):
        # the function whose body builds the closure (after inlining this may be another one than its lexical parent)
        for _ in range(4):
            if q not in cctx:
                return q.split("::{closure")[0] if "::{closure" in q else q
            q = cctx[q][0].path
            if prog.fns.get(q) is not None and prog.fns[q].kind != "Closure":
                return q
        return q
    out = []
    for p, g in sorted(prog.fns.items()):
        if p == path:
            out.append((g, lambda t: t))
        elif g.kind == "Closure" and (p.startswith(path + "::{closure") or owner_of(p) == path):
            out.append((g, lambda t, g=g: panic_rules.translate_closure_tree(prog, g, t)[1]))
    return out


def namespace_rules(ctx, prog, rule_ns, rule_axis, rule_proto):
    sites = lookup_sites(prog)
    n = 0
    for s in sites:
        n += 1
        ctx.ob(rule_ns, "ns-blind/%s/%s" % (short(s["owner"]), s["tag"]), s["ns_aware"],
               "%s matches elements with has_tag_name(%r) by local name only: a foreign-namespace element <ext:%s> placed before the standard one is taken for it" % (s["owner"], s["tag"], s["tag"].strip("<>")),
               where=s["line"])
    ctx.floor(rule_ns, "element lookups in the reader", n, 20, semantic=False)
    # attributes: Node::attribute("name") only matches attributes without a namespace; walking attributes() and
    # comparing Attribute::name() matches <e ext:type=".."> as well
    blind = []
    for p, f in sorted(prog.fns.items()):
        for bi, t in f.calls(lambda c, t: c.endswith("Attribute<'a, 'input>::name") or (c.endswith("::name") and "Attribute" in c)):
            g = f
            owner = p.split("::{closure")[0]
            has_ns = any(True for _ in f.calls(lambda c, t: "Attribute" in c and c.endswith("::namespace")))
            if not has_ns:
                blind.append((owner, f.file_line(bi)))
    for owner, line in blind:
        ctx.ob(rule_ns, "attr-ns-blind/%s" % short(owner), False, "%s selects an attribute by Attribute::name() without looking at its namespace: a foreign attribute such as ext:type is taken for the standard one" % owner, where=line)
    ctx.ob(rule_ns, "attributes-by-name-only", not blind, "no attribute is selected by iterating attributes() and comparing local names (%d such sites)" % len(blind), nontrivial=False)
    for a in axis_sites(prog):
        ctx.ob(rule_axis, "descendants/%s/%s" % (short(a["fn"]), ",".join(a["tags"])), False,
               "%s searches %s with descendants(): an element of that name nested anywhere below (e.g. inside extension content) is accepted, not only a direct child" % (a["fn"], a["tags"]), where=a["line"])
    # prototype naming: lookup_prefix is asked on the record element itself with its own namespace
    f = prog.fn("pointcloud::PointCloud::from_node")
    ctx.fn_seen(f)
    ok = False
    desc = ""
    for g, tr in bodies_of(prog, f.path):
      Rg = Resolver(g)
      for bi, t in g.calls(lambda c, t: c.endswith("::lookup_prefix")):
        recv = strip(tr(Rg.operand(t["args"][0])))
        ns = tr(Rg.operand(t["args"][1]))
        desc = "%s.lookup_prefix(%s)" % (tree_str(recv)[:80], tree_str(strip(ns))[:120])
        tn = [x for x in leaves(ns) if x[0] == "call" and x[1].endswith("::tag_name")]
        same = bool(tn) and tree_str(strip_deep(tn[0][2][0])) == tree_str(strip_deep(recv))
        is_child = "children" in tree_str(recv) and "next" in tree_str(recv)
        ok = same and is_child
    ctx.ob(rule_proto, "prototype-prefix/PointCloud::from_node", ok, "record namespace prefix: %s (must be looked up on the record element itself, for its own namespace, so that declarations on the element are seen)" % desc)
    # record name constructed from (prefix, local name) of the same element
    okn = False
    for g, tr in bodies_of(prog, f.path):
      Rg = Resolver(g)
      for bi, t in g.calls(lambda c, t: c == "record::RecordName::from_namespace_and_tag_name"):
        a0, a1 = strip(tr(Rg.operand(t["args"][0]))), strip(tr(Rg.operand(t["args"][1])))
        okn = a0[0] == "call" and a0[1].endswith("lookup_prefix") and "tag_name" in tree_str(a1) and a1[0] == "call" and a1[1].endswith("::name")
    ctx.ob(rule_proto, "prototype-name-source/PointCloud::from_node", okn, "RecordName is built from lookup_prefix(..) and tag_name().name() of the record element")
    # vector children: only <vectorChild type="Structure"> children become point clouds / images
    for path, callee in (("pointcloud::PointCloud::vec_from_document", "pointcloud::PointCloud::from_node"), ("images::Image::vec_from_document", "images::Image::from_node")):
        g = prog.fn(path)
        ctx.fn_seen(g)
        Rg = Resolver(g)
        calls = [bi for bi, t in g.calls(lambda c, t: c == callee)]
        tests = {"tag": False, "type": False}
        for bi, t in g.calls(lambda c, t: c.endswith("has_tag_name")):
            a = strip(Rg.operand(t["args"][1]))
            be = bool_edges(g, bi)
            if a[0] == "const" and a[2] == "vectorChild" and be and calls:
                tests["tag"] = calls[0] not in reach(cfg_without_edges(g, [(be[0], be[1])]), [0])
        for bi, t in g.calls(lambda c, t: c.rsplit("::", 1)[-1] in ("eq", "ne")):
            txt = tree_str(strip_deep(Rg.operand(t["args"][0]))) + tree_str(strip_deep(Rg.operand(t["args"][1])))
            be = bool_edges(g, bi)
            if "'type'" in txt and "'Structure'" in txt and be and calls:
                good = be[1] if callee_of(t).endswith("eq") else be[2]
                tests["type"] = calls[0] not in reach(cfg_without_edges(g, [(be[0], good)]), [0])
        # children() axis for the entries
        axis = any("children" in tree_str(Rg.operand(t["args"][0])) for bi, t in g.calls(lambda c, t: c == callee))
        if not calls:
            # functional spelling: children().filter(|n| tag && type).map(|n| from_node(&n)).collect()
            import panic_rules
            cctx = panic_rules.closure_context(prog)
            for cp, cf in prog.fns.items():
                if cf.kind != "Closure" or cp not in cctx or not any(True for _ in cf.calls(lambda c, t: c == callee)):
                    continue
                owner, ops, recv = cctx[cp]
                if owner.path != g.path or recv is None:
                    continue
                rs = strip(recv)
                if not (rs[0] == "call" and rs[1].rsplit("::", 1)[-1] == "filter" and len(rs[2]) == 2):
                    continue
                axis = "children" in tree_str(rs[2][0]) and "descendants" not in tree_str(rs[2][0])
                pc = strip(rs[2][1])
                pf = prog.fns.get(pc[1][1]) if pc[0] == "agg" and pc[1][0] == "closure" else None
                if pf is None:
                    continue
                ctx.fn_seen(pf)
                tests = _filter_predicate(pf)
                calls = [0]

        ctx.ob(rule_proto, "vector-children/%s" % short(path), len(calls) == 1 and all(tests.values()) and axis,
               "%s turns a child into an entry only when has_tag_name(\"vectorChild\") (%s) and type == \"Structure\" (%s), iterating children() (%s)" % (short(path), tests["tag"], tests["type"], axis))
    # extensions are the prefixed namespace declarations of the root element
    h = prog.fn("extension::Extension::vec_from_document")
    ctx.fn_seen(h)
    Rh = Resolver(h)
    oke = any(c.endswith("::root_element") for c in (callee_of(t) for bi, t in h.calls())) and any(callee_of(t).endswith("::namespaces") for bi, t in h.calls())
    ctx.ob(rule_proto, "extensions-source/Extension::vec_from_document", oke, "registered extensions are read from the namespace declarations of the root element")


# ----------------------------------------------------------------------------------------
# setters and raw XML identity (C04-R3, R6)

def setters(ctx, prog, rule):
    n = 0
    for p, f in sorted(prog.fns.items()):
        m = re.search(r"(pc_writer::PointCloudWriter::<'a, T>|image_writer::ImageWriter::<'a, T>|e57_writer::E57Writer::<T>)::set_(\w+)$", p)
        if not m or not f.public:
            continue
        n += 1
        ctx.fn_seen(f)
        R = Resolver(f)
        want = m.group(2)
        writes = []
        wblocks = []
        for ln, ds in f.defs().items():
            for kind, payload, bi, si, place in ds:
                if place["local"] == 1 and place["proj"] and bi in f.cfg():
                    t = R.rvalue(payload) if kind == "stmt" else R._call(payload, bi, 0, frozenset())
                    writes.append((".".join(fields_of(place)), t))
                    wblocks.append(bi)
        ok = len(writes) == 1 and writes[0][0].split(".")[-1] == want and ("param", 2) in leaves(writes[0][1])
        # unconditionally: a setter that keeps the old value for some arguments (None, empty) does not store what it was given
        if ok and find_path(f.cfg(), [0], set(f.return_blocks()), set(wblocks)) is not None:
            ok = False
            writes.append(("<conditional>", ("const", "&str", "some path through the setter does not store the argument")))
        if ok:
            t = strip(writes[0][1])
            # stored unchanged: the parameter itself, Some(param) or Some(param.to_owned())
            inner = t[2][0] if t[0] == "agg" and t[1][0] == "adt" and t[1][2] == "Some" else t
            ok = strip(inner) == ("param", 2)
        ctx.ob(rule, "setter/%s" % short(p), ok, "%s stores %s (must store its argument unchanged into the field '%s')" % (short(p), [(w, tree_str(strip(t))[:60]) for w, t in writes], want))
    ctx.floor(rule, "metadata setters", n, 27)


PURE_TEXT_CALLS = ("to_string", "to_owned", "into", "from", "clone", "as_str", "deref", "borrow", "as_ref", "unwrap_or", "unwrap_or_default", "to_str")


def string_values_unchanged(ctx, prog, rule):
    """the string a reader helper returns for an element is the element's text itself: between Node::text() and the
    returned String only conversions may happen (no trim, replace, case change, slicing)"""
    for path in ("xml::opt_string",):
        f = prog.fn(path)
        ctx.fn_seen(f)
        R = Resolver(f, max_depth=40)
        payloads = []
        for bi in f.cfg():
            for st in f.blocks[bi]["stmts"]:
                rv = st["rv"]
                if is_variant_agg(rv, "option::Option", "Some") and rv["ops"] and "String" in f.local_ty(st["place"]["local"]):
                    payloads.append((bi, R.operand(rv["ops"][0])))
        # `tag.map(|t| t.text()...to_string())` style: the Some is built by a combinator expansion as well
        ok = bool(payloads)
        desc = []

        def pure(x, depth=0):
            while x[0] in ("ok", "cast", "ref", "partial"):
                x = x[2] if x[0] == "cast" else x[1]
            if depth > 16:
                return False
            if x[0] == "phi":
                return all(pure(a, depth + 1) for a in x[1])
            if x[0] == "const":
                return isinstance(x[2], str) and x[2] == ""           # the default for an element without text
            if x[0] == "field" and x[2] in ("Some.0", "0"):
                return pure(x[1], depth + 1)
            if x[0] != "call":
                return False
            last = x[1].rsplit("::", 1)[-1]
            if last == "text" and "Node" in x[1]:
                return True
            if last == "new" and "String" in x[1] and not x[2]:
                return True
            desc.append(last)
            if last in PURE_TEXT_CALLS and x[2]:
                return all(pure(a, depth + 1) for a in x[2][:2])
            return False
        for bi, t in payloads:
            ok = ok and pure(t)
        desc = sorted(set(desc))
        ctx.ob(rule, "text-unchanged/%s" % short(path), ok, "%s builds its String from Node::text() through %s (only conversions may stand in between)" % (short(path), desc))


def raw_xml_identity(ctx, prog, rule):
    f = prog.fn("e57_reader::E57Reader::<T>::xml")
    ctx.fn_seen(f)
    t = strip(Resolver(f).local(0))
    ctx.ob(rule, "xml-getter/E57Reader::xml", self_field(t) == "xml", "E57Reader::xml returns %s (must be the stored field xml)" % tree_str(t))
    g = prog.fn("e57_reader::E57Reader::<T>::new")
    ctx.fn_seen(g)
    R = Resolver(g)
    ok = False
    desc = ""
    for bi in g.cfg():
        for st in g.blocks[bi]["stmts"]:
            if is_variant_agg(st["rv"], "e57_reader::E57Reader", "E57Reader"):
                vals = dict(zip(st["rv"]["kind"]["fields"], st["rv"]["ops"]))
                x = strip(R.operand(vals["xml"]))
                desc = tree_str(strip_deep(x))[:160]
                if x[0] == "call" and x[1].endswith("String::from_utf8"):
                    y = strip(x[2][0])
                    ok = y[0] == "call" and y[1].endswith("extract_xml")
    ctx.ob(rule, "xml-field-source/E57Reader::new", ok, "E57Reader.xml <- %s (must be String::from_utf8 of the bytes returned by extract_xml, nothing else)" % desc)
    h = prog.fn("e57_writer::E57Writer::<T>::finalize_customized_xml")
    ctx.fn_seen(h)
    Rh = Resolver(h)
    okw = False
    desc = ""
    for bi, t in h.calls(lambda c, t: c.endswith("Write::write_all")):
        d = strip(Rh.operand(t["args"][1]))
        desc = tree_str(strip_deep(d))[:200]
        # as_bytes is transparent: d is the transformer result
        if d[0] == "call" and d[1].endswith("ops::Fn::call") or (d[0] == "call" and "Fn" in d[1]):
            args = d[2]
            src = [x for a in args for x in leaves(a) if x[0] == "call" and x[1] == "root::serialize_root"]
            okw = bool(src)
        # serialize_root(..).and_then(transformer): the transformer parameter applied to the serialised XML
        if d[0] == "call" and d[1].rsplit("::", 1)[-1] == "and_then" and len(d[2]) == 2:
            a0, a1 = strip(d[2][0]), strip(d[2][1])
            okw = a0[0] == "call" and a0[1] == "root::serialize_root" and a1[0] == "param"
    ctx.ob(rule, "xml-written/finalize_customized_xml", okw, "bytes written as XML section: %s (must be exactly transformer(serialize_root(..)).as_bytes())" % desc)


def datetime_flag(ctx, prog, rule):
    f = prog.fn("date_time::DateTime::xml_string")
    R = Resolver(f)
    ok = False
    for bi in f.cfg():
        t = f.blocks[bi]["term"]
        if t["k"] == "switch":
            dl = op_place(t["discr"])
            d = strip(R.place(dl)) if dl else None
            if d and self_field(d) == "atomic_reference":
                e = switch_edges(f, bi)

                def lit(b):
                    for _ in range(3):
                        for st in f.blocks[b]["stmts"]:
                            x = strip(R.rvalue(st["rv"]))
                            if x[0] == "const" and isinstance(x[2], str):
                                return x[2]
                        tt = f.blocks[b]["term"]
                        if tt["k"] == "goto":
                            b = tt["target"]
                        else:
                            break
                    return None
                ok = lit(e["otherwise"]) == "1" and lit(e.get("0")) == "0"
    ctx.ob(rule, "datetime-flag/writer", ok, "isAtomicClockReferenced is written as \"1\" when atomic_reference is true and \"0\" otherwise")
    g = prog.fn("date_time::DateTime::from_node")
    Rg = Resolver(g)
    okr = False
    for bi, t in g.calls(lambda c, t: c.rsplit("::", 1)[-1] in ("eq", "ne")):
        txt = " ".join(tree_str(strip_deep(Rg.operand(a))) for a in t["args"][:2])
        if "'1'" in txt and "isAtomicClockReferenced" not in txt:
            okr = callee_of(t).endswith("eq")
    ctx.ob(rule, "datetime-flag/reader", okr, "atomic_reference is read as text == \"1\"")


_POSITIONAL_NODE = ("next_sibling", "prev_sibling", "next_sibling_element", "prev_sibling_element", "first_child", "last_child",
                    "first_element_child", "last_element_child", "next_siblings", "prev_siblings")
_POSITIONAL_ITER = ("nth", "last", "skip", "step_by", "nth_back", "take", "take_while", "map_while", "skip_while", "scan")


def _positional_hits(prog, fns):
    hits = []
    for f in fns:
        R = None
        for bi, t in f.calls():
            c = callee_of(t)
            last = c.rsplit("::", 1)[-1].split("<")[0]
            if "roxmltree" in c and last in _POSITIONAL_NODE:
                hits.append((f, bi, short(c)))
            elif last in _POSITIONAL_ITER and t["args"]:
                R = R or Resolver(f, max_depth=12)
                recv = R.operand(t["args"][0])
                if any(x[0] == "call" and "roxmltree" in x[1] and x[1].rsplit("::", 1)[-1] in ("children", "descendants", "ancestors", "attributes") for x in leaves(recv)):
                    hits.append((f, bi, "%s on %s" % (last, "a roxmltree iterator")))
    return hits


def no_positional_navigation(ctx, prog, rule):
    """members of an E57 structure are unordered and extensions may add their own: a standard element or attribute must
    be found by its name among all children, never as "the element after X" or "the n-th child" """
    import panic_rules
    rs = panic_rules.roots(prog, "reader")
    fns = [prog.fns[p] for p in sorted(prog.reachable_from(rs))]
    hits = _positional_hits(prog, fns)
    for f, bi, what in hits:
        ctx.fn_seen(f)
        ctx.ob(rule, "positional-navigation/%s/%s" % (short(f.path), what.split(" ")[0]), False,
               "%s finds XML content by position (%s): a foreign element placed in between changes what the reader reports" % (short(f.path), what), where=f.file_line(bi))
    ctx.ob(rule, "positional-navigation/none", not hits, "no reader function navigates the XML tree by position (%d functions searched)" % len(fns), nontrivial=False)
    ctx.floor(rule, "reader functions searched for positional XML navigation", len(fns), 40, semantic=False)


def positional_controls(ctx, rule):
    prog, info = load_program("controls", "controls")
    ctx.configs["controls"] = info
    for name, expect in (("xmlnav::by_position", True), ("xmlnav::by_index", True), ("xmlnav::by_name", False)):
        fs = [prog.fn(name)] + list(prog.closures_of(prog.fn(name)))
        ctx.control(rule, name, bool(_positional_hits(prog, fs)), expect)


_ALTERING = ("filter", "take_if", "clamp", "max", "min", "abs", "round", "floor", "ceil", "trunc", "rem_euclid", "signum", "to_radians", "to_degrees",
             "saturating_sub", "saturating_add", "wrapping_add", "wrapping_sub", "trim", "trim_start", "trim_end", "to_lowercase", "to_uppercase", "replace")


def read_values_unaltered(ctx, prog, rule):
    """what a from_node function stores in a descriptor field is the value its lookup parsed (or the documented default
    when the element is absent): no filter on the value, no arithmetic, no clamping between the lookup and the field -
    a value the writer can produce must come back as it was written"""
    n = 0
    for label, adt, wfn, rfns in STRUCTS:
        for fp in rfns:
            fn = prog.fns.get(fp)
            if fn is None:
                continue
            ctx.fn_seen(fn)
            R = Resolver(fn)
            for bi in fn.cfg():
                for st in fn.blocks[bi]["stmts"]:
                    rv = st["rv"]
                    if rv["k"] != "aggregate" or rv["kind"].get("agg") != "adt" or rv["kind"]["adt"].startswith("std::") or rv["kind"]["adt"].startswith("core::"):
                        continue
                    for name, op in zip(rv["kind"]["fields"], rv["ops"]):
                        t = R.operand(op)
                        looks = [x for x in leaves(t) if x[0] == "call" and (x[1] in xmlgen.HELPER_TYPES or x[1].endswith("::parse") or x[1].endswith("Node<'a, 'input>::text") or x[1].endswith("::attribute"))]
                        if not looks:
                            continue
                        ts = strip(t)
                        if ts[0] == "agg" and ts[1][0] == "adt" and ts[1][2] not in ("Some", "Ok"):
                            continue            # a nested descriptor literal: judged field by field on its own
                        n += 1
                        bad = []

                        def tag_of(x):
                            for a in x[2]:
                                a = strip(a)
                                if a[0] == "const" and isinstance(a[2], str):
                                    return a[2]
                            return None

                        def primary(x, depth=0):
                            # the lookup whose value the field takes: reachable without arithmetic (defaults spelled as
                            # a match arm or an unwrap_or argument may be computed from other lookups)
                            if depth > 30:
                                return set()
                            if x in looks:
                                return {tag_of(x)}
                            k = x[0]
                            out = set()
                            if k == "call":
                                last = x[1].rsplit("::", 1)[-1].split("<")[0]
                                args = x[2][:1] if last in ("unwrap_or", "unwrap_or_else", "unwrap_or_default", "map_or", "map_or_else", "ok_or", "ok_or_else") + _ALTERING else x[2]
                                for a in args:
                                    out |= primary(a, depth + 1)
                            elif k in ("unop", "cast"):
                                out |= primary(x[2], depth + 1)
                            elif k in ("field", "ok", "discr", "partial", "ref"):
                                out |= primary(x[1], depth + 1)
                            elif k == "agg":
                                for a in x[2]:
                                    out |= primary(a, depth + 1)
                            elif k == "phi":
                                for a in x[1]:
                                    out |= primary(a, depth + 1)
                            return out
                        prim = primary(t) - {None}

                        def has_look(x):
                            return any(y in looks and tag_of(y) in prim for y in leaves(x))

                        def walk(x, depth=0):
                            # follows the *value* from the lookup to the field; default arguments (`unwrap_or(<default>)`)
                            # may be computed from other fields
                            if depth > 30:
                                return
                            k = x[0]
                            if k == "call":
                                last = x[1].rsplit("::", 1)[-1].split("<")[0]
                                if last in _ALTERING and x[2] and has_look(x[2][0]):
                                    bad.append(short(x[1]))
                                if last in ("unwrap_or", "unwrap_or_else", "unwrap_or_default", "map_or", "map_or_else", "ok_or", "ok_or_else") and x[2]:
                                    walk(x[2][0], depth + 1)
                                    return
                                for a in x[2]:
                                    walk(a, depth + 1)
                            elif k == "binop":
                                if x[1] in ("Add", "Sub", "Mul", "Div", "Rem", "BitAnd", "BitOr", "Shl", "Shr") and (has_look(x[2]) or has_look(x[3])):
                                    bad.append(x[1])
                                walk(x[2], depth + 1)
                                walk(x[3], depth + 1)
                            elif k in ("unop", "cast"):
                                walk(x[2], depth + 1)
                            elif k in ("field", "ok", "discr", "partial", "ref"):
                                walk(x[1], depth + 1)
                            elif k == "agg":
                                for a in x[2]:
                                    walk(a, depth + 1)
                            elif k == "phi":
                                for a in x[1]:
                                    walk(a, depth + 1)
                        walk(t)
                        if bad:
                            ctx.ob(rule, "read-value-unaltered/%s.%s" % (rv["kind"]["adt"].rsplit("::", 1)[-1], name), False,
                                   "%s.%s is the parsed value passed through %s before it is stored (%s)" % (rv["kind"]["adt"].rsplit("::", 1)[-1], name, sorted(set(bad)), tree_str(strip_deep(t))[:140]), where=fn.file_line(bi))
    ctx.ob(rule, "read-values-unaltered", True, "%d descriptor fields take a parsed lookup value; each was searched for value filters / arithmetic between lookup and field" % n, nontrivial=False)
    ctx.floor(rule, "descriptor fields fed by a lookup", n, 60, semantic=False)


def _local_name_compares(prog, fns):
    """comparisons in which both sides are the local tag name of a record name (`a.name.tag_name() == b.name.tag_name()`)"""
    hits = []
    for f in fns:
        R = Resolver(f, max_depth=16)
        for bi, t in f.calls(lambda c, t: c.rsplit("::", 1)[-1] in ("eq", "ne", "cmp", "partial_cmp", "contains", "starts_with") and len(t["args"]) >= 2):
            sides = [R.operand(a) for a in t["args"][:2]]

            def is_tag(x):
                return any(y[0] == "call" and y[1].rsplit("::", 1)[-1] == "tag_name" for y in leaves(x)) or any(
                    y[0] == "field" and isinstance(y[2], str) and y[2].endswith("__tag_name") for y in leaves(x)) or any(
                    y[0] == "local" and isinstance(y[1], int) and y[1] < len(f.locals) and (f.locals[y[1]].get("name") or "") == "tag_name" for y in leaves(x))
            if is_tag(sides[0]) and is_tag(sides[1]):
                hits.append((f, bi))
    return hits


def no_local_name_identity(ctx, prog, rule):
    """two prototype records are the same attribute only if namespace *and* name agree: nothing in the library decides
    identity (duplicates, lookups) by comparing local tag names with each other"""
    fns = [f for p, f in sorted(prog.fns.items())]
    hits = _local_name_compares(prog, fns)
    for f, bi in hits:
        ctx.fn_seen(f)
        ctx.ob(rule, "local-name-identity/%s" % (short(f.path) if "closure" not in f.path else f.path.split("::", 1)[-1]), False,
               "%s compares the local tag names of two record names: extension attributes of different namespaces with the same local name are taken for the same attribute" % short(f.path), where=f.file_line(bi))
    ctx.ob(rule, "local-name-identity/none", not hits, "no comparison between two local tag names (%d functions searched)" % len(fns), nontrivial=False)


def local_name_controls(ctx, rule):
    prog, info = load_program("controls", "controls")
    ctx.configs["controls"] = info
    for name, expect in (("xmlnav::same_local", True), ("xmlnav::same_name", False)):
        ctx.control(rule, name, bool(_local_name_compares(prog, [prog.fn(name)])), expect)


def writer_validators_not_in_reader(ctx, prog, rule):
    """the reader accepts every well-formed extension name: the writer's own naming rules (Extension::validate_name /
    validate_prototype, a whitelist that is narrower than XML names) are not reachable from any reading entry point"""
    import panic_rules
    rs = panic_rules.roots(prog, "reader")
    reach_set = prog.reachable_from(rs)
    hit = sorted(p for p in reach_set if p in ("extension::Extension::validate_name", "extension::Extension::validate_prototype"))
    callers = []
    for h in hit:
        for p in sorted(reach_set):
            f = prog.fns[p]
            if any(callee_of(t) == h for bi, t in f.calls()):
                callers.append("%s -> %s" % (short(p), short(h)))
    ctx.ob(rule, "writer-validators-not-in-reader", not hit, "reader functions reaching the writer's name whitelist: %s (%d reader functions searched)" % (callers or "none", len(reach_set)), nontrivial=False)
