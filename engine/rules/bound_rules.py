"""C09: allocation-size provenance, loop progress classification, yield and blob bounds."""
import re

from mirlib import *
from intervals import Intervals, ty_range
from cache_rules import strip_casts, const_val
import panic_rules

CAP = 1 << 26          # 64 MiB: anything provably below this is "bounded by a constant"
MEM_FNS = ("::len", "::capacity", "::available", "::full_bytes", "::all_bytes", "::count")


def memlen(prog, t, depth=0):
    """is the value derived only from lengths of in-memory containers and small constants?"""
    t = strip(t)
    while t[0] == "cast":
        t = strip(t[2])
    if depth > 8:
        return False
    if t[0] == "const":
        return isinstance(t[2], int) and t[2] <= CAP
    if t[0] == "call":
        c = t[1]
        if any(c.endswith(s) for s in MEM_FNS):
            g = prog.fns.get(c)
            if g is None:
                return True
            if c.endswith("QueueReader::<'a, T>::available") and _available_is_min_len(prog, g):
                return True
            rt = Resolver(g, max_depth=12).local(0)
            return all(memlen(prog, a, depth + 1) for a in (rt[1] if rt[0] == "phi" else (rt,)))
        last = c.rsplit("::", 1)[-1]
        if last in ("min", "max") and len(t[2]) == 1 and "Iterator" in c:
            # the minimum / maximum of the items of an iterator: one of the items
            return _iter_items_memlen(prog, t[2][0], depth + 1)
        if last in ("unwrap_or", "unwrap_or_default") and t[2]:
            return all(memlen(prog, a, depth + 1) for a in t[2])
        if c.rsplit("::", 1)[-1] in ("min", "max", "saturating_sub", "saturating_add") and len(t[2]) == 2:
            if c.endswith("::min"):
                return any(memlen(prog, a, depth + 1) for a in t[2])
            return all(memlen(prog, a, depth + 1) for a in t[2])
        return False
    if t[0] == "binop" and t[1] in ("Add", "Sub", "Div", "Rem", "Mul"):
        if t[1] in ("Div", "Sub"):
            # dividing / subtracting (without underflow, which would panic) only makes the value smaller
            return memlen(prog, t[2], depth + 1)
        if t[1] == "Mul":
            return memlen(prog, t[2], depth + 1) and strip(t[3])[0] == "const" or (memlen(prog, t[3], depth + 1) and strip(t[2])[0] == "const")
        return memlen(prog, t[2], depth + 1) and memlen(prog, t[3], depth + 1)
    if t[0] == "phi":
        # a bare unresolved local among the alternatives is the loop-carried accumulator itself (`acc = if c { x } else
        # { acc }`): it contributes no value of its own
        alts = [a for a in _flat_phi(t) if strip(a)[0] != "local"]
        return bool(alts) and all(memlen(prog, a, depth + 1) for a in alts)
    if t[0] == "field":
        # a private field that is only ever assigned memory lengths (e.g. prototype_len)
        return t[2] in ("prototype_len",)
    if t[0] == "local":
        return False
    return False


def _flat_phi(t):
    out = []
    for a in t[1]:
        a2 = strip(a)
        while a2[0] == "cast":
            a2 = strip(a2[2])
        if a2[0] == "phi":
            out.extend(_flat_phi(a2))
        else:
            out.append(a)
    return out


def _iter_items_memlen(prog, it, depth):
    """are all items produced by the iterator expression lengths of in-memory data? (map / filter_map over a closure
    whose results are)"""
    it = strip(it)
    if it[0] != "call" or depth > 8:
        return False
    last = it[1].rsplit("::", 1)[-1]
    if last in ("filter", "skip", "take", "rev", "peekable", "fuse", "copied", "cloned") and it[2]:
        return _iter_items_memlen(prog, it[2][0], depth + 1)
    if last in ("map", "filter_map") and len(it[2]) == 2:
        cl = strip(it[2][1])
        if cl[0] == "const" and isinstance(cl[2], tuple) and cl[2] and cl[2][0] == "fn":
            return any(str(cl[2][1]).endswith(s) for s in MEM_FNS)          # .map(VecDeque::len)
        if cl[0] == "agg" and cl[1][0] == "closure" and cl[1][1] in prog.fns:
            g = prog.fns[cl[1][1]]
            rt = Resolver(g, max_depth=16).local(0)
            alts = rt[1] if rt[0] == "phi" else (rt,)
            vals = []
            for a in alts:
                a = strip(a)
                if a[0] == "agg" and a[1][0] == "adt" and a[1][1].endswith("option::Option"):
                    if a[1][2] == "Some":
                        vals.append(a[2][0])
                else:
                    vals.append(a)
            return bool(vals) and all(memlen(prog, v, depth + 1) for v in vals)
    return False


def _available_is_min_len(prog, g):
    """QueueReader::available: 0 when there are no queues, otherwise the minimum of the queue lengths
    (the usize::MAX start value is always replaced because at least one queue exists)."""
    R = Resolver(g, max_depth=16)
    zero_guard = False
    for bi, t in g.calls(lambda c, t: c.endswith("::is_empty")):
        if self_field(R.operand(t["args"][0])) == "queues":
            be = bool_edges(g, bi)
            if be:
                r = reach(g.cfg(), [be[1]])
                zero_guard = any(b in r and const_val(R.rvalue(p)) == 0 for kind, p, b, si, pl in g.defs().get(0, []) if kind == "stmt" and not pl["proj"])
    # the accumulator is only lowered to a queue length
    lowered = False
    for n, ds in g.defs().items():
        vals = []
        for kind, p, b, si, pl in ds:
            if kind == "stmt" and not pl["proj"]:
                vals.append(strip(R.rvalue(p)))
        consts = [v for v in vals if v[0] == "const" and isinstance(v[2], int) and v[2] == 2**64 - 1]
        lens = [v for v in vals if v[0] == "call" and v[1].endswith("::len")]
        if consts and lens and len(consts) + len(lens) == len(vals):
            lowered = True
    return zero_guard and lowered


def elem_bound(prog, iv, f, tree):
    """upper bound of the elements of a private Vec<integer> field read through iteration / indexing"""
    t = strip(tree)
    while t[0] == "cast":
        t = strip(t[2])
    import elems
    e0 = elems.elem_of(tree)
    if e0 is None or e0[1] or not self_field(strip(e0[0])):
        return None
    fld = self_field(strip(e0[0]))
    adt = f.self_ty.split("<")[0]
    out, first = None, True
    from intervals import join
    for p, g in prog.fns.items():
        if not g.self_ty.startswith(adt):
            continue
        Rg = Resolver(g, max_depth=12)
        for bi, tt in g.calls(lambda c, t: c.endswith("::index_mut")):
            if self_field(Rg.operand(tt["args"][0])) != fld:
                continue
            d = tt["dest"]["local"]
            for b2 in g.cfg():
                for st in g.blocks[b2]["stmts"]:
                    pl = st["place"]
                    if pl["local"] == d and pl["proj"] and pl["proj"][0]["k"] == "deref" and len(pl["proj"]) == 1:
                        v = iv.rvalue(g, st["rv"], b2, 1, frozenset())
                        out = v if first else join(out, v)
                        first = False
        for b2 in g.cfg():
            for st in g.blocks[b2]["stmts"]:
                rv = st["rv"]
                if rv["k"] == "aggregate" and rv["kind"].get("agg") == "adt" and rv["kind"]["adt"] == adt and fld in rv["kind"]["fields"]:
                    init = strip(Rg.operand(rv["ops"][rv["kind"]["fields"].index(fld)]))
                    if init[0] == "call" and init[1].endswith("from_elem"):
                        v0 = const_val(init[2][0])
                        v = (v0, v0) if v0 is not None else None
                        out = v if first else join(out, v)
                        first = False
        # element stores through `for x in self.fld.iter_mut() { *x = v }`
        import elems
        n_iter_mut = len([1 for bi, tt in g.calls(lambda c, t: c.endswith("::iter_mut")) if tt["args"] and self_field(Rg.operand(tt["args"][0])) == fld])
        n_elem_stores = 0
        if n_iter_mut:
            for b2 in g.cfg():
                for st in g.blocks[b2]["stmts"]:
                    pl = st["place"]
                    if pl["proj"] and len(pl["proj"]) == 1 and pl["proj"][0]["k"] == "deref":
                        tr = Rg.local(pl["local"])
                        if tr[0] == "partial":
                            tr = tr[1]
                        e = elems.elem_of(tr)
                        if e is not None and self_field(strip(e[0])) == fld and not e[1]:
                            v = iv.rvalue(g, st["rv"], b2, 1, frozenset())
                            out = v if first else join(out, v)
                            first = False
                            n_elem_stores += 1
            if not n_elem_stores:
                return None
        for bi, tt in g.calls(lambda c, t: c.rsplit("::", 1)[-1] in ("push", "resize", "extend", "insert", "fill")):
            if tt["args"] and self_field(Rg.operand(tt["args"][0])) == fld:
                return None
    return None if first else out


def allocation_sizes(ctx, prog, rule, kind="reader"):
    rs = panic_rules.roots(prog, kind)
    reach_set = prog.reachable_from(rs)
    iv = Intervals(prog)
    n = 0
    for p in sorted(reach_set):
        f = prog.fns[p]
        R = Resolver(f, max_depth=24)
        for bi, t in f.calls():
            c = callee_of(t)
            if c in prog.fns or panic_rules.callee_kind(c) != "alloc-size":
                continue
            n += 1
            ctx.fn_seen(f)
            last = c.rsplit("::", 1)[-1]
            idx = {"from_elem": 1, "with_capacity": 0, "reserve": 1, "reserve_exact": 1, "resize": 1, "repeat": 1}.get(last.split("<")[0], len(t["args"]) - 1)
            idx = min(idx, len(t["args"]) - 1)
            op = t["args"][idx]
            v = iv.operand(f, op, bi)
            tree = R.operand(op)
            ok_iv = v is not None and v[0] >= 0 and v[1] <= CAP
            if not ok_iv:
                eb = elem_bound(prog, iv, f, tree)
                if eb is not None and eb[1] <= CAP:
                    v, ok_iv = eb, True
            ok_mem = memlen(prog, tree)
            if not ok_iv and not ok_mem:
                sh_ = strip(tree)
                while sh_[0] == "cast":
                    sh_ = strip(sh_[2])
                if sh_[0] == "param" and not f.public:
                    # the size is a parameter of a private function: bounded at every call site, or the minimum of the
                    # queue lengths that the fill-loop rule accepts as a bound
                    okp_, whyp_ = _param_bounded(prog, iv, f, sh_[1])
                    if not okp_:
                        okp_, whyp_ = _fill_bound_ok(prog, iv, f, sh_)
                    if okp_:
                        ok_mem = True
            why = ("size in %s (bounded by constants / guards / field invariants)" % (v,)) if ok_iv else ("size is a length of in-memory data: %s" % tree_str(strip_deep(tree))[:100] if ok_mem else
                   "size %s = %s is neither bounded by a constant cap nor a length of data already in memory" % (v, tree_str(strip_deep(tree))[:160]))
            ctx.ob(rule, "alloc/%s/%s" % (short(p), short(c)), ok_iv or ok_mem, "%s(%s): %s" % (short(c), tree_str(strip_deep(tree))[:80], why), where=f.file_line(bi))
    ctx.floor(rule, "allocation sites reachable from the %s API" % kind, n, 5 if kind == "reader" else 1, semantic=False)


def consuming_fns(prog):
    """local functions whose every Ok path performs read_exact of >= 1 byte (directly or through another consuming fn)."""
    cons = set()
    changed = True
    while changed:
        changed = False
        for p, f in prog.fns.items():
            if p in cons or "Result<" not in f.ret_ty():
                continue
            R = Resolver(f, max_depth=10)
            blocks = []
            for bi, t in f.calls():
                c = callee_of(t)
                if c in cons:
                    blocks.append(bi)
                elif c.endswith("Read::read_exact"):
                    buf = strip(R.operand(t["args"][1]))
                    while buf[0] == "cast":
                        buf = strip(buf[2])
                    if buf[0] == "repeat" and re.match(r"\s*([1-9]\d*)", buf[2]):
                        blocks.append(bi)
            if blocks and f.ok_reachable(removed=blocks) is None:
                cons.add(p)
                changed = True
    return cons


def loop_progress(ctx, prog, rule, kind="reader", floor=28):
    rs = panic_rules.roots(prog, kind)
    reach_set = prog.reachable_from(rs)
    iv = Intervals(prog)
    cons = consuming_fns(prog)
    n = 0
    classes = collections.Counter()
    for p in sorted(reach_set):
        f = prog.fns[p]
        loops = natural_loops(f)
        if not loops:
            continue
        ctx.fn_seen(f)
        R = Resolver(f, max_depth=24)
        for ordinal, (h, body) in enumerate(sorted(loops.items())):
            n += 1
            cls, why = classify_loop(prog, iv, cons, f, R, h, body, kind)
            classes[cls or "unclassified"] += 1
            ctx.ob(rule, "loop/%s/%s" % (short(p), why[0] if cls else "unclassified-loop-%d" % ordinal), cls is not None,
                   "loop at %s: %s" % (f.file_line(h), why[1] if cls else "no progress / bound argument found: " + why[1]), where=f.file_line(h))
    ctx.extra.setdefault("loop_classes", {})[(ctx.cfg or "") + ":" + kind] = dict(classes)
    ctx.floor(rule, "loops reachable from the %s API" % kind, n, floor, semantic=False)


def classify_loop(prog, iv, cons, f, R, h, body, kind="reader"):
    exits = [(b, s) for b in body for s in f.cfg().get(b, []) if s not in body]
    descs = []
    for b, s in exits:
        t = f.blocks[b]["term"]
        if t["k"] != "switch":
            continue
        dl = op_place(t["discr"])
        d = strip(R.place(dl)) if dl else None
        if d is None:
            continue
        descs.append(tree_str(strip_deep(d))[:120])
        # (a)/(b)/(c): discriminant of a call result
        if d[0] == "discr":
            src = strip(d[1])
            if src[0] == "call":
                c = src[1]
                last = c.rsplit("::", 1)[-1]
                if last == "next":
                    ok, why = _iterator_bounded(prog, iv, f, src, b)
                    if ok:
                        return "iterator", ("iterator/" + why[:60], "iterator loop over %s" % why)
                    if kind == "writer":
                        # C10 asks for termination, not for a bound in the input size: a Range over an integer is finite
                        return "iterator", ("iterator/finite-range", "iterator loop over a finite integer range (%s)" % why)
                    return None, ("", "iterator source not bounded: %s" % why)
                if c.endswith("ByteStreamReadBuffer::extract"):
                    # progress: bits >= 1
                    callb = src[3]
                    bits = iv.operand(f, f.blocks[callb]["term"]["args"][1], callb)
                    if bits is not None and bits[0] >= 1:
                        return "extract", ("extract/bits>=1", "consumes %s >= 1 bits of an in-memory byte stream per iteration and stops when fewer are available" % (bits,))
                    return None, ("", "extract() with a bit count that may be 0 (%s) never makes progress" % (bits,))
    # (c) input-consuming loop: the back edge is reachable only through a consuming call
    backs = [b for b in body if h in f.cfg().get(b, [])]
    cblocks = [bi for bi, t in f.calls() if bi in body and callee_of(t) in cons]
    if cblocks:
        g = {b: [s for s in ss if s in body] for b, ss in f.cfg().items() if b in body}
        entry = [s for s in f.cfg().get(h, []) if s in body]
        if find_path(g, entry, {h}, set(cblocks)) is None:
            names = sorted({short(callee_of(f.blocks[b]["term"])) for b in cblocks})
            return "consuming", ("consuming/" + ",".join(names), "every iteration calls %s, which reads at least one byte from the page reader on every Ok path, so the loop ends at the latest with a read error at the end of the file" % names)
    # (c2) while paged_reader.read(&mut buf)? != 0
    for b, s in exits:
        t = f.blocks[b]["term"]
        if t["k"] != "switch":
            continue
        dl = op_place(t["discr"])
        d = strip(R.place(dl)) if dl else None
        te = int_test_edges(f, R, b)
        if te is not None and 0 in te[1] and te[1][0] not in body:
            # the loop is left exactly when the count is 0 (`!= 0` test or `match n { 0 => break, .. }`)
            other = strip(te[0])
            while other[0] == "cast":
                other = strip(other[2])
            if other[0] == "call" and other[1].endswith("PagedReader<T> as std::io::Read>::read"):
                callb = other[3]
                buf = R.operand(f.blocks[callb]["term"]["args"][1])
                okbuf = False
                for x in leaves(buf):
                    if x[0] == "call" and x[1].endswith("from_elem"):
                        # vec![0; n] with n >= 1
                        for bi2, t2 in f.calls(lambda c, t: c.endswith("from_elem")):
                            v = iv.operand(f, t2["args"][1], bi2)
                            # at the loop (after PagedReader::new succeeded) the size is known to be >= 5
                            v2 = iv.operand(f, t2["args"][1], callb)
                            okbuf = (v is not None and v[0] >= 1) or (v2 is not None and v2[0] >= 1)
                if okbuf:
                    return "paged-read", ("paged-read/until-0", "reads with a non-empty buffer until PagedReader::read returns 0; read advances the cursor by >= 1 byte per call and returns 0 at page >= pages (C07-R4 / C11 formulas)")
                return None, ("", "read loop with a possibly empty buffer")
        # (d) fill loop: len(queue) < bound
        if d and d[0] == "binop" and d[1] in ("Lt", "Le"):
            a, bnd = strip(d[2]), d[3]
            if a[0] == "call" and a[1].endswith("::len"):
                ok, why = _fill_bound_ok(prog, iv, f, bnd)
                if ok:
                    return "fill", ("fill/" + why[:50], "fill loop up to %s" % why)
                return None, ("", "fill loop bounded by %s" % why)
        # (e) while !buffer.is_empty() { drain >= 1 }
        if d and d[0] == "call" and d[1].endswith("::is_empty") and _shrinking_slice(f, R, h, body):
            return "shrinking-slice", ("shrinking-slice/read", "each iteration either leaves the loop (count 0) or shortens the remaining slice by the count >= 1 returned by the device")
        if d and d[0] == "call" and d[1].endswith("::is_empty"):
            ok, why = _drain_progress(prog, iv, f, body)
            if ok:
                return "drain", ("drain/" + why[:40], "loop until the buffer is empty; " + why)
            return None, ("", why)
        if d and d[0] == "binop" and d[1] in ("Lt", "Ge") and strip(d[2])[0] == "call" and strip(d[2])[1].endswith("::available"):
            pass
        # (f) counter loop: `while i < n { ..; i += c }` with c >= 1, n not assigned inside the loop
        r = _counter_loop(prog, iv, f, R, h, body, b, s, kind)
        if r is not None:
            return r
    return None, ("", "exit conditions %s" % descs)


def _counter_loop(prog, iv, f, R, h, body, b, s, kind):
    """`let mut i = c0; while i < n { ..; i += 1 }` (mirlib.counter_locals): the exit test is left when `i < n` is false,
    every trip around the loop passes the overflow-checked increment and nothing else assigns i or n"""
    for n, (hh, init, bound_op) in counter_locals(f).items():
        if hh != h:
            continue
        bound = R.operand(bound_op)
        if kind != "writer":
            v = iv.operand(f, bound_op, h)
            ok = (v is not None and v[1] <= CAP) or memlen(prog, bound)
            if not ok:
                ok, why = _fill_bound_ok(prog, iv, f, strip(bound))
            if not ok:
                continue
        return "counter", ("counter/" + tree_str(strip_deep(bound))[:40], "counter loop: left when `i < %s` is false, every trip adds 1 to i (overflow-checked) and the bound is not assigned in the loop" % tree_str(strip_deep(bound))[:40])
    return None


_SLICING = ("index", "index_mut", "get", "get_mut", "drain", "split_at", "split_at_mut", "get_unchecked", "copy_within")


def _iter_nodes(t):
    """sub-trees of an iterator expression that can themselves be the iterated source: a range used as the *index* of
    a slicing call (`buf[a..b].iter()`) selects in-memory data and is not iterated"""
    out = [t]
    k = t[0]
    if k == "call":
        last = t[1].rsplit("::", 1)[-1]
        args = t[2][:1] if last in _SLICING else t[2]
        for a in args:
            out.extend(_iter_nodes(a))
    elif k == "index":
        out.extend(_iter_nodes(t[1]))
    elif k in ("field", "ok", "discr", "partial", "ref"):
        out.extend(_iter_nodes(t[1]))
    elif k in ("unop", "cast"):
        out.extend(_iter_nodes(t[2]))
    elif k == "agg":
        for a in t[2]:
            out.extend(_iter_nodes(a))
    elif k == "phi":
        for a in t[1]:
            out.extend(_iter_nodes(a))
    return out


def _iterator_bounded(prog, iv, f, next_call, block):
    """source of the iterator fed to next(): Range{lo,hi} needs a bounded hi; everything else iterates data in memory"""
    src = next_call[2][0] if next_call[2] else ("unknown",)
    rng = [x for x in _iter_nodes(src) if x[0] == "agg" and x[1][0] == "adt" and x[1][2] in ("Range", "RangeInclusive")]
    if rng:
        hi = rng[0][2][1]
        # evaluate from MIR: find the aggregate statement
        for bi in f.cfg():
            for st in f.blocks[bi]["stmts"]:
                if is_variant_agg(st["rv"], "ops::Range", "Range") or is_variant_agg(st["rv"], "ops::RangeInclusive", "RangeInclusive"):
                    if strip(Resolver(f, max_depth=24).operand(st["rv"]["ops"][1])) == strip(hi):
                        v = iv.operand(f, st["rv"]["ops"][1], bi)
                        if v is not None and v[1] <= CAP:
                            return True, "a range ending at %s" % (v,)
        if memlen(prog, hi):
            return True, "0..<length of in-memory data> (%s)" % tree_str(strip_deep(hi))[:60]
        sh = strip(hi)
        if sh[0] == "param" and not f.public:
            ok, why = _param_bounded(prog, iv, f, sh[1])
            if ok:
                return True, "0..<parameter %d>, bounded at every call site: %s" % (sh[1], why)
            ok2, why2 = _fill_bound_ok(prog, iv, f, sh)
            if ok2:
                return True, "0..<parameter %d>: %s" % (sh[1], why2)
            return False, "range end is parameter %d: %s / %s" % (sh[1], why, why2)
        return False, "range end %s" % tree_str(strip_deep(hi))[:80]
    s = tree_str(strip_deep(src))
    return True, "an in-memory collection / document (%s)" % s[:60]


def _param_bounded(prog, iv, f, k):
    sites = []
    for p, g in prog.fns.items():
        for bi, t in g.calls(lambda c, t: c == f.path):
            if k - 1 >= len(t["args"]):
                continue
            v = iv.operand(g, t["args"][k - 1], bi)
            tr = Resolver(g, max_depth=16).operand(t["args"][k - 1])
            ok = (v is not None and v[1] <= CAP) or memlen(prog, tr)
            sites.append((ok, "%s passes %s %s" % (short(p), tree_str(strip_deep(tr))[:50], v)))
    if sites and all(o for o, _ in sites):
        return True, "; ".join(w for _, w in sites)
    return False, "; ".join(w for o, w in sites if not o) or "no call sites"


def _shrinking_slice(f, R, h, body):
    """while !s.is_empty() { n = read(s)?; if n == 0 { break } s = &mut s[n..]; }  (any spelling, see io_rules.short_transfer_loop)"""
    import io_rules
    for bi, t in f.calls(lambda c, t: io_rules._is_raw_transfer(c)):
        if bi in body:
            r = io_rules.short_transfer_loop(f, bi)
            if r["propagated"] and r["zero_exit"] and r["advance"]:
                return True
    return False


def _fill_bound_ok(prog, iv, f, bnd_tree):
    b = strip(bnd_tree)
    # a parameter: look at every local call site
    if b[0] == "param":
        k = b[1]
        oks = []
        for p, g in prog.fns.items():
            for bi, t in g.calls(lambda c, t: c == f.path):
                if k - 1 >= len(t["args"]):
                    continue
                Rg = Resolver(g, max_depth=24)
                tr = Rg.operand(t["args"][k - 1])
                v = iv.operand(g, t["args"][k - 1], bi)
                s = strip(tr)
                if s[0] == "call" and s[1].rsplit("::", 1)[-1] == "unwrap_or" and len(s[2]) == 2:
                    s = ("phi", (strip(s[2][0]), strip(s[2][1])))      # Some payload or the default
                alts = _flat_phi(s) if s[0] == "phi" else (s,)
                alts = [a for a in alts if strip(a)[0] != "local"] or list(alts)
                sentinels = [a for a in alts if a[0] == "const" and isinstance(a[2], int) and a[2] > CAP]
                others = [a for a in alts if a not in sentinels]
                excluded = all(v is not None and not (v[0] <= a[2] <= v[1]) for a in sentinels)
                mem = all(memlen(prog, a) for a in others) and bool(others)
                oks.append((excluded and mem, "%s at %s: sentinel %s excluded by a guard=%s, remaining values are lengths of in-memory data=%s" % (short(g.path), g.file_line(bi), [a[2] for a in sentinels], excluded, mem)))
        if oks and all(o for o, _ in oks):
            return True, "; ".join(w for _, w in oks)
        return False, "; ".join(w for _, w in oks) or "parameter without call sites"
    if memlen(prog, b):
        return True, "a length of in-memory data"
    return False, tree_str(strip_deep(b))[:100]


def _drain_progress(prog, iv, f, body):
    """while !self.buffer.is_empty() { self.write_buffer_to_disk(false)? }"""
    for bi, t in f.calls():
        if bi not in body:
            continue
        c = callee_of(t)
        g = prog.fns.get(c)
        if g is None:
            continue
        Rg = Resolver(g, max_depth=24)
        # g pops min(self.max_points_per_packet, buffer.len()) items in a 0..n loop
        for b2 in g.cfg():
            for st in g.blocks[b2]["stmts"]:
                if is_variant_agg(st["rv"], "ops::Range", "Range"):
                    hi = strip(Rg.operand(st["rv"]["ops"][1]))
                    if hi[0] == "call" and hi[1].endswith("::min"):
                        parts = [strip(x) for x in hi[2]]
                        fld = [self_field(x) for x in parts if self_field(x)]
                        has_len = any(x[0] == "call" and x[1].endswith("::len") for x in parts)
                        if fld and has_len:
                            adt = g.self_ty.split("<")[0]
                            a = prog.adts.get(adt)
                            fty = next((x["ty"] for v in (a["variants"] if a else []) for x in v["fields"] if x["name"] == fld[0]), None)
                            inv = iv.field_invariant(adt, fld[0], fty) if fty else None
                            pops = [1 for b3, t3 in g.calls(lambda c, t: c.endswith("pop_front"))]
                            if inv and inv[0] >= 1 and pops:
                                return True, "each iteration removes min(%s, len) >= 1 points (%s in %s)" % (fld[0], fld[0], inv)
                            return False, "each iteration removes min(%s, len) points but %s may be 0 (%s): the loop would never end" % (fld[0], fld[0], inv)
    return False, "no draining call found in the loop body"


def equal_length_classes(ctx, prog, rule):
    """vectors indexed by prototype position are never resized after construction"""
    RES = ("push", "pop", "resize", "truncate", "clear", "insert", "remove", "drain", "extend", "extend_from_slice", "append", "retain", "swap_remove", "split_off", "dedup", "push_back", "push_front", "pop_front", "pop_back")
    for adt, fields in (("queue_reader::QueueReader", ("byte_streams", "queues", "buffer_sizes")), ("pc_writer::PointCloudWriter", ("byte_streams", "prototype"))):
        for fld in fields:
            bad = []
            for p, f in prog.fns.items():
                R = Resolver(f, max_depth=10)
                for bi, t in f.calls():
                    c = callee_of(t)
                    if c.rsplit("::", 1)[-1].split("<")[0] not in RES or not t["args"]:
                        continue
                    a = strip(R.operand(t["args"][0]))
                    if a[0] == "field" and a[2] == fld and self_field(a) == fld and f.self_ty.startswith(adt):
                        bad.append((short(p), short(c)))
                if field_assignments(f, adt, fld):
                    bad.append((short(p), "assignment"))
            ctx.ob(rule, "never-resized/%s.%s" % (adt.split("::")[-1], fld), not bad, "%s.%s is created with prototype.len() entries and the vector itself is never resized or replaced afterwards: %s" % (adt.split("::")[-1], fld, bad or "no resizing call"))


def xml_parser_options(ctx, prog, rule):
    """the XML section is untrusted: it has to be parsed with DTDs disabled (roxmltree's default), otherwise internal
    entities are expanded and a few bytes of input grow without bound (entity expansion)"""
    rs = panic_rules.roots(prog, "reader")
    reach_set = prog.reachable_from(rs)
    n = 0
    for p in sorted(reach_set):
        f = prog.fns[p]
        R = None
        for bi, t in f.calls(lambda c, t: "roxmltree" in c and c.rsplit("::", 1)[-1] in ("parse", "parse_with_options")):
            n += 1
            ctx.fn_seen(f)
            c = callee_of(t)
            if c.endswith("::parse"):
                ctx.ob(rule, "xml-parser/%s/default-options" % short(p), True, "Document::parse uses the default options (DTD rejected)", where=f.file_line(bi), nontrivial=False)
                continue
            R = R or Resolver(f)
            o = strip(R.operand(t["args"][-1]))
            ok, why = False, tree_str(strip_deep(o))[:120]
            if o[0] == "call" and o[1].endswith("Default>::default"):
                ok = True
            elif o[0] == "agg" and o[1][0] == "adt" and "allow_dtd" in o[1][3]:
                v = strip(o[2][o[1][3].index("allow_dtd")])
                ok = (v[0] == "const" and v[2] in (0, False)) or (v[0] == "field" and strip(v[1])[0] == "call" and strip(v[1])[1].endswith("Default>::default"))
                if "nodes_limit" in o[1][3]:
                    nl = strip(o[2][o[1][3].index("nodes_limit")])
                    okn = nl[0] == "field" and strip(nl[1])[0] == "call" and strip(nl[1])[1].endswith("Default>::default")
                    ctx.ob(rule, "xml-parser/%s/nodes_limit" % short(p), okn, "parse_with_options(%s): a node limit below the default rejects well-formed files with many scans (the documented limits know none)" % why, where=f.file_line(bi))
            ctx.ob(rule, "xml-parser/%s/allow_dtd" % short(p), ok, "parse_with_options(%s): allow_dtd must be false for untrusted input" % why, where=f.file_line(bi))
    ctx.floor(rule, "XML parser entry points reachable from the reader API", n, 1, semantic=False)


_GROW = ("push", "push_back", "push_front", "insert", "extend", "extend_from_slice", "append")
_SCAN = ("contains", "position", "rposition", "any", "all", "find", "find_map", "binary_search", "count", "max", "min", "sum", "last", "nth", "rfind", "starts_with", "ends_with")
_ALLOC = ("new", "with_capacity", "default", "from_elem")


def _alloc_nodes(t):
    """allocation sites (Vec::new() at block b, ..) a collection expression is rooted in"""
    out = set()
    for x in leaves(t):
        if x[0] == "call" and x[1].rsplit("::", 1)[-1].split("<")[0] in _ALLOC and ("Vec" in x[1] or "VecDeque" in x[1] or "String" in x[1] or "HashMap" in x[1] or "BTreeMap" in x[1]) and len(x) > 3:
            out.add((x[1], x[3]))
    return out


def no_growing_rescan(ctx, prog, rule, kind="reader"):
    """work per call is linear in the input: a loop that appends to a collection must not scan that same collection on
    every trip (duplicate checks by linear search make parsing quadratic in an input-controlled count)"""
    rs = panic_rules.roots(prog, kind)
    reach_set = prog.reachable_from(rs)
    n = 0
    for p in sorted(reach_set):
        f = prog.fns[p]
        loops = natural_loops(f)
        if not loops:
            continue
        R = Resolver(f, max_depth=16)
        for h, body in sorted(loops.items()):
            grown = set()
            for bi, t in f.calls(lambda c, t: c.rsplit("::", 1)[-1].split("<")[0] in _GROW):
                if bi in body and t["args"]:
                    grown |= _alloc_nodes(R.operand(t["args"][0]))
            grown = {g for g in grown if g[1] not in body}           # allocated outside the loop, grown inside it
            if not grown:
                continue
            n += 1
            ctx.fn_seen(f)
            bad = []
            # inner loops over the growing collection
            for h2, body2 in loops.items():
                if h2 == h or h2 not in body or not body2 < body:
                    continue
                for b in body2:
                    t = f.blocks[b]["term"]
                    if t["k"] == "call" and callee_of(t).rsplit("::", 1)[-1] == "next" and t["args"]:
                        if _alloc_nodes(R.operand(t["args"][0])) & grown:
                            bad.append("loop at %s iterates it" % f.file_line(h2))
            # hidden loops: linear-search calls on the growing collection
            for bi, t in f.calls(lambda c, t: c.rsplit("::", 1)[-1].split("<")[0] in _SCAN):
                if bi in body and t["args"] and _alloc_nodes(R.operand(t["args"][0])) & grown and not ("HashMap" in callee_of(t) or "HashSet" in callee_of(t) or "BTree" in callee_of(t)):
                    bad.append("%s at %s scans it" % (short(callee_of(t)), f.file_line(bi)))
            ordinal = sorted(loops).index(h)
            ctx.ob(rule, "growing-rescan/%s/loop-%d" % (short(p), ordinal), not bad,
                   "%s: the loop at %s appends to a collection allocated before it; %s" % (short(p), f.file_line(h), "; ".join(sorted(set(bad))) if bad else "no trip scans that collection"),
                   where=f.file_line(h), nontrivial=False)
    ctx.floor(rule, "appending loops reachable from the %s API" % kind, n, 1, semantic=False)
