"""Shared analyses over the MIR facts (DESIGN.md §3.3): loader, pruned CFG, dominators,
path queries, value resolution (expression trees), forward uses, call graph."""
import collections
import json

from facts import Unusable

TRANSPARENT_SUFFIX = (
    "::deref", "::deref_mut", "::as_ref", "::as_mut", "::borrow", "::borrow_mut", "::clone",
    "::to_owned", "::into", "::from", "::as_str", "::as_bytes", "::as_slice", "::as_mut_slice",
    "::to_string", "::as_deref", "::into_iter", "::iter", "::iter_mut", "::to_vec", "::unsize", "::try_into", "::try_from",
)
CONVERTERS = ("read_err", "write_err", "invalid_err", "internal_err", "context", "with_context")


class AnchorMissing(Unusable):
    pass


# ----------------------------------------------------------------------------------------
# basic accessors

def callee_of(term):
    """resolved callee path of a call terminator ('' for indirect calls)."""
    if term.get("k") != "call":
        return None
    c = term["callee"]
    return c.get("resolved") or c.get("path") or "<indirect>"


def callee_syntactic(term):
    c = term["callee"]
    return c.get("path") or "<indirect>"


def short(path):
    """last two path segments without generic arguments: 'PagedReader::read_page'."""
    out, depth, cur = [], 0, ""
    for ch in path:
        if ch == "<":
            depth += 1
        elif ch == ">":
            depth -= 1
        elif depth == 0:
            cur += ch
    segs = [s for s in cur.replace(" as ", "::").split("::") if s]
    return "::".join(segs[-2:])


def succs(term):
    k = term["k"]
    if k == "goto":
        return [term["target"]]
    if k == "switch":
        return [b for _, b in term["targets"]] + [term["otherwise"]]
    if k == "call":
        return [term["target"]] if term["target"] >= 0 else []
    if k in ("assert", "drop"):
        return [term["target"]]
    if k == "other":
        return []
    return []


def place_str(p):
    s = "_%d" % p["local"]
    for e in p["proj"]:
        k = e["k"]
        if k == "deref":
            s = "(*%s)" % s
        elif k == "field":
            s = "%s.%s" % (s, e["name"] or e["idx"])
        elif k == "downcast":
            s = "(%s as %s)" % (s, e["variant"])
        elif k == "index":
            s = "%s[_%d]" % (s, e["local"])
        elif k == "cidx":
            s = "%s[%d]" % (s, e["off"])
        elif k == "subslice":
            s = "%s[%d..%s%d]" % (s, e["from"], "-" if e["from_end"] else "", e["to"])
        else:
            s = "%s<%s>" % (s, k)
    return s


def fields_of(p):
    return [e["name"] if e["name"] else str(e["idx"]) for e in p["proj"] if e["k"] == "field"]


def op_place(o):
    return o["place"] if o["k"] in ("copy", "move") else None


def const_int(o):
    """integer value of a constant operand (unsigned bit pattern) or None."""
    if o.get("k") == "const" and "bits" in o:
        return int(o["bits"])
    return None


def const_signed(o):
    v = const_int(o)
    if v is None:
        return None
    ty = o.get("ty", "")
    if ty.startswith("i") and ty[1:].isdigit() or ty == "isize":
        bits = o["size"] * 8
        if v >= 1 << (bits - 1):
            v -= 1 << bits
    return v


# ----------------------------------------------------------------------------------------

class Fn:
    def __init__(self, d, crate):
        self.d = d
        self.crate = crate
        self.path = d["path"]
        self.blocks = d["blocks"]
        self.locals = d["locals"]
        self.argc = d["argc"]
        self.public = d["public"]
        self.kind = d["kind"]
        self.self_ty = d["self_ty"]
        self.trait = d["trait"]
        self.span = d["span"]
        self._defs = None
        self._cfg = None
        self._dom = None
        self._preds = None
        self._always_err = None

    def __repr__(self):
        return "<Fn %s>" % self.path

    # -- locations ---------------------------------------------------------------------
    def file_line(self, bi, si=None):
        b = self.blocks[bi]
        if si is not None and si < len(b["stmts"]):
            return "%s:%d" % (self.span["file"], b["stmts"][si]["line"])
        t = b["term"]
        if "span" in t:
            return "%s:%d" % (t["span"]["file"], t["span"]["l0"])
        if b["stmts"]:
            return "%s:%d" % (self.span["file"], b["stmts"][-1]["line"])
        return "%s:%d" % (self.span["file"], self.span["l0"])

    def local_ty(self, n):
        return self.locals[n]["ty"]

    def local_name(self, n):
        return self.locals[n]["name"]

    def ret_ty(self):
        return self.locals[0]["ty"]

    # -- definitions -------------------------------------------------------------------
    def defs(self):
        """local -> list of (kind, payload, block, stmt_index, place) for every assignment whose
        destination is rooted at that local. kind in stmt|call."""
        if self._defs is None:
            d = collections.defaultdict(list)
            for bi, b in enumerate(self.blocks):
                if b["cleanup"]:
                    continue
                for si, st in enumerate(b["stmts"]):
                    d[st["place"]["local"]].append(("stmt", st["rv"], bi, si, st["place"]))
                t = b["term"]
                if t["k"] == "call":
                    d[t["dest"]["local"]].append(("call", t, bi, len(b["stmts"]), t["dest"]))
            self._defs = d
        return self._defs

    def whole_defs(self, n):
        return [x for x in self.defs().get(n, []) if not x[4]["proj"]]

    def calls(self, pred=None):
        """yield (block index, terminator) of call terminators in non-cleanup blocks."""
        for bi, b in enumerate(self.blocks):
            if b["cleanup"]:
                continue
            t = b["term"]
            if t["k"] == "call" and (pred is None or pred(callee_of(t), t)):
                yield bi, t

    def calls_to(self, *suffixes):
        return list(self.calls(lambda c, t: any(c.endswith(s) or short(c) == s for s in suffixes)))

    # -- CFG with infeasible-edge pruning --------------------------------------------------
    def cfg(self):
        if self._cfg is None:
            g = {}
            pruned = self._infeasible_edges()
            for bi, b in enumerate(self.blocks):
                if b["cleanup"]:
                    continue
                ss = []
                for s in succs(b["term"]):
                    if self.blocks[s]["cleanup"] or (bi, s) in pruned:
                        continue
                    if s not in ss:
                        ss.append(s)
                g[bi] = ss
            # restrict to reachable
            seen = reach(g, [0])
            self._cfg = {b: [s for s in ss if s in seen] for b, ss in g.items() if b in seen}
        return self._cfg

    def preds(self):
        if self._preds is None:
            p = collections.defaultdict(list)
            for b, ss in self.cfg().items():
                for s in ss:
                    p[s].append(b)
            self._preds = p
        return self._preds

    def _single_def(self, n):
        ds = self.whole_defs(n)
        if len(ds) == 1 and len(self.defs().get(n, [])) == 1:
            return ds[0]
        return None

    def _is_always_err_value(self, op, program, depth=0):
        """operand certainly holds Result::Err / None-like residual (used for `Error::invalid(..)?`)."""
        pl = op_place(op)
        if pl is None or pl["proj"] or depth > 4:
            return False
        d = self._single_def(pl["local"])
        if d is None:
            return False
        kind, payload = d[0], d[1]
        if kind == "call":
            c = callee_of(payload)
            if program is not None and program.is_always_err(c):
                return True
            return False
        rv = payload
        if rv["k"] == "aggregate" and rv["kind"].get("agg") == "adt" and rv["kind"]["adt"].endswith("result::Result") and rv["kind"]["variant"] == "Err":
            return True
        if rv["k"] == "use":
            return self._is_always_err_value(rv["op"], program, depth + 1)
        return False

    def _infeasible_edges(self):
        """edges (block, succ) that cannot be taken: the Continue edge after `always-Err?`."""
        pruned = set()
        program = getattr(self, "program", None)
        for bi, b in enumerate(self.blocks):
            t = b["term"]
            if b["cleanup"] or t["k"] != "switch":
                continue
            pl = op_place(t["discr"])
            if pl is None or pl["proj"]:
                continue
            d = self._single_def(pl["local"])
            if d is None or d[0] != "stmt" or d[1]["k"] != "discr":
                continue
            src = d[1]["place"]
            if src["proj"]:
                continue
            d2 = self._single_def(src["local"])
            if d2 is None or d2[0] != "call":
                continue
            c = callee_of(d2[1])
            if not c.endswith("Try>::branch") and not c.endswith("::branch"):
                continue
            if self._is_always_err_value(d2[1]["args"][0], program):
                # ControlFlow::Continue has discriminant 0
                for v, tgt in t["targets"]:
                    if v == "0":
                        pruned.add((bi, tgt))
                if not any(v == "0" for v, _ in t["targets"]):
                    pruned.add((bi, t["otherwise"]))
        return pruned

    # -- dominators --------------------------------------------------------------------
    def dom(self):
        """immediate-dominator style: returns dict block -> set of dominators."""
        if self._dom is None:
            g = self.cfg()
            nodes = list(g.keys())
            preds = self.preds()
            dom = {n: set(nodes) for n in nodes}
            dom[0] = {0}
            changed = True
            order = rpo(g, 0)
            while changed:
                changed = False
                for n in order:
                    if n == 0:
                        continue
                    ps = [dom[p] for p in preds.get(n, []) if p in dom]
                    new = set.intersection(*ps) if ps else set()
                    new = new | {n}
                    if new != dom[n]:
                        dom[n] = new
                        changed = True
            self._dom = dom
        return self._dom

    def dominates(self, a, b):
        """block a dominates block b (both must be reachable)."""
        d = self.dom()
        return b in d and a in d[b]

    def pos_dominates(self, pa, pb):
        """position (block, stmt idx) pa dominates pb."""
        (ba, sa), (bb, sb) = pa, pb
        if ba == bb:
            return sa <= sb
        return self.dominates(ba, bb)

    def return_blocks(self):
        return [b for b in self.cfg() if self.blocks[b]["term"]["k"] == "return"]

    # -- exits ---------------------------------------------------------------------------
    def ret_assignments(self):
        """list of (block, stmt idx, class, payload): class in ok|err|fwd|other."""
        out = []
        for kind, payload, bi, si, place in self.defs().get(0, []):
            if place["proj"] or bi not in self.cfg():
                continue
            cls = "other"
            if kind == "call":
                c = callee_of(payload)
                prog = getattr(self, "program", None)
                if c.endswith("::from_residual"):
                    cls = "err"
                elif prog is not None and prog.is_always_err(c):
                    cls = "err"         # `return Error::invalid(..)`: the callee never returns Ok
                elif c.rsplit("::", 1)[-1] in CONVERTERS and payload["args"] and self._always_err_value(payload["args"][0]):
                    cls = "err"         # `Err(e).read_err(..)`: the error converters keep an Err an Err
                else:
                    cls = "fwd"
            else:
                rv = payload
                if rv["k"] == "aggregate" and rv["kind"].get("agg") == "adt":
                    adt, var = rv["kind"]["adt"], rv["kind"]["variant"]
                    if adt.endswith("result::Result"):
                        cls = "ok" if var == "Ok" else "err"
                    elif adt.endswith("option::Option"):
                        cls = "some" if var == "Some" else "none"
                    else:
                        cls = "value"
                elif rv["k"] == "use":
                    cls = "use"
                else:
                    cls = "value"
            out.append((bi, si, cls, payload))
        return out

    def _always_err_value(self, op, depth=0):
        p = op_place(op)
        if p is None or p["proj"] or depth > 4:
            return False
        ds = self.defs().get(p["local"], [])
        if not ds or any(d[4]["proj"] for d in ds):
            return False
        for kind, payload, bi, si, place in ds:
            if kind != "stmt":
                return False
            if payload["k"] == "aggregate" and payload["kind"].get("agg") == "adt" and payload["kind"]["adt"].endswith("result::Result") and payload["kind"]["variant"] == "Err":
                continue
            if payload["k"] == "aggregate" and payload["kind"].get("agg") == "adt" and payload["kind"]["adt"].endswith("option::Option") and payload["kind"]["variant"] == "None":
                continue            # the Option converters turn None into an error
            if payload["k"] == "use" and self._always_err_value(payload["op"], depth + 1):
                continue
            return False
        return True

    def err_exit_blocks(self):
        """blocks in which _0 is set to an error (from_residual / Err aggregate)."""
        return {bi for bi, si, cls, _ in self.ret_assignments() if cls == "err"}

    def ok_reachable(self, removed=(), start=(0,)):
        """is a return block reachable from start along paths that avoid `removed` and all
        error-exit blocks?  returns a witness path (list of blocks) or None."""
        bad = set(removed) | self.err_exit_blocks()
        return find_path(self.cfg(), list(start), set(self.return_blocks()), bad)

    def any_reachable(self, targets, removed=(), start=(0,)):
        return find_path(self.cfg(), list(start), set(targets), set(removed))


def rpo(g, start):
    seen, order = set(), []

    def dfs(n):
        stack = [(n, iter(g.get(n, [])))]
        seen.add(n)
        while stack:
            node, it = stack[-1]
            adv = False
            for m in it:
                if m not in seen:
                    seen.add(m)
                    stack.append((m, iter(g.get(m, []))))
                    adv = True
                    break
            if not adv:
                order.append(node)
                stack.pop()
    dfs(start)
    order.reverse()
    return order


def reach(g, start, removed=()):
    seen = set()
    st = [s for s in start if s not in removed]
    while st:
        n = st.pop()
        if n in seen:
            continue
        seen.add(n)
        for m in g.get(n, []):
            if m not in removed and m not in seen:
                st.append(m)
    return seen


def find_path(g, starts, targets, removed):
    """BFS path from any start to any target avoiding removed; a start that is a target counts."""
    prev = {}
    q = collections.deque()
    for s in starts:
        if s in removed or s not in g:
            continue
        prev[s] = None
        q.append(s)
    while q:
        n = q.popleft()
        if n in targets:
            path = []
            while n is not None:
                path.append(n)
                n = prev[n]
            return path[::-1]
        for m in g.get(n, []):
            if m in removed or m in prev:
                continue
            prev[m] = n
            q.append(m)
    return None


def natural_loops(fn):
    """returns dict header -> set of body blocks, from back edges (tail -> dominating header)."""
    g = fn.cfg()
    loops = {}
    preds = fn.preds()
    for b, ss in g.items():
        for s in ss:
            if fn.dominates(s, b):
                body = {s, b}
                st = [b]
                while st:
                    n = st.pop()
                    if n == s:
                        continue
                    for p in preds.get(n, []):
                        if p not in body:
                            body.add(p)
                            st.append(p)
                loops.setdefault(s, set()).update(body)
    return loops


# ----------------------------------------------------------------------------------------
# Program: all functions of one crate/config + call graph + summaries

class Program:
    def __init__(self, crate_facts):
        self.crate = crate_facts["crate"]
        self.fns = {}
        for d in crate_facts["fns"]:
            f = Fn(d, self.crate)
            f.program = self
            self.fns[f.path] = f
        self.adts = {a["path"]: a for a in crate_facts["adts"]}
        self._always_err = {}
        self._cg = None

    def fn(self, path):
        f = self.fns.get(path)
        if f is None:
            raise AnchorMissing("anchor function %r not found in crate %s" % (path, self.crate))
        return f

    def has_fn(self, path):
        return path in self.fns

    def find(self, suffix):
        r = [f for p, f in self.fns.items() if p.endswith(suffix)]
        if len(r) != 1:
            raise AnchorMissing("anchor %r matches %d functions in %s" % (suffix, len(r), self.crate))
        return r[0]

    def adt(self, path):
        a = self.adts.get(path)
        if a is None:
            raise AnchorMissing("anchor type %r not found" % path)
        return a

    def closures_of(self, fn):
        pre = fn.path + "::{closure#"
        return [f for p, f in self.fns.items() if p.startswith(pre)]

    def is_always_err(self, callee_path, _stack=None):
        """local function all of whose exits assign Err(..) to _0 (Error::invalid & co)."""
        if callee_path in self._always_err:
            return self._always_err[callee_path]
        f = self.fns.get(callee_path)
        res = False
        if f is not None and "Result<" in f.ret_ty():
            _stack = _stack or set()
            if callee_path not in _stack:
                _stack.add(callee_path)
                self._always_err[callee_path] = False  # break cycles
                ras = [r for r in f.ret_assignments()]
                res = bool(ras) and all(cls == "err" and not (isinstance(p, dict) and p.get("k") == "call") for _, _, cls, p in ras)
        self._always_err[callee_path] = res
        return res

    # -- call graph ----------------------------------------------------------------------
    def callgraph(self):
        if self._cg is None:
            cg = {}
            for p, f in self.fns.items():
                outs = set()
                for bi, b in enumerate(f.blocks):
                    if b["cleanup"]:
                        continue
                    t = b["term"]
                    if t["k"] == "call":
                        c = callee_of(t)
                        outs.add(c)
                        # generic trait calls which could not be resolved: add all local impls
                        if not t["callee"].get("is_resolved", True):
                            name = c.rsplit("::", 1)[-1]
                            for q, g2 in self.fns.items():
                                if g2.trait and q.endswith("::" + name):
                                    outs.add(q)
                    # closures created here
                    for st in b["stmts"]:
                        rv = st["rv"]
                        if rv["k"] == "aggregate" and rv["kind"].get("agg") == "closure":
                            outs.add(rv["kind"]["def"])
                    # fn items passed as values (e.g. `.map(RecordValue::Single)` / `finalize_customized_xml(Ok)`)
                    ops = []
                    if t["k"] == "call":
                        ops = t["args"]
                    for o in ops:
                        if o.get("k") == "const" and "fn" in o:
                            outs.add(o["fn"])
                cg[p] = outs
            self._cg = cg
        return self._cg

    def reachable_from(self, roots):
        cg = self.callgraph()
        seen = set()
        st = list(roots)
        while st:
            n = st.pop()
            if n in seen:
                continue
            seen.add(n)
            for m in cg.get(n, ()):
                if m in self.fns and m not in seen:
                    st.append(m)
        return seen

    def callers_of(self, path):
        return [p for p, outs in self.callgraph().items() if path in outs]


# ----------------------------------------------------------------------------------------
# value resolution (A3/A4): operand -> expression tree

class Resolver:
    """Resolves operands of one function into expression trees.

    tree forms (tuples):
      ('const', ty, value)        value: int (unsigned bits) | str | bytes(list) | ('fn', path) | dbg-string
      ('param', i)                i-th argument local (1-based)
      ('local', n)                unresolved local (cycle / depth bound / no def)
      ('field', base, name)       name may be 'Variant.field' after a downcast
      ('index', base, idx)
      ('binop', op, a, b) ('unop', op, a) ('cast', ty, a)
      ('call', callee, (args...), block)
      ('ok', t)                   success payload of a Result/Option-producing value
      ('agg', kind-desc, (ops...))
      ('discr', t) ('phi', (alts...)) ('ref', t)
    refs/derefs/copies/moves are transparent."""

    def __init__(self, fn, max_depth=64):
        self.fn = fn
        self.max_depth = max_depth

    def operand(self, op, depth=0, seen=frozenset()):
        k = op["k"]
        if k == "const":
            return self._const(op)
        if k in ("copy", "move"):
            return self.place(op["place"], depth, seen)
        return ("unknown", op.get("dbg", "?"))

    def _const(self, op):
        ty = op.get("ty", "")
        if "fn" in op:
            return ("const", "fn", ("fn", op["fn"]))
        if "str_array" in op:
            # a constant table of string literals: the same tree as the array literal
            return ("agg", ("array", "&str"), tuple(("const", "&str", x) for x in op["str_array"]))
        if "enum_array" in op:
            return ("agg", ("array", op.get("enum_ty", "")), tuple(("const", op.get("enum_ty", ""), ("enum", x)) for x in op["enum_array"]))
        if "enum_variant" in op:
            if "payload_str" in op:
                return ("const", ty, ("enum", op["enum_variant"], op["payload_str"]))
            return ("const", ty, ("enum", op["enum_variant"]))
        if "payload_str" in op and "str" not in op:
            return ("const", ty, op["payload_str"])
        if "bits" in op:
            return ("const", ty, int(op["bits"]))
        if "str" in op:
            return ("const", ty, op["str"])
        if "bytes" in op:
            return ("const", ty, tuple(op["bytes"]))
        return ("const", ty, op.get("dbg", "?"))

    def place(self, pl, depth=0, seen=frozenset()):
        t = self.local(pl["local"], depth, seen)
        pend_variant = None
        for e in pl["proj"]:
            k = e["k"]
            if k == "deref":
                continue
            if k == "downcast":
                pend_variant = e["variant"]
                continue
            if k == "field":
                name = e["name"] if e["name"] else str(e["idx"])
                t = self._project(t, name, e["idx"], pend_variant)
                pend_variant = None
            elif k == "index":
                t = ("index", t, self.local(e["local"], depth + 1, seen))
            elif k == "cidx":
                if t[0] == "agg" and t[1][0] == "array" and not e.get("from_end") and e["off"] < len(t[2]):
                    t = t[2][e["off"]]                  # `let [a, b] = [x, y]`: the element itself
                else:
                    t = ("index", t, ("const", "usize", e["off"]))
            elif k == "subslice" and (not e["from_end"] or e.get("array_len", -1) >= 0):
                # `[a, rest @ ..]` patterns: the same tree as base[from..to]
                hi = e["to"] if not e["from_end"] else e["array_len"] - e["to"]
                rng = ("agg", ("adt", "std::ops::Range", "Range", ("start", "end")), (("const", "usize", e["from"]), ("const", "usize", hi)))
                t = ("call", "core::array::<impl std::ops::Index<I> for [T; N]>::index", (t, rng), -1, ())
            else:
                t = ("proj", t, k)
        return t

    def _project(self, t, name, idx, variant):
        # field of a known aggregate
        if t[0] == "agg":
            kind, ops = t[1], t[2]
            if kind[0] in ("tuple", "closure") and idx < len(ops):
                return ops[idx]
            if kind[0] == "adt":
                if variant is None or variant == kind[2]:
                    fields = kind[3]
                    if name in fields:
                        return ops[fields.index(name)]
                    if idx < len(ops):
                        return ops[idx]
        # checked arithmetic: (AddWithOverflow(a,b)).0
        if t[0] == "binop" and t[1].endswith("WithOverflow"):
            if idx == 0:
                return ("binop", t[1][:-len("WithOverflow")], t[2], t[3])
            return ("overflow_flag", t)
        # projection distributes over the alternatives of a multiply assigned local (one Try::branch per return site
        # of an inlined helper)
        if t[0] == "phi" and variant is not None:
            if variant in ("Some", "Ok") and name == "0":
                return self._ok(t)
            alts = []
            for a in t[1]:
                if a[0] == "agg" and a[1][0] == "adt" and a[1][2] != variant:
                    continue                    # a literal of another variant: this alternative cannot be downcast
                x = self._project(a, name, idx, variant)
                if x not in alts:
                    alts.append(x)
            if not alts:
                return ("field", t, "%s.%s" % (variant, name))
            return alts[0] if len(alts) == 1 else ("phi", tuple(alts))
        if t[0] == "phi" and variant is None and all(a[0] == "agg" and a[1][0] in ("tuple",) for a in t[1]):
            # field k of a value that is one of several tuple literals
            alts = []
            for a in t[1]:
                x = self._project(a, name, idx, variant)
                if x not in alts:
                    alts.append(x)
            return alts[0] if len(alts) == 1 else ("phi", tuple(alts))
        # (a.zip(b) as Some).0.k -> payload of a / b
        if t[0] == "ok" and t[1][0] == "call" and t[1][1].endswith("Option::<T>::zip") and len(t[1][2]) == 2 and name in ("0", "1") and variant is None:
            return self._ok(t[1][2][int(name)])
        # Try::branch(x) as Continue .0  -> ok(x)
        if t[0] == "call" and t[1].endswith("::branch") and variant == "Continue":
            return self._ok(t[2][0])
        if variant in ("Some", "Ok") and name == "0":
            return self._ok(t)
        if variant:
            return ("field", t, "%s.%s" % (variant, name))
        return ("field", t, name)

    def _ok(self, t):
        """success payload of a Result / Option valued tree: alternatives that are certainly Err / None are dropped and
        literal Ok(v) / Some(v) are unwrapped (the payload of `Ok(v)?` is v)"""
        r = self._ok_norm(t)
        return r if r is not None else ("ok", t)

    def _ok_norm(self, t, depth=0):
        if depth > 8:
            return ("ok", t)
        k = t[0]
        if k == "phi":
            alts = []
            for a in t[1]:
                x = self._ok_norm(a, depth + 1)
                if x is not None and x not in alts:
                    alts.append(x)
            if not alts:
                return None
            return alts[0] if len(alts) == 1 else ("phi", tuple(alts))
        if k == "agg" and t[1][0] == "adt" and (t[1][1].endswith("result::Result") or t[1][1].endswith("option::Option")):
            if t[1][2] in ("Ok", "Some") and t[2]:
                return t[2][0]
            if t[1][2] in ("Err", "None"):
                return None
        if k == "call":
            c = t[1]
            prog = getattr(self.fn, "program", None)
            if c.endswith("::from_residual") or (prog is not None and prog.is_always_err(c)):
                return None
            if c.endswith("Option::<std::result::Result<T, E>>::transpose") and t[2]:
                # ok(Option<Result<T>>::transpose(x)): Some(r) -> Some(ok(r)), None -> None, Some(Err) -> no Ok payload
                inner = t[2][0]
                alts = []
                for a in (inner[1] if inner[0] == "phi" else (inner,)):
                    if a[0] == "agg" and a[1][0] == "adt" and a[1][1].endswith("option::Option"):
                        if a[1][2] == "Some" and a[2]:
                            r = self._ok_norm(a[2][0], depth + 1)
                            if r is None:
                                continue
                            a = ("agg", a[1], (r,))
                        if a not in alts:
                            alts.append(a)
                    else:
                        return ("ok", t)
                if not alts:
                    return None
                return alts[0] if len(alts) == 1 else ("phi", tuple(alts))
        return ("ok", t)

    def local(self, n, depth=0, seen=frozenset()):
        fn = self.fn
        if 1 <= n <= fn.argc:
            # parameters may be re-assigned, but that is rare; treat as param when never assigned as a whole
            if not fn.whole_defs(n):
                return ("param", n)
        if depth > self.max_depth or n in seen:
            return ("local", n)
        ci = counter_locals(fn).get(n)
        if ci is not None:
            rng = ("agg", ("adt", "std::ops::Range", "Range", ("start", "end")), (self.operand(ci[1], depth + 1, seen | {n}), self.operand(ci[2], depth + 1, seen | {n})))
            ty = "std::ops::Range<%s>" % fn.locals[n].get("ty", "usize")
            return ("ok", ("call", "std::iter::range::<impl std::iter::Iterator for std::ops::Range<A>>::next", (rng,), ci[0], (ty,)))
        ds = fn.defs().get(n, [])
        whole = [d for d in ds if not d[4]["proj"]]
        partial = [d for d in ds if d[4]["proj"]]
        if not whole:
            if 1 <= n <= fn.argc:
                return ("param", n)
            return ("local", n)
        seen2 = seen | {n}
        alts = []
        for kind, payload, bi, si, place in whole:
            if kind == "call":
                alts.append(self._call(payload, bi, depth + 1, seen2))
            else:
                alts.append(self.rvalue(payload, depth + 1, seen2))
        if partial:
            # locals built up by field assignment (struct update) are kept opaque but tagged
            return ("local", n) if len(alts) != 1 else ("partial", alts[0], n)
        if len(alts) == 1:
            return alts[0]
        # dedupe
        uniq = []
        for a in alts:
            if a not in uniq:
                uniq.append(a)
        if len(uniq) == 1:
            return uniq[0]
        return ("phi", tuple(uniq))

    def _call(self, t, bi, depth, seen):
        c = callee_of(t)
        args = tuple(self.operand(a, depth, seen) for a in t["args"])
        return ("call", c, args, bi, tuple(t["callee"].get("args", ())))

    def rvalue(self, rv, depth=0, seen=frozenset()):
        k = rv["k"]
        if k == "use":
            return self.operand(rv["op"], depth, seen)
        if k == "ref":
            return self.place(rv["place"], depth, seen)
        if k == "binop":
            return ("binop", rv["op"], self.operand(rv["a"], depth, seen), self.operand(rv["b"], depth, seen))
        if k == "unop":
            return ("unop", rv["op"], self.operand(rv["a"], depth, seen))
        if k == "cast":
            return ("cast", rv["ty"], self.operand(rv["a"], depth, seen))
        if k == "discr":
            return ("discr", self.place(rv["place"], depth, seen))
        if k == "repeat":
            return ("repeat", self.operand(rv["a"], depth, seen), rv["n"])
        if k == "aggregate":
            kd = rv["kind"]
            ops = tuple(self.operand(o, depth, seen) for o in rv["ops"])
            a = kd.get("agg")
            if a == "adt":
                return ("agg", ("adt", kd["adt"], kd["variant"], tuple(kd["fields"])), ops)
            if a == "tuple":
                return ("agg", ("tuple",), ops)
            if a == "array":
                return ("agg", ("array", kd["ty"]), ops)
            if a == "closure":
                return ("agg", ("closure", kd["def"]), ops)
            return ("agg", ("other", kd.get("dbg", "")), ops)
        return ("unknown", rv.get("dbg", k))


def strip(t):
    """remove success-wrappers and pass-through calls: ok(x), x.read_err(..), x.clone(), ..."""
    while True:
        if t[0] == "ok":
            t = t[1]
            continue
        if t[0] == "partial":
            t = t[1]
            continue
        if t[0] == "call":
            c = t[1]
            last = c.rsplit("::", 1)[-1]
            if last in CONVERTERS and t[2]:
                t = t[2][0]
                continue
            if any(c.endswith(s) for s in TRANSPARENT_SUFFIX) and len(t[2]) >= 1:
                t = t[2][0]
                continue
            if c.endswith("::branch") and t[2]:
                t = t[2][0]
                continue
        if t[0] == "cast" and False:
            t = t[2]
            continue
        return t


def strip_deep(t):
    t = strip(t)
    if t[0] in ("binop",):
        return (t[0], t[1], strip_deep(t[2]), strip_deep(t[3]))
    if t[0] in ("unop", "cast"):
        return (t[0], t[1], strip_deep(t[2]))
    if t[0] == "field":
        return ("field", strip_deep(t[1]), t[2])
    if t[0] == "index":
        return ("index", strip_deep(t[1]), strip_deep(t[2]))
    if t[0] == "call":
        return ("call", t[1], tuple(strip_deep(a) for a in t[2]), t[3]) + tuple(t[4:])
    if t[0] == "agg":
        return ("agg", t[1], tuple(strip_deep(a) for a in t[2]))
    if t[0] == "phi":
        return ("phi", tuple(strip_deep(a) for a in t[1]))
    if t[0] == "discr":
        return ("discr", strip_deep(t[1]))
    return t


def tree_str(t, depth=0):
    if depth > 12:
        return "…"
    k = t[0]
    if k == "const":
        v = t[2]
        if isinstance(v, tuple) and v and v[0] == "fn":
            return "fn:" + short(v[1])
        if isinstance(v, tuple) and v and v[0] == "enum":
            return "%s::%s%s" % (t[1].lstrip("&").rsplit("::", 1)[-1], v[1], ("('%s')" % v[2]) if len(v) > 2 else "")
        if isinstance(v, tuple):
            return "bytes[%d]" % len(v)
        return repr(v) if isinstance(v, str) else "%s%s" % (v, ("_" + t[1]) if t[1] else "")
    if k == "param":
        return "arg%d" % t[1]
    if k == "local":
        return "_%d" % t[1]
    if k == "field":
        return "%s.%s" % (tree_str(t[1], depth + 1), t[2])
    if k == "index":
        return "%s[%s]" % (tree_str(t[1], depth + 1), tree_str(t[2], depth + 1))
    if k == "binop":
        return "(%s %s %s)" % (tree_str(t[2], depth + 1), t[1], tree_str(t[3], depth + 1))
    if k == "unop":
        return "%s(%s)" % (t[1], tree_str(t[2], depth + 1))
    if k == "cast":
        return "(%s as %s)" % (tree_str(t[2], depth + 1), t[1])
    if k == "call":
        return "%s(%s)" % (short(t[1]), ", ".join(tree_str(a, depth + 1) for a in t[2]))
    if k == "ok":
        return "ok(%s)" % tree_str(t[1], depth + 1)
    if k == "partial":
        return "partial(%s)" % tree_str(t[1], depth + 1)
    if k == "agg":
        kd = t[1]
        name = kd[1].rsplit("::", 1)[-1] + "::" + kd[2] if kd[0] == "adt" else kd[0]
        return "%s{%s}" % (name, ", ".join(tree_str(a, depth + 1) for a in t[2]))
    if k == "phi":
        return "phi(%s)" % " | ".join(tree_str(a, depth + 1) for a in t[1])
    if k == "discr":
        return "discr(%s)" % tree_str(t[1], depth + 1)
    return "%s" % (t,)


def leaves(t, acc=None):
    """all sub-trees (pre-order)."""
    if acc is None:
        acc = []
    acc.append(t)
    k = t[0]
    if k in ("field", "ok", "discr", "partial", "ref"):
        leaves(t[1], acc)
    elif k == "index":
        leaves(t[1], acc)
        leaves(t[2], acc)
    elif k == "binop":
        leaves(t[2], acc)
        leaves(t[3], acc)
    elif k in ("unop", "cast"):
        leaves(t[2], acc)
    elif k in ("call", "agg"):
        for a in t[2]:
            leaves(a, acc)
    elif k == "phi":
        for a in t[1]:
            leaves(a, acc)
    elif k == "repeat":
        leaves(t[1], acc)
    return acc


def contains_call(t, suffix):
    return any(x[0] == "call" and (x[1].endswith(suffix) or short(x[1]) == suffix) for x in leaves(t))


def field_path(t):
    """for trees that are a chain of fields from a param/local: ('param',1,['writer','offset']) else None"""
    names = []
    t = strip(t)
    while t[0] == "field":
        names.append(t[2])
        t = strip(t[1])
    if t[0] in ("param", "local"):
        return (t[0], t[1], names[::-1])
    return None


def self_field(t):
    """name chain if t is a field chain rooted at parameter 1 (self)."""
    fp = field_path(t)
    if fp and fp[0] == "param" and fp[1] == 1:
        return ".".join(fp[2])
    return None


# ----------------------------------------------------------------------------------------
# uses

def operands_of_rvalue(rv):
    k = rv["k"]
    if k == "use":
        return [rv["op"]]
    if k in ("binop",):
        return [rv["a"], rv["b"]]
    if k in ("unop", "cast", "repeat"):
        return [rv["a"]]
    if k == "aggregate":
        return list(rv["ops"])
    return []


def places_read_by_rvalue(rv):
    out = [op_place(o) for o in operands_of_rvalue(rv)]
    if rv["k"] in ("ref", "discr"):
        out.append(rv["place"])
    return [p for p in out if p is not None]


def uses_of_local(fn, n):
    """list of (block, stmt idx or 'term', description) where local n is read (as root of a place)."""
    out = []
    for bi in fn.cfg():
        b = fn.blocks[bi]
        for si, st in enumerate(b["stmts"]):
            for p in places_read_by_rvalue(st["rv"]):
                if p["local"] == n:
                    out.append((bi, si, st))
            # index projections in destination
        t = b["term"]
        if t["k"] == "call":
            for a in t["args"]:
                p = op_place(a)
                if p is not None and p["local"] == n:
                    out.append((bi, "term", t))
        elif t["k"] == "switch":
            p = op_place(t["discr"])
            if p is not None and p["local"] == n:
                out.append((bi, "term", t))
        elif t["k"] == "assert":
            p = op_place(t["cond"])
            if p is not None and p["local"] == n:
                out.append((bi, "term", t))
    return out


def counter_locals(fn):
    """locals that are plain loop counters: `let mut i = c0; while i < n { ..uses of i..; i += 1 }` with no use of i
    after the increment or outside the loop and no assignment of n inside it.  Such a local takes exactly the values
    the iteration variable of `for i in c0..n` takes, and the Resolver renders it that way (one spelling for both).
    returns {local: (header, init operand, bound operand)}"""
    if getattr(fn, "_counters", None) is not None:
        return fn._counters
    out = {}
    fn._counters = out
    try:
        loops = natural_loops(fn)
    except Exception:
        return out
    if not loops:
        return out
    g = fn.cfg()
    for n in range(fn.argc + 1, len(fn.locals)):
        ty = fn.locals[n].get("ty", "")
        if ty not in ("usize", "u64", "u32", "u16", "u8", "i32", "i64", "isize"):
            continue
        ds = fn.defs().get(n, [])
        if len(ds) != 2 or any(d[4]["proj"] for d in ds) or any(d[0] != "stmt" for d in ds):
            continue
        init = [d for d in ds if d[1]["k"] == "use" and d[1]["op"].get("k") == "const"]
        inc = [d for d in ds if d not in init]
        if len(init) != 1 or len(inc) != 1:
            continue
        p = inc[0][1]
        if p["k"] != "use" or op_place(p["op"]) is None:
            continue
        sp = op_place(p["op"])
        if not (len(sp["proj"]) == 1 and sp["proj"][0]["k"] == "field" and sp["proj"][0]["idx"] == 0):
            continue
        ads = fn.whole_defs(sp["local"])
        if not (len(ads) == 1 and ads[0][0] == "stmt" and ads[0][1]["k"] == "binop" and ads[0][1]["op"] == "AddWithOverflow"):
            continue
        xa, xb = ads[0][1]["a"], ads[0][1]["b"]
        if not (op_place(xa) is not None and not op_place(xa)["proj"] and op_place(xa)["local"] == n and const_int(xb) == 1):
            continue
        incb, addb = inc[0][2], ads[0][2]
        cand = [(h, body) for h, body in loops.items() if incb in body and init[0][2] not in body]
        if not cand:
            continue
        h, body = min(cand, key=lambda x: len(x[1]))
        gi = {x: [y for y in ss if y in body] for x, ss in g.items() if x in body}
        entry = [y for y in g.get(h, []) if y in body]
        if find_path(gi, entry, {h}, {incb}) is not None:
            continue
        # the guard: a switch in the body on `n < bound` (copy of n) whose false edge leaves the loop, dominating the increment
        guard = None
        for b in body:
            t = fn.blocks[b]["term"]
            if t["k"] != "switch" or op_place(t["discr"]) is None or op_place(t["discr"])["proj"]:
                continue
            cds = fn.whole_defs(op_place(t["discr"])["local"])
            if not (len(cds) == 1 and cds[0][0] == "stmt" and cds[0][1]["k"] == "binop" and cds[0][1]["op"] in ("Lt", "Gt")):
                continue
            a, c = cds[0][1]["a"], cds[0][1]["b"]
            if cds[0][1]["op"] == "Gt":
                a, c = c, a
            ap = op_place(a)
            if ap is None or ap["proj"] or ap["local"] != n:
                # a copy of n
                if ap is None or ap["proj"]:
                    continue
                cp = fn.whole_defs(ap["local"])
                if not (len(cp) == 1 and cp[0][0] == "stmt" and cp[0][1]["k"] == "use" and op_place(cp[0][1]["op"]) is not None
                        and not op_place(cp[0][1]["op"])["proj"] and op_place(cp[0][1]["op"])["local"] == n):
                    continue
            e = switch_edges(fn, b)
            tr, fa = e.get("1", e["otherwise"]), e.get("0")
            if fa is None or fa in body or tr not in body or not fn.dominates(b, incb):
                continue
            cpl = op_place(c)
            for _ in range(3):
                # look through temporaries copied from a loop-invariant local
                if cpl is None or cpl["proj"]:
                    break
                cd = fn.defs().get(cpl["local"], [])
                if len(cd) == 1 and cd[0][0] == "stmt" and not cd[0][4]["proj"] and cd[0][2] in body and cd[0][1]["k"] == "use":
                    c = cd[0][1]["op"]
                    cpl = op_place(c)
                else:
                    break
            if cpl is not None and (cpl["proj"] or any(d[2] in body for d in fn.defs().get(cpl["local"], []))):
                continue
            guard = (b, c)
        if guard is None:
            continue
        # every other exit of the loop is fine (break); uses: only inside the body, dominated by the guard, not after the increment
        after = reach(gi, [s for s in gi.get(incb, []) if s != h], removed={h}) if gi.get(incb) else set()
        ok = True
        for bi, si, _ in uses_of_local(fn, n):
            if bi == addb and si != "term" and fn.blocks[bi]["stmts"][si] is not None and fn.blocks[bi]["stmts"][si]["rv"] is ads[0][1]:
                continue
            if bi not in body or bi in after or not fn.dominates(guard[0], bi):
                ok = False
            if bi == incb and (si == "term" or si > inc[0][3]):
                ok = False
        if ok:
            out[n] = (h, init[0][1]["op"], guard[1])
    return out


def flows(fn, start_local, max_steps=200):
    """forward closure: the set of locals that (transitively) receive the value of start_local
    through copies, moves, refs, field projections, casts, aggregates and transparent calls.
    returns (locals set, list of sink events (bi, what, term_or_stmt))."""
    seen = {start_local}
    work = [start_local]
    sinks = []
    steps = 0
    while work and steps < max_steps:
        n = work.pop()
        steps += 1
        for bi, si, x in uses_of_local(fn, n):
            if si == "term":
                t = x
                if t["k"] == "call":
                    c = callee_of(t)
                    sinks.append((bi, "call", t))
                    last = c.rsplit("::", 1)[-1]
                    if (last in CONVERTERS or any(c.endswith(s) for s in TRANSPARENT_SUFFIX) or c.endswith("::branch")
                            or c.endswith("::from_residual") or last in ("map", "map_err", "ok", "ok_or", "unwrap_or", "unwrap_or_default", "and_then")):
                        d = t["dest"]["local"]
                        if d not in seen:
                            seen.add(d)
                            work.append(d)
                elif t["k"] == "switch":
                    sinks.append((bi, "switch", t))
                elif t["k"] == "assert":
                    sinks.append((bi, "assert", t))
            else:
                st = x
                d = st["place"]["local"]
                sinks.append((bi, "stmt", st))
                if d not in seen:
                    seen.add(d)
                    work.append(d)
    return seen, sinks


_PROGRAMS = {}


def load_program(cfg, crate=None, inline=True):
    key = (cfg, crate, inline)
    if key not in _PROGRAMS:
        _PROGRAMS[key] = _load_program(cfg, crate, inline)
    return _PROGRAMS[key]


def _load_program(cfg, crate=None, inline=True):
    import facts
    crates, info = facts.load(cfg)
    if crate is None:
        crate = list(crates.keys())[0]
    prog = Program(crates[crate])
    if inline:
        import inline as inl
        known = inl.known_functions(cfg, crate)
        if known is not None:
            r = inl.Inliner(prog, known["fns"], known.get("direct_closures", ())).run()
            info = dict(info)
            info["inlined_calls"] = r.inlined_calls
            info["inlined_helpers"] = sorted({g for _, g in r.log})[:40]
    return prog, info


# ----------------------------------------------------------------------------------------
# struct-field helpers

def _proj_has_field(place, adt, field):
    for e in place["proj"]:
        if e["k"] == "field" and e["name"] == field and (adt is None or e["adt"] == adt):
            return True
    return False


def _last_field(place):
    for e in reversed(place["proj"]):
        if e["k"] == "field":
            return e
        if e["k"] in ("deref",):
            continue
        return None
    return None


def _ref_target(fn, n, depth=0):
    """the place a reference-typed local points to: follows copies, moves and closure-environment slots back to the
    `&mut place` / `&place` statement (None when that is not a single statement)"""
    def same_defs(n_):
        # jump threading copies blocks: several textually identical definitions of a temporary are one definition
        ds_ = fn.whole_defs(n_)
        if len(ds_) > 1 and all(d[0] == "stmt" for d in ds_) and len(fn.defs().get(n_, [])) == len(ds_) and all(d[1] == ds_[0][1] for d in ds_[1:]):
            return ds_[:1]
        return ds_
    for _ in range(10):
        ds = same_defs(n)
        if len(ds) != 1 or ds[0][0] != "stmt":
            return None
        rv = ds[0][1]
        if rv["k"] == "ref":
            pl = rv["place"]
            if len(pl["proj"]) == 1 and pl["proj"][0]["k"] == "deref":
                n = pl["local"]                      # a reborrow `&mut *r`
                continue
            return pl
        if rv["k"] != "use":
            return None
        src = op_place(rv["op"])
        if src is None:
            return None
        proj = [e for e in src["proj"] if e["k"] != "deref"]
        if not proj:
            n = src["local"]
            continue
        if len(proj) == 1 and proj[0]["k"] == "field" and str(proj[0].get("adt", "")).startswith("closure:"):
            # a captured reference: slot idx of the closure aggregate this environment was built as
            env = src["local"]
            for _ in range(6):
                de = same_defs(env)
                if len(de) != 1 or de[0][0] != "stmt":
                    return None
                rve = de[0][1]
                if rve["k"] == "use" and op_place(rve["op"]) is not None and not op_place(rve["op"])["proj"]:
                    env = op_place(rve["op"])["local"]
                    continue
                if rve["k"] == "aggregate" and rve["kind"].get("agg") == "closure" and proj[0]["idx"] < len(rve["ops"]):
                    cp = op_place(rve["ops"][proj[0]["idx"]])
                    if cp is None or cp["proj"]:
                        return None
                    n = cp["local"]
                    break
                return None
            else:
                return None
            continue
        return None
    return None


def field_assignments(fn, adt, field):
    """statements / call destinations that assign the *whole* field `adt.field` (last projection), directly or through
    a reference to it (`let r = &mut self.f; *r = v`, also when r was captured by an inlined closure)."""
    out = []
    for n, ds in fn.defs().items():
        for kind, payload, bi, si, place in ds:
            if bi not in fn.cfg():
                continue
            lf = place["proj"][-1] if place["proj"] else None
            if lf and lf["k"] == "field" and lf["name"] == field and (adt is None or lf["adt"] == adt):
                out.append((bi, si, kind, payload))
            elif lf and lf["k"] == "deref" and len(place["proj"]) == 1:
                tgt = _ref_target(fn, place["local"])
                tl = tgt["proj"][-1] if tgt is not None and tgt["proj"] else None
                if tl and tl["k"] == "field" and tl["name"] == field and (adt is None or tl["adt"] == adt):
                    out.append((bi, si, kind, payload))
    return out


def field_mut_borrows(fn, adt, field):
    """statements `_x = &mut <place through adt.field>`."""
    out = []
    for bi in fn.cfg():
        for si, st in enumerate(fn.blocks[bi]["stmts"]):
            rv = st["rv"]
            if rv["k"] == "ref" and rv.get("mut") and _proj_has_field(rv["place"], adt, field):
                out.append((bi, si, st))
    return out


def borrow_escapes(fn, n, depth=0, seen=None):
    """does the reference held in local n reach code that is not visible here (a call argument, a return value, a
    store into memory)?  Copies, re-borrows, captures by a closure whose body was inlined and reads through the
    reference stay inside the function: every store through them is found by field_assignments."""
    seen = seen if seen is not None else set()
    if n in seen:
        return False
    seen.add(n)
    if depth > 12 or n == 0:
        return True
    for bi, si, what in uses_of_local(fn, n):
        if si == "term":
            if what["k"] == "call":
                return True
            continue
        st = what
        rv = st["rv"]
        dst = st["place"]
        if dst["proj"]:
            return True                                   # stored into memory
        if rv["k"] in ("use", "ref", "cast"):
            src = op_place(rv["op"]) if rv["k"] == "use" else (rv["place"] if rv["k"] == "ref" else op_place(rv["a"]))
            if src is not None and src["local"] == n:
                nd = [e for e in src["proj"] if e["k"] != "deref"]
                if any(e["k"] == "deref" for e in src["proj"]) and rv["k"] == "use" and not nd:
                    # a read through the reference: the value, not the reference (for the integer fields this is used for)
                    if fn.local_ty(dst["local"]).startswith("&"):
                        if borrow_escapes(fn, dst["local"], depth + 1, seen):
                            return True
                    continue
                if borrow_escapes(fn, dst["local"], depth + 1, seen):
                    return True
                continue
            return True
        if rv["k"] == "aggregate" and rv["kind"].get("agg") in ("closure", "tuple"):
            if borrow_escapes(fn, dst["local"], depth + 1, seen):
                return True
            continue
        if rv["k"] == "discr":
            continue
        return True
    return False


def field_partial_writes(fn, adt, field):
    """assignments into a sub-place of adt.field (e.g. self.buf[i] = x)."""
    out = []
    for n, ds in fn.defs().items():
        for kind, payload, bi, si, place in ds:
            if bi not in fn.cfg():
                continue
            if _proj_has_field(place, adt, field):
                lf = place["proj"][-1]
                if not (lf["k"] == "field" and lf["name"] == field):
                    out.append((bi, si, kind, payload))
    return out


def is_variant_agg(rv, adt_suffix, variant):
    return rv.get("k") == "aggregate" and rv["kind"].get("agg") == "adt" and rv["kind"]["adt"].endswith(adt_suffix) and rv["kind"]["variant"] == variant


def cfg_without_edges(fn, edges):
    edges = set(edges)
    return {b: [s for s in ss if (b, s) not in edges] for b, ss in fn.cfg().items()}


def switch_edges(fn, bi):
    """for a block ending in switch: dict value(str)|'otherwise' -> successor."""
    t = fn.blocks[bi]["term"]
    d = {v: b for v, b in t["targets"]}
    d["otherwise"] = t["otherwise"]
    return d


def as_remainder(t):
    """(x, m) when the tree computes x mod m: `x % m`, `x - (x / m) * m`, `x - m * (x / m)`; else None"""
    def sc(u):
        u = strip(u)
        while u[0] == "cast":
            u = strip(u[2])
        return u
    t = sc(t)
    if t[0] == "binop" and t[1] == "Rem":
        return sc(t[2]), sc(t[3])
    if t[0] == "binop" and t[1] == "Sub":
        x, prod = sc(t[2]), sc(t[3])
        if prod[0] == "binop" and prod[1] == "Mul":
            for q, m in ((sc(prod[2]), sc(prod[3])), (sc(prod[3]), sc(prod[2]))):
                if q[0] == "binop" and q[1] == "Div" and sc(q[2]) == x and sc(q[3]) == m:
                    return x, m
    return None


def order_test(fn, R, bi):
    """switch block testing an order relation: returns (a, op, b, true succ, false succ) with op in Lt|Le|Gt|Ge for
    both `a < b` binops and PartialOrd::lt(a, b) style calls (None otherwise)"""
    t = fn.blocks[bi]["term"]
    if t["k"] != "switch":
        return None
    dl = op_place(t["discr"])
    if dl is None:
        return None
    d = strip(R.place(dl))
    e = switch_edges(fn, bi)
    tr, fa = e.get("1", e["otherwise"]), e.get("0")
    if fa is None:
        return None
    if d[0] == "phi" and not dl["proj"]:
        # `let flag = a || b || x < y; if flag ..`: the constant arms were threaded past this switch (inline.py), the
        # one that remains is the comparison
        nonconst = [a for a in d[1] if not (strip(a)[0] == "const")]
        if len(nonconst) == 1:
            root = dl["local"]
            for _ in range(4):
                ds_ = fn.whole_defs(root)
                if len(ds_) == 1 and ds_[0][0] == "stmt" and ds_[0][1]["k"] == "use" and op_place(ds_[0][1]["op"]) is not None and not op_place(ds_[0][1]["op"])["proj"]:
                    root = op_place(ds_[0][1]["op"])["local"]
                else:
                    break
            threaded = True
            for kind_, payload_, b_, si_, pl_ in fn.whole_defs(root):
                if kind_ == "stmt" and payload_["k"] == "use" and payload_["op"].get("k") == "const" and b_ in fn.cfg():
                    nb_ = b_
                    for _ in range(7):
                        ss_ = fn.cfg().get(nb_, [])
                        if len(ss_) != 1:
                            break
                        nb_ = ss_[0]
                        if nb_ == bi:
                            threaded = False
                            break
                        if fn.blocks[nb_]["stmts"]:
                            break
            if threaded:
                d = strip(nonconst[0])
    if d[0] == "binop" and d[1] in ("Lt", "Le", "Gt", "Ge"):
        return d[2], d[1], d[3], tr, fa
    if d[0] == "call" and d[1].rsplit("::", 1)[-1] in ("lt", "le", "gt", "ge") and len(d[2]) >= 2:
        return d[2][0], d[1].rsplit("::", 1)[-1].capitalize(), d[2][1], tr, fa
    return None


def order_edges(test, is_x, is_y):
    """for an order_test result that decides exactly `x < y` against `x >= y` (in any of the four spellings):
    (successor when x < y, successor when x >= y); None for any other test"""
    a, op, b, tr, fa = test
    if is_x(a) and is_y(b):
        if op == "Lt":
            return tr, fa
        if op == "Ge":
            return fa, tr
    if is_y(a) and is_x(b):
        if op == "Gt":
            return tr, fa
        if op == "Le":
            return fa, tr
    return None


def succ_when_at_least(test, is_value, bound):
    """for an order_test result comparing a value (selected by is_value) with the constant `bound` or `bound - 1`:
    the successor taken when value >= bound (None when the test has another shape)"""
    a, op, b, tr, fa = test
    ka, kb = _tree_const(a), _tree_const(b)
    if kb is not None and is_value(a):
        k = kb
        if op == "Ge" and k == bound:
            return tr
        if op == "Lt" and k == bound:
            return fa
        if op == "Gt" and k == bound - 1:
            return tr
        if op == "Le" and k == bound - 1:
            return fa
    if ka is not None and is_value(b):
        k = ka
        if op == "Le" and k == bound:       # bound <= v
            return tr
        if op == "Gt" and k == bound:       # bound > v
            return fa
        if op == "Lt" and k == bound - 1:   # bound-1 < v
            return tr
        if op == "Ge" and k == bound - 1:   # bound-1 >= v
            return fa
    return None


def int_test_edges(fn, R, bi):
    """for a switch block: (tested value tree, {constant: successor taken when value == constant}, successors taken
    otherwise).  Unifies `if x == k` / `if x != k` (a bool switch on a comparison) with `match x { k => .., _ => .. }`
    (a switch on the value itself).  None when the block does not test a value against constants."""
    t = fn.blocks[bi]["term"]
    if t["k"] != "switch":
        return None
    dl = op_place(t["discr"])
    if dl is None:
        return None
    d = strip(R.place(dl))
    e = switch_edges(fn, bi)
    if d[0] == "binop" and d[1] in ("Eq", "Ne"):
        a, b = d[2], d[3]
        ka, kb = _tree_const(a), _tree_const(b)
        if (ka is None) == (kb is None):
            return None
        val, k = (b, ka) if ka is not None else (a, kb)
        true_succ, false_succ = e.get("1", e["otherwise"]), e.get("0")
        if false_succ is None:
            return None
        if d[1] == "Eq":
            return val, {k: true_succ}, [false_succ]
        return val, {k: false_succ}, [true_succ]
    if d[0] == "binop" or d[0] == "discr":
        return None
    cases = {}
    for v, b in fn.blocks[bi]["term"]["targets"]:
        try:
            cases[int(v)] = b
        except ValueError:
            return None
    return d, cases, [e["otherwise"]]


def _tree_const(t):
    t = strip(t)
    while t[0] == "cast":
        t = strip(t[2])
    if t[0] == "const" and isinstance(t[2], int):
        return t[2]
    return None


def branch_of_call(fn, bi):
    """for a call block bi whose result is fed to `?` (possibly through x.read_err(..) & co):
    returns (switch block, continue succ, break succ) or None."""
    t = fn.blocks[bi]["term"]
    if t["k"] != "call":
        return None
    dest = t["dest"]
    if dest["proj"]:
        return None
    locs, sinks = flows(fn, dest["local"])
    for sb, what, tt in sinks:
        if what == "call" and callee_of(tt).endswith("::branch"):
            sw = tt["target"]
            if sw < 0 or fn.blocks[sw]["term"]["k"] != "switch":
                continue
            e = switch_edges(fn, sw)
            return (sw, e.get("0"), e.get("1", e["otherwise"]))
    # the same propagation spelled `match r { Ok(v) => .., Err(e) => .. }` / `if let Err(e) = r { return .. }`
    if "Result<" in fn.local_ty(dest["local"]):
        for sb in sorted(fn.cfg()):
            tt = fn.blocks[sb]["term"]
            if tt["k"] != "switch":
                continue
            p = op_place(tt["discr"])
            ds = fn.whole_defs(p["local"]) if p is not None and not p["proj"] else []
            if len(ds) == 1 and ds[0][0] == "stmt" and ds[0][1]["k"] == "discr" and not ds[0][1]["place"]["proj"] and ds[0][1]["place"]["local"] in locs \
                    and "Result<" in fn.local_ty(ds[0][1]["place"]["local"]) and fn.dominates(bi, sb):
                e = switch_edges(fn, sb)
                ok, err = e.get("0", e["otherwise"]), e.get("1", e["otherwise"])
                if ok != err:
                    return (sb, ok, err)
    return None


def ok_edges_of_call(fn, bi):
    """edges taken exactly when the Result produced by call block bi is Ok: the Continue edge of a following `?`
    (through converters) and the Ok edge of every `match` / `if let` on its discriminant.  list of (block, succ)"""
    out = []
    br = branch_of_call(fn, bi)
    if br is not None and br[1] is not None:
        out.append((br[0], br[1]))
    t = fn.blocks[bi]["term"]
    if t["k"] != "call" or t["dest"]["proj"]:
        return out
    locs, _ = flows(fn, t["dest"]["local"])
    for sb in fn.cfg():
        tt = fn.blocks[sb]["term"]
        if tt["k"] != "switch":
            continue
        p = op_place(tt["discr"])
        ds = fn.whole_defs(p["local"]) if p is not None and not p["proj"] else []
        if len(ds) == 1 and ds[0][0] == "stmt" and ds[0][1]["k"] == "discr" and not ds[0][1]["place"]["proj"] and ds[0][1]["place"]["local"] in locs \
                and "Result<" in fn.local_ty(ds[0][1]["place"]["local"]):
            e = switch_edges(fn, sb)
            ok = e.get("0", e["otherwise"])
            if ok != e.get("1", e["otherwise"]) and (sb, ok) not in out:
                out.append((sb, ok))
    return out


def gated_by_ok(fn, call_block, targets):
    """the target blocks are reachable only when the Result of the call was Ok"""
    edges = ok_edges_of_call(fn, call_block)
    if not edges or not fn.dominates(call_block, targets[0] if targets else call_block):
        return False
    g = cfg_without_edges(fn, edges)
    r = reach(g, [0])
    return bool(targets) and all(b not in r for b in targets)


def option_tests(fn, R, pred):
    """tests whether an Option place is Some, however spelled: `x.is_some()` / `x.is_none()` feeding a switch, or a
    `match x { Some(..) .. None .. }` / `if let Some(..) = x` switch on its discriminant.  pred(tree) selects the
    place.  returns a list of (switch block, successor when Some, successor when None)"""
    out = []
    for bi, t in fn.calls(lambda c, t: c.rsplit("::", 1)[-1] in ("is_some", "is_none") and "Option" in c):
        if t["args"] and pred(strip(R.operand(t["args"][0]))):
            for sw, tr, fa in bool_switches(fn, bi):
                out.append((sw, tr, fa) if callee_of(t).endswith("is_some") else (sw, fa, tr))
    for bi in fn.cfg():
        t = fn.blocks[bi]["term"]
        if t["k"] != "switch":
            continue
        dl = op_place(t["discr"])
        d = strip(R.place(dl)) if dl else None
        if d and d[0] == "discr" and pred(strip(d[1])):
            # the discriminated place must be an Option (a Result of the same origin is a different test)
            ds_ = fn.whole_defs(dl["local"]) if not dl["proj"] else []
            if len(ds_) == 1 and ds_[0][0] == "stmt" and ds_[0][1]["k"] == "discr" and not ds_[0][1]["place"]["proj"]:
                ty_ = fn.local_ty(ds_[0][1]["place"]["local"])
                if ty_ not in ("?", "") and not ty_.lstrip("&").replace("mut ", "").startswith("std::option::Option"):
                    continue
            e = switch_edges(fn, bi)
            some, none = e.get("1", e["otherwise"]), e.get("0", e["otherwise"])
            if some != none:
                out.append((bi, some, none))
    return out


def bool_switches(fn, bi):
    """every switch whose discriminant is (a copy / negation of) the bool produced by call block bi:
    list of (switch block, true succ, false succ)"""
    t = fn.blocks[bi]["term"]
    src = t["dest"]["local"]
    if t["dest"]["proj"]:
        return []
    out = []
    for sb in fn.cfg():
        tt = fn.blocks[sb]["term"]
        if tt["k"] != "switch":
            continue
        p = op_place(tt["discr"])
        if p is None or p["proj"]:
            continue
        n, neg, ok = p["local"], False, False
        for _ in range(8):
            if n == src:
                ok = True
                break
            ds = fn.whole_defs(n)
            if len(ds) != 1 or len(fn.defs().get(n, [])) != 1 or ds[0][0] != "stmt":
                break
            rv = ds[0][1]
            if rv["k"] == "use" and op_place(rv["op"]) is not None and not op_place(rv["op"])["proj"]:
                n = op_place(rv["op"])["local"]
            elif rv["k"] == "unop" and rv["op"] == "Not" and op_place(rv["a"]) is not None and not op_place(rv["a"])["proj"]:
                n = op_place(rv["a"])["local"]
                neg = not neg
            else:
                break
        if ok:
            e = switch_edges(fn, sb)
            tr, fa = e.get("1", e["otherwise"]), e.get("0")
            if neg:
                tr, fa = fa, tr
            out.append((sb, tr, fa))
    return out


def bool_edges(fn, bi):
    """call block bi producing a bool that is switched on: returns (switch block, true succ, false succ)."""
    r = _bool_edges_local(fn, bi)
    if r is not None:
        return r
    alls = bool_switches(fn, bi)
    return alls[0] if len(alls) == 1 else None


def _bool_edges_local(fn, bi):
    t = fn.blocks[bi]["term"]
    dest = t["dest"]["local"]
    neg = False
    cur = t["target"]
    seen = 0
    while cur >= 0 and seen < 3:
        b = fn.blocks[cur]
        for st in b["stmts"]:
            rv = st["rv"]
            if rv["k"] == "unop" and rv["op"] == "Not" and op_place(rv["a"]) and op_place(rv["a"])["local"] == dest:
                dest = st["place"]["local"]
                neg = not neg
            elif rv["k"] == "use" and op_place(rv["op"]) and op_place(rv["op"])["local"] == dest and not st["place"]["proj"]:
                dest = st["place"]["local"]
        tt = b["term"]
        if tt["k"] == "switch":
            p = op_place(tt["discr"])
            if p is not None and p["local"] == dest:
                e = switch_edges(fn, cur)
                tr, fa = e["otherwise"], e.get("0")
                if neg:
                    tr, fa = fa, tr
                return (cur, tr, fa)
            return None
        if tt["k"] == "goto":
            cur = tt["target"]
            seen += 1
            continue
        return None
    return None
