#!/usr/bin/env python3
"""debug helper: ./dump.py <cfg> <fn-path-substring> — pretty-print MIR facts of matching functions"""
import sys, os
sys.path.insert(0, os.path.dirname(os.path.abspath(__file__)))
from mirlib import *
import facts

def opstr(o):
    if o["k"] in ("copy", "move"): return ("move " if o["k"]=="move" else "") + place_str(o["place"])
    if o["k"] == "const":
        if "str" in o: return repr(o["str"])
        if "fn" in o: return "fn:" + o["fn"]
        if "bits" in o: return "%s_%s" % (o["bits"], o["ty"])
        if "bytes" in o: return "bytes%s" % (o["bytes"][:40],)
        return "const(%s)" % o.get("dbg", "?")
    return "?"
def rvstr(rv):
    k = rv["k"]
    if k == "use": return opstr(rv["op"])
    if k == "ref": return ("&mut " if rv["mut"] else "&") + place_str(rv["place"])
    if k == "binop": return "%s(%s, %s)" % (rv["op"], opstr(rv["a"]), opstr(rv["b"]))
    if k == "unop": return "%s(%s)" % (rv["op"], opstr(rv["a"]))
    if k == "cast": return "%s as %s [%s]" % (opstr(rv["a"]), rv["ty"], rv["kind"])
    if k == "discr": return "discriminant(%s)" % place_str(rv["place"])
    if k == "aggregate":
        kd = rv["kind"]; n = kd.get("adt", kd.get("agg")) + ("::" + kd["variant"] if "variant" in kd else "") + (":" + kd["def"] if "def" in kd else "")
        return "%s{%s}" % (n, ", ".join(opstr(o) for o in rv["ops"]))
    if k == "repeat": return "[%s; %s]" % (opstr(rv["a"]), rv["n"])
    return "other(%s)" % rv.get("dbg")
def dump(fn):
    print("fn %s  public=%s argc=%d ret=%s  %s:%d" % (fn.path, fn.public, fn.argc, fn.ret_ty(), fn.span["file"], fn.span["l0"]))
    for i, l in enumerate(fn.locals):
        if l["name"] or i <= fn.argc: print("   _%d: %s  %s" % (i, l["ty"], l["name"]))
    g = fn.cfg()
    for bi, b in enumerate(fn.blocks):
        if b["cleanup"]: continue
        print(" bb%d%s:" % (bi, "" if bi in g else " (unreachable/pruned)"))
        for st in b["stmts"]:
            print("    %s = %s   // L%d" % (place_str(st["place"]), rvstr(st["rv"]), st["line"]))
        t = b["term"]; k = t["k"]
        if k == "call":
            print("    %s = call %s(%s) -> bb%d   // L%d%s" % (place_str(t["dest"]), callee_of(t), ", ".join(opstr(a) for a in t["args"]), t["target"], t["span"]["l0"], " [exp]" if t["span"]["exp"] else ""))
        elif k == "switch":
            print("    switch %s: %s else bb%d" % (opstr(t["discr"]), ", ".join("%s->bb%d" % (v, b2) for v, b2 in t["targets"]), t["otherwise"]))
        elif k == "assert":
            print("    assert(%s == %s, %s[%s]) -> bb%d" % (opstr(t["cond"]), t["expected"], t["kind"], ", ".join(opstr(o) for o in t["ops"]), t["target"]))
        elif k == "goto": print("    goto bb%d" % t["target"])
        elif k == "drop": print("    drop(%s) -> bb%d" % (place_str(t["place"]), t["target"]))
        else: print("    %s" % k)
if __name__ == "__main__":
    cfg, pat = sys.argv[1], sys.argv[2]
    raw = "--raw" in sys.argv
    crates, info = facts.load(cfg)
    for cn in crates:
        prog, _ = load_program(cfg, cn, inline=not raw)
        for p, f in prog.fns.items():
            if pat in p:
                dump(f); print()
