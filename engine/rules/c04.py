"""C04 — all metadata survives write -> read unchanged (DESIGN §4 C04)."""
from mirlib import *
import xml_rules
import norm_rules
import pcw_rules
import header_rules
import blob_rules

TECHNIQUE = "XML schema extraction from MIR: symbolic evaluation of the serialisers (decoded format templates, expanded helper calls) into a document skeleton with field provenance; reader lookup tables per struct field; writer/reader inverse-map comparison, field coverage, format-spec check, escaping-gate dataflow, setter and raw-XML identity dataflow"
EXPLANATION = (
    "Decides for the 14 metadata structures that every field the writer emits is read back from an element of the same "
    "tag and E57 type into the same field (and blob descriptors from the same attributes), that every field of each "
    "descriptor is serialised, that every number is formatted with plain {} Display (shortest round-trip form) and parsed "
    "with str::parse of the same family, that every string reaching element text goes through the CDATA gate that splits "
    "']]>', every string reaching an attribute value is escaped with '&' first, then '<' and '\"', and every string used as "
    "an XML name was checked by validate_name; that each set_* method stores its argument unchanged into the field of its "
    "name and finalize moves exactly these fields into the descriptor; that the prototype's type attributes written and "
    "read agree; and that E57Reader::xml is exactly the bytes read and the writer writes exactly the transformer's output. "
    "Also that the string reader returns Node::text() through conversions only, that every number written is the stored field itself, and that limit values are parsed with the type of their variant. The header's XML length is the byte length of the XML written (C02-R4), without which the reader cannot return the same XML. Not decided: that every XML-1.0 string survives roxmltree's parsing (whitespace handling is trusted).")


def run(ctx):
    ctx.rule("R1", "per structure: field -> (tag, E57 type) of the writer and (tag, type) -> field of the reader are inverse")
    ctx.rule("R2", "every field of every descriptor is serialised (reasoned exceptions listed)")
    ctx.rule("R3", "each set_* stores its argument unchanged into the field of its name; finalize moves those fields into the descriptor")
    ctx.rule("R4", "numbers are formatted with plain {} Display; prototype type attributes written = read, same fields")
    ctx.rule("R5", "escaping gate: CDATA split for element text, &,<,\" escaping (in this order) for attribute values, validate_name for names")
    ctx.rule("R6", "E57Reader::xml is the string decoded from the bytes read; finalize writes exactly transformer(serialize_root(..))")
    for cfg in (["lib"] if ctx.tier == "quick" else ["lib", "lib_crc32c"]):
        prog, info = load_program(cfg, "e57")
        ctx.configs[cfg] = info
        ctx.cfg = cfg
        ctx.call(xml_rules.inverse_maps, prog, "R1", "R2", "R4")
        ctx.call(xml_rules.blob_attrs, prog, "R1")
        ctx.call(xml_rules.datetime_flag, prog, "R1")
        ctx.call(xml_rules.record_name_tables, prog, "R1")
        ctx.call(xml_rules.setters, prog, "R3")
        ctx.call(blob_rules.image_siblings, prog, "R3")
        ctx.call(pcw_rules.finalize_protocol, prog, "R3")
        ctx.call(xml_rules.type_attributes, prog, "R4")
        ctx.call(norm_rules.limit_parse_types, prog, "R4")
        ctx.call(xml_rules.escaping_gate, prog, "R5")
        ctx.call(xml_rules.raw_xml_identity, prog, "R6")
        ctx.call(xml_rules.string_values_unchanged, prog, "R6")
        ctx.call(xml_rules.read_values_unaltered, prog, "R1")
        ctx.call(header_rules.publication_order, prog, "R6")
    ctx.cfg = None
