"""C03 — reader decodes every well-formed E57 file whatever legal layout was chosen (DESIGN §4 C03)."""
from mirlib import *
import layout_rules
import packet_rules
import codec_rules
import width_rules
import page_rules
import cache_rules
import xml_rules
import bound_rules

TECHNIQUE = "binary layout tables extracted from MIR and compared with an independent spec table, packet dispatch decision table, skip-length expression trees against the header sizes, defaults table of omitted type attributes, stream-size loop shape, extraction-window and page-cursor formula trees"
EXPLANATION = (
    "Decides that the reader's field tables of the file header, section headers and the three packet headers equal the "
    "table written from the standard (offsets, widths, little-endian, length+1 convention, ids); that packet type bytes "
    "0/1/2 dispatch to index/data/ignored readers and anything else is an error; that non-data packets are skipped by "
    "exactly packet_length minus the header bytes already consumed (with an underflow guard) and every arm re-aligns; "
    "that omitted minimum/maximum/scale/offset/precision take the standard's defaults identically at all sites; that a "
    "data packet reads bytestream_count (= prototype length) u16 sizes and then exactly those many bytes appended to the "
    "stream of the same index; that the bit extraction window covers 64 bits at any bit phase and append keeps the "
    "carry-over; and that the page cursor is only moved by the verified seek/read/align formulas. Also the bit-width formula and stored form shared with C12. Not decided: "
    "correctness on concrete files, arbitrary XML lexical forms (roxmltree is trusted).")


def run(ctx):
    ctx.rule("R1", "reader layouts = spec table (file header, CV section header, blob header, 3 packet headers); packet dispatch {0:index,1:data,2:ignored,else error}")
    ctx.rule("R2", "index / ignored packets: skip exactly packet_length - header size (16 / 4) bytes with an underflow guard; every arm reaches align")
    ctx.rule("R3", "defaults of omitted type attributes = spec (min -2^63, max 2^63-1, scale 1, offset 0, precision double) at all sites; max<min rejected")
    ctx.rule("R4", "data packet: count guard, u16 sizes into buffer_sizes[i], exactly size_i bytes appended to byte_streams[i]")
    ctx.rule("R5", "bit extraction window (16 bytes / u128, shift by phase), append keeps unconsumed tail and phase (shared with C12-R4)")
    ctx.rule("R6", "page cursor arithmetic: seek_physical / align formulas, cursor written only by verified functions, read served at offset % (page_size-4) of the verified page (shared with C11/C07)")
    ctx.rule("R7", "any legal lexical form: string values are Node::text() unchanged (no trimming), the XML parser runs with its default limits (shared with C04-R6 / C09-R5)")
    for cfg in (["lib"] if ctx.tier == "quick" else ["lib", "lib_crc32c"]):
        prog, info = load_program(cfg, "e57")
        ctx.configs[cfg] = info
        ctx.cfg = cfg
        ctx.call(layout_rules.layouts, prog, "R1")
        ctx.call(layout_rules.dispatch_table, prog, "R1")
        ctx.call(packet_rules.skip_length, prog, "R2")
        ctx.call(packet_rules.reserved_bytes, prog, "R2")
        ctx.call(packet_rules.defaults_table, prog, "R3")
        ctx.call(xml_rules.string_values_unchanged, prog, "R7")
        ctx.call(bound_rules.xml_parser_options, prog, "R7")
        ctx.call(packet_rules.stream_loop_shape, prog, "R4")
        ctx.call(codec_rules.extract_window, prog, "R5")
        ctx.call(codec_rules.append_shape, prog, "R5")
        ctx.call(codec_rules.stored_form, prog, "R5")
        ctx.call(width_rules.width_formula, prog, "R5")
        ctx.call(page_rules.formulas, prog, "R6", side="reader")
        ctx.call(page_rules.cursor_writers, prog, "R6", side="reader")
        ctx.call(cache_rules.serve_only_verified, prog, cache_rules.PR, rule="R6")
    ctx.cfg = None
