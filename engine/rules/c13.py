"""C13 — normalised colour and intensity lie in [0,1], monotone, never NaN (DESIGN §4 C13)."""
from mirlib import *
import norm_rules
import xml_rules
import simple_rules

TECHNIQUE = "abstract interpretation of Range::normalize over a float class domain (NaN / ±inf / sign / bounded) with the constructor invariant of Range established by edge dominance; clamp precondition discharge; assume-prune decision table of normalize_value; interprocedural source summaries of the four *_from_pointcloud siblings; expression trees of the data-type ranges"
EXPLANATION = (
    "Decides that Range values are built only in from_min_max, only behind !min.is_nan(), !max.is_nan() and !(max < min); "
    "that with this invariant both f64::clamp calls of normalize cannot panic and, for every f64 input, the returned f32 is "
    "in the classes {zero, positive finite} and bounded by 1 — never NaN, infinite or negative (abstract interpretation over "
    "float classes with refinement on is_nan); that normalize_value returns 0.0 without a range, range.normalize(value) with "
    "one and the plain cast when disabled; that each of the four channels consults its own limits pair first and falls back "
    "to the data type of its own record only when the limits yield no range (helper calls are summarised with their "
    "arguments substituted); and that the data-type ranges are the documented ones. Limit values are parsed with the type of their variant, and the prototype's declared minimum/maximum are read from the attributes of those names (the data-type range used as fallback). Not decided: the exact value "
    "(value-min)/(max-min), monotonicity and 0/1 at the ends — numeric facts that need a relational argument.")


def run(ctx):
    ctx.rule("R1", "Range invariant (no NaN bound, min <= max) by construction; clamp preconditions; abstract result of normalize within {zero,pos}, bounded, never NaN")
    ctx.rule("R2", "each channel: its own limits pair first, then the data type of its own record, siblings identical modulo channel")
    ctx.rule("R3", "data-type ranges: f32/f64 MIN..MAX defaults, raw*scale+offset, plain casts; limits accepted only as same-typed pairs")
    ctx.rule("R4", "normalisation disabled => stored value as f32; enabled without a range => 0.0")
    for cfg in (["lib"] if ctx.tier == "quick" else ["lib", "lib_crc32c"]):
        prog, info = load_program(cfg, "e57")
        ctx.configs[cfg] = info
        ctx.cfg = cfg
        inv = norm_rules.range_invariant(ctx, prog, "R1")
        ctx.call(norm_rules.normalize_absint, prog, "R1", bool(inv))
        ctx.call(norm_rules.selection_order, prog, "R2")
        ctx.call(norm_rules.type_ranges, prog, "R3")
        ctx.call(norm_rules.limit_parse_types, prog, "R3")
        ctx.call(xml_rules.type_attributes, prog, "R3")
        ctx.call(simple_rules.formulas, prog, "R3")
        ctx.call(simple_rules.pop_point_tables, prog, "R2")
        ctx.call(simple_rules.indices_wiring, prog, "R2")
        ctx.call(norm_rules.normalize_value_table, prog, "R4", "R4")
    ctx.cfg = None
