"""Normalisation rules (C13)."""
import struct

from mirlib import *
from proto import *
from cache_rules import strip_casts, const_val
import floatdom
from simple_rules import leaf_name, poly, f64_of, _agg_fields

RNG = "pc_reader_simple::Range"
P = "pc_reader_simple::Range::"
PRS = "pc_reader_simple::PointCloudReaderSimple::<'a, T>::"


def range_invariant(ctx, prog, rule):
    """Range{min,max,..} is only built in from_min_max, behind !min.is_nan() && !max.is_nan() && !(max < min)."""
    builders = []
    for p, f in prog.fns.items():
        for bi in f.cfg():
            for si, st in enumerate(f.blocks[bi]["stmts"]):
                if is_variant_agg(st["rv"], RNG, "Range"):
                    builders.append((p, bi, si, st["rv"]))
    ok = len(builders) == 1 and builders[0][0] == P + "from_min_max"
    ctx.ob(rule, "range-constructor/who", ok, "Range values are constructed in %s (must be only from_min_max)" % sorted({short(b[0]) for b in builders}), nontrivial=False)
    writers = [p for p, f in prog.fns.items() if any(field_assignments(f, RNG, fld) for fld in ("min", "max", "inv_range"))]
    ctx.ob(rule, "range-constructor/no-field-writes", not writers, "no function assigns Range.min/max/inv_range after construction: %s" % writers, nontrivial=False)
    if not ok:
        return None
    f = prog.fn(P + "from_min_max")
    ctx.fn_seen(f)
    R = Resolver(f)
    p, cb, csi, rv = builders[0]
    vals = dict(zip(rv["kind"]["fields"], rv["ops"]))
    okf = strip(R.operand(vals["min"])) == ("param", 1) and strip(R.operand(vals["max"])) == ("param", 2)
    ctx.ob(rule, "range-constructor/fields", okf, "Range.min <- min parameter, Range.max <- max parameter")
    # guards
    need = {"min-not-nan": False, "max-not-nan": False, "ordered": False}
    for bi, t in f.calls(lambda c, t: c.endswith("::is_nan")):
        a = strip(R.operand(t["args"][0]))
        be = bool_edges(f, bi)
        if not be:
            continue
        sw, tr, fa = be
        g = cfg_without_edges(f, [(sw, fa)])
        dominated = cb not in reach(g, [0])
        if a == ("param", 1):
            need["min-not-nan"] = dominated
        if a == ("param", 2):
            need["max-not-nan"] = dominated
    for bi in f.cfg():
        t = f.blocks[bi]["term"]
        if t["k"] != "switch":
            continue
        ot = order_test(f, R, bi)
        if ot is not None:
            d = ("binop", ot[1], ot[0], ot[2])
            a, b = strip(d[2]), strip(d[3])
            tr, fa = ot[3], ot[4]
            # good edge = the one on which min <= max is known (comparison false on NaN is fine: NaN excluded above)
            good = None
            if d[1] == "Lt" and a == ("param", 2) and b == ("param", 1):      # max < min  -> bad when true
                good = fa
            elif d[1] == "Gt" and a == ("param", 1) and b == ("param", 2):    # min > max -> bad when true
                good = fa
            elif d[1] == "Le" and a == ("param", 1) and b == ("param", 2):    # min <= max -> good when true
                good = tr
            elif d[1] == "Ge" and a == ("param", 2) and b == ("param", 1):
                good = tr
            if good is not None:
                g = cfg_without_edges(f, [(bi, good)])
                need["ordered"] = cb not in reach(g, [0])
    for k, v in need.items():
        ctx.ob(rule, "range-invariant/%s" % k, v, "the construction of Range is reachable only when '%s' holds for its parameters" % k, where=f.file_line(cb, csi))
    return all(need.values()) and okf


def normalize_absint(ctx, prog, rule, invariant_ok, result_class=True):
    f = prog.fn(P + "normalize")
    ctx.fn_seen(f)
    nonnan_any = (floatdom.ALL - {"nan"}, False)

    def field_env(place):
        names = fields_of(place)
        if names and names[-1] in ("min", "max") and invariant_ok:
            return nonnan_any
        return floatdom.TOP
    it = floatdom.FloatInterp(f, init={2: floatdom.TOP}, field_env=field_env)
    env_in = it.run()
    # clamp preconditions
    n = 0
    for b, (c, args) in it.call_args.items():
        if c.rsplit("::", 1)[-1] != "clamp":
            continue
        n += 1
        lo, hi = args[1], args[2]
        t = f.blocks[b]["term"]
        R = Resolver(f)
        lo_t, hi_t = strip(R.operand(t["args"][1])), strip(R.operand(t["args"][2]))
        nonnan = "nan" not in lo[0] and "nan" not in hi[0]
        lo_c, hi_c = f64_of(lo_t), f64_of(hi_t)
        if lo_c is not None and hi_c is not None:
            ordered = lo_c <= hi_c
            why = "constants %s <= %s" % (lo_c, hi_c)
        else:
            ordered = invariant_ok and self_field(lo_t) == "min" and self_field(hi_t) == "max"
            why = "bounds are self.min / self.max of a Range, whose constructor guarantees min <= max and excludes NaN" if ordered else "bounds %s, %s have no established order" % (tree_str(lo_t), tree_str(hi_t))
        ctx.ob(rule, "clamp-precondition/%s/%s" % (short(f.path), tree_str(lo_t)), nonnan and ordered, "f64::clamp(x, %s, %s) cannot panic: bounds non-NaN=%s, ordered=%s (%s)" % (tree_str(lo_t), tree_str(hi_t), nonnan, ordered, why), where=f.file_line(b))
    ctx.floor(rule, "clamp calls in normalize", n, 1)
    if not result_class:
        return      # C08 only needs the clamp preconditions (a NaN result is wrong, but it is not a panic)
    # the stored value is clamped into [min, max] *before* it is scaled: with a degenerate range (inv_range = inf) only
    # (clamped - min) = 0 gives 0 * inf = NaN -> 0; an unclamped value above the limit would give inf -> 1
    R = Resolver(f)
    okc, desc = False, "no product with inv_range found"
    for bi in f.cfg():
        for st in f.blocks[bi]["stmts"]:
            rv = st["rv"]
            if rv["k"] != "binop" or rv["op"] not in ("Mul",):
                continue
            a, b = strip(R.operand(rv["a"])), strip(R.operand(rv["b"]))
            for x, y in ((a, b), (b, a)):
                if self_field(y) == "inv_range":
                    desc = tree_str(strip_deep(x))
                    if x[0] == "binop" and x[1] == "Sub" and self_field(strip(x[3])) == "min":
                        v = strip(x[2])
                        is_clamp = v[0] == "call" and v[1].endswith("::clamp") and strip(v[2][0]) == ("param", 2) and self_field(strip(v[2][1])) == "min" and self_field(strip(v[2][2])) == "max"
                        mm = False
                        if v[0] == "call" and v[1].rsplit("::", 1)[-1] in ("min", "max") and len(v[2]) == 2:
                            inner = [strip(z) for z in v[2]]
                            outer_fld = [self_field(z) for z in inner if self_field(z)]
                            nested = [z for z in inner if z[0] == "call" and z[1].rsplit("::", 1)[-1] in ("min", "max")]
                            if outer_fld and nested:
                                inner2 = [strip(z) for z in nested[0][2]]
                                mm = ("param", 2) in inner2 and {outer_fld[0]} | {self_field(z) for z in inner2 if self_field(z)} == {"min", "max"}
                        okc = is_clamp or mm
    ctx.ob(rule, "input-clamped/%s" % short(f.path), okc, "the value scaled by inv_range is %s (must be clamp(value, min, max) - min, so that a degenerate range yields 0 for every value)" % desc)
    # result classes
    res = None
    for bi, si, cls, payload in f.ret_assignments():
        env = dict(env_in.get(bi, {}))
        # re-evaluate statements of the block up to si
        for j, st in enumerate(f.blocks[bi]["stmts"][:si + 1]):
            pl = st["place"]
            if not pl["proj"] and f.local_ty(pl["local"]) in ("f32", "f64"):
                env[pl["local"]] = it.rvalue(env, st["rv"], pl["local"])
        res = floatdom.join(res, env.get(0, floatdom.TOP))
    ok = res is not None and res[0] <= {"zero", "pos"} and res[1]
    ctx.ob(rule, "result-class/%s" % short(f.path), ok,
           "abstract result of Range::normalize for every f64 input and every Range satisfying the constructor invariant: classes %s, bounded=%s (must be within {zero, pos}, bounded: never NaN, never infinite, never negative)" % (sorted(res[0]) if res else None, res[1] if res else None))


def normalize_value_table(ctx, prog, rule_disabled, rule_none):
    f = prog.fn(PRS + "normalize_value")
    ctx.fn_seen(f)
    R = Resolver(f)
    rets = []
    for n, ds in f.defs().items():
        pass
    outs = {}
    for kind, payload, bi, si, place in f.defs().get(0, []):
        if place["proj"] or bi not in f.cfg():
            continue
        t = strip(R.rvalue(payload)) if kind == "stmt" else strip(R._call(payload, bi, 0, frozenset()))
        outs[bi] = t
    # classify by the enabled switch and the Option discriminant
    table = {}
    for en in (0, 1):
        for some in (0, 1):
            removed = set()
            for b in f.cfg():
                tt = f.blocks[b]["term"]
                if tt["k"] != "switch":
                    continue
                dl = op_place(tt["discr"])
                d = strip(R.place(dl)) if dl else None
                e = switch_edges(f, b)
                if d == ("param", 2):
                    keep = e["otherwise"] if en else e.get("0")
                    removed |= {(b, s) for s in e.values() if s != keep}
                elif d and d[0] == "discr" and strip(d[1]) == ("param", 4):
                    keep = e.get(str(some), e["otherwise"])
                    removed |= {(b, s) for s in e.values() if s != keep}
            r = reach(cfg_without_edges(f, removed), [0])
            hit = [tree_str(strip_deep(t)) for b, t in outs.items() if b in r]
            table[(en, some)] = hit
    ok_dis = table[(0, 0)] == ["(arg3 as f32)"] and table[(0, 1)] == ["(arg3 as f32)"]
    ctx.ob(rule_disabled, "disabled-identity/normalize_value", ok_dis, "with normalisation disabled the result is %s / %s (must be the stored value cast to f32)" % (table[(0, 0)], table[(0, 1)]))
    ok_none = len(table[(1, 0)]) == 1 and table[(1, 0)][0].startswith("0_f32")
    ok_some = len(table[(1, 1)]) == 1 and table[(1, 1)][0].startswith("Range::normalize(") and "arg3" in table[(1, 1)][0]
    ctx.ob(rule_none, "enabled-table/normalize_value", ok_none and ok_some, "enabled & no range -> %s (must be 0.0); enabled & range -> %s (must be range.normalize(value))" % (table[(1, 0)], table[(1, 1)]))


# ----------------------------------------------------------------------------------------
# selection order / siblings

CHANNELS = {
    "intensity_range": ("intensity_limits", ("intensity_min", "intensity_max"), "Intensity"),
    "red_range": ("color_limits", ("red_min", "red_max"), "ColorRed"),
    "green_range": ("color_limits", ("green_min", "green_max"), "ColorGreen"),
    "blue_range": ("color_limits", ("blue_min", "blue_max"), "ColorBlue"),
}


def _summary(prog, f, depth=0):
    """what a *_from_pointcloud-like function consults: list of from_limits argument leaf names,
    record names compared in find-closures, with parameters kept symbolic ('argN')."""
    R = Resolver(f)
    out = {"limits": [], "records": [], "helpers": []}
    for bi, t in f.calls():
        c = callee_of(t)
        if c == P + "from_limits":
            out["limits"].append((bi, tuple(leaf_name(R.operand(a)) for a in t["args"][:2])))
        elif c == P + "from_record_data_type":
            out.setdefault("fallback", []).append(bi)
            import names as nm
            looked = nm.lookup_names(prog, f, R.operand(t["args"][0]))
            for x in looked or []:
                if isinstance(x, str) and x not in out["records"]:
                    out["records"].append(x)
        elif c.startswith(P) and c.endswith("_from_pointcloud") and c != f.path and depth < 2:
            out["helpers"].append((bi, c, [R.operand(a) for a in t["args"]]))
    for cl in (prog.closures_of(f) if not out["records"] else []):
        Rc = Resolver(cl)
        for bi, t in cl.calls(lambda c, t: c.rsplit("::", 1)[-1] in ("eq", "ne")):
            for a in t["args"][:2]:
                tr = strip(Rc.operand(a))
                if tr[0] == "agg" and tr[1][0] == "adt" and tr[1][1] == "record::RecordName":
                    out["records"].append(tr[1][2])
                elif tr[0] == "const" and isinstance(tr[2], tuple) and tr[2] and tr[2][0] == "enum" and "RecordName" in tr[1]:
                    out["records"].append(tr[2][1])
                elif tr[0] == "field" and strip(tr[1]) == ("param", 1) and not tr[2].startswith("name"):
                    # captured variable of the enclosing function
                    out["records"].append("captured:" + tr[2])
    return out


def selection_order(ctx, prog, rule):
    new = prog.fn(PRS + "new")
    ctx.fn_seen(new)
    R = Resolver(new)
    agg = None
    for bi in new.cfg():
        for st in new.blocks[bi]["stmts"]:
            if is_variant_agg(st["rv"], "pc_reader_simple::PointCloudReaderSimple", "PointCloudReaderSimple"):
                agg = dict(zip(st["rv"]["kind"]["fields"], st["rv"]["ops"]))
    ctx.ob(rule, "reader-built/PointCloudReaderSimple::new", agg is not None, "new() builds the iterator", nontrivial=False)
    if agg is None:
        return
    n = 0
    for fld, (limits_field, (lmin, lmax), rec) in CHANNELS.items():
        t = strip(R.operand(agg[fld]))
        if not (t[0] == "call" and t[1].startswith(P)):
            ctx.ob(rule, "channel/%s" % fld, False, "%s <- %s (expected a Range::*_from_pointcloud(pc) call)" % (fld, tree_str(t)))
            continue
        g = prog.fn(t[1])
        ctx.fn_seen(g)
        s = _summary(prog, g)
        limits, records = [l for _, l in s["limits"]], list(s["records"])
        # one level of helper substitution
        for hb, hc, hargs in s["helpers"]:
            h = prog.fn(hc)
            ctx.fn_seen(h)
            hs = _summary(prog, h, 1)
            subst = {"arg%d" % (i + 1): leaf_name(a) for i, a in enumerate(hargs)}
            for _, l in hs["limits"]:
                limits.append(tuple(_subst(x, subst) for x in l))
            for r in hs["records"]:
                if r.startswith("captured:"):
                    # captured parameter of the helper: find which argument it is by debug name
                    nm = r.split(":", 1)[1].lstrip("_ref__")
                    idx = [i for i in range(1, h.argc + 1) if h.local_name(i) == nm]
                    if idx:
                        a = strip(hargs[idx[0] - 1])
                        records.append(a[1][2] if a[0] == "agg" and a[1][0] == "adt" else tree_str(a))
                    else:
                        records.append(r)
                else:
                    records.append(r)
            g_for_order = h
        want_l = ("arg1.%s.%s" % (limits_field, lmin), "arg1.%s.%s" % (limits_field, lmax))
        lim_norm = [tuple(x.replace(".Some.0", "") for x in l) for l in limits]
        okl = lim_norm == [want_l]
        okr = records == [rec]
        n += 1
        ctx.ob(rule, "channel-sources/%s" % fld, okl and okr,
               "%s: limits consulted %s (must be %s), fallback record %s (must be %s)" % (fld, lim_norm, want_l, records, rec), where="%s:%d" % (g.span["file"], g.span["l0"]))
        # order: limits first, fallback only when they give no range
        body = prog.fn(s["helpers"][0][1]) if s["helpers"] and not s["limits"] else g
        sb = _summary(prog, body, 1)
        fl = [b for b, _ in sb["limits"]]
        fb = sb.get("fallback", [])
        oko = bool(fl) and bool(fb)
        if oko:
            back = any(find_path(body.cfg(), body.cfg().get(x, []), set(fl), set()) for x in fb)
            # is_some() true edge returns without reaching the fallback
            Rb = Resolver(body)
            early = False
            def _is_limits_result(a):
                # the Option that from_limits produced, possibly merged with literal None alternatives on the way
                alts = [strip(x) for x in (a[1] if a[0] == "phi" else (a,))]
                alts = [x for x in alts if not (x[0] == "agg" and x[1][0] == "adt" and x[1][2] == "None")]
                return bool(alts) and all(x[0] == "call" and x[1] == P + "from_limits" for x in alts)
            for sw, some_s, none_s in option_tests(body, Rb, _is_limits_result):
                early = not any(x in reach(body.cfg(), [some_s]) for x in fb)
            oko = not back and early
        ctx.ob(rule, "limits-before-type/%s" % fld, oko, "limits are consulted first and the data-type range is used only when they yield no range")
    ctx.floor(rule, "normalised channels", n, 4)


def _subst(name, subst):
    for k, v in subst.items():
        if name == k or name.startswith(k + "."):
            return v + name[len(k):]
    return name


def limit_parse_types(ctx, prog, rule):
    """the limits that feed normalisation are parsed with the type of their variant: a Double limit parsed as f32 (or
    an integer limit through a float) shifts the range"""
    f = prog.fn("limits::extract_limit")
    ctx.fn_seen(f)
    R = Resolver(f, max_depth=40)
    want = {"Integer": "i64", "ScaledInteger": "i64", "Single": "f32", "Double": "f64"}
    got = {}
    for g, tr in [(f, lambda t: t)]:
        for bi in g.cfg():
            for st in g.blocks[bi]["stmts"]:
                rv = st["rv"]
                if rv["k"] == "aggregate" and rv["kind"].get("adt") == "record::RecordValue" and rv["ops"]:
                    x = R.operand(rv["ops"][0])
                    casts = []
                    while True:
                        x = strip(x)
                        if x[0] == "cast":
                            casts.append(x[1])
                            x = x[2]
                            continue
                        break
                    ty = None
                    if x[0] == "call" and x[1].endswith("::parse") and len(x) > 4 and x[4]:
                        ty = x[4][-1]
                    elif x[0] == "call" and len(x) > 4 and x[4] and x[1] in prog.fns:
                        ty = x[4][0]            # a generic parse helper instantiated with the target type
                    got.setdefault(rv["kind"]["variant"], set()).add((ty, tuple(casts)))
    ok = all(got.get(v) == {(t, ())} for v, t in want.items())
    ctx.ob(rule, "limit-parse-types/extract_limit", ok, "limit values are parsed as %s (must be %s, without a cast in between)" % (
        {k: sorted(v, key=str) for k, v in got.items()}, want))


def type_ranges(ctx, prog, rule):
    f = prog.fn(P + "from_record_data_type")
    ctx.fn_seen(f)
    R = Resolver(f)
    got = {}
    for bi, t in f.calls(lambda c, t: c == P + "from_min_max"):
        a, b = strip(R.operand(t["args"][0])), strip(R.operand(t["args"][1]))
        # one call fed by a match over the data type: the arms pair up (both values are fields of one tuple per arm)
        alts = list(zip(a[1], b[1])) if a[0] == "phi" and b[0] == "phi" and len(a[1]) == len(b[1]) else [(a, b)]
        for xa, xb in alts:
            sa, sb = _descr(xa), _descr(xb)
            key = "Single" if "Single" in sa else "Double" if "Double" in sa else "ScaledInteger" if "ScaledInteger" in sa else "Integer"
            got[key] = (sa, sb)
    F32MIN, F32MAX = struct.unpack("<I", struct.pack("<f", -3.4028234663852886e38))[0], struct.unpack("<I", struct.pack("<f", 3.4028234663852886e38))[0]
    want = {
        "Single": ("unwrap_or(arg1.Single.min,f32::MIN)", "unwrap_or(arg1.Single.max,f32::MAX)"),
        "Double": ("unwrap_or(arg1.Double.min,f64::MIN)", "unwrap_or(arg1.Double.max,f64::MAX)"),
        "ScaledInteger": ("arg1.ScaledInteger.min*arg1.ScaledInteger.scale+arg1.ScaledInteger.offset", "arg1.ScaledInteger.max*arg1.ScaledInteger.scale+arg1.ScaledInteger.offset"),
        "Integer": ("arg1.Integer.min", "arg1.Integer.max"),
    }
    ctx.ob(rule, "type-range/from_record_data_type", got == want, "data-type ranges: %s" % got)
    # from_limits: same-typed pairs only
    g = prog.fn(P + "from_limits")
    ctx.fn_seen(g)
    Rg = Resolver(g)
    pairs = []
    for bi, t in g.calls(lambda c, t: c == P + "from_min_max"):
        ta, tb = strip(Rg.operand(t["args"][0])), strip(Rg.operand(t["args"][1]))
        if ta[0] == "phi" and tb[0] == "phi" and len(ta[1]) == len(tb[1]):
            # one call fed by a match: the arms pair up (both values are fields of the same tuple per arm)
            alts = list(zip(ta[1], tb[1]))
        else:
            alts = [(ta, tb)]
        for xa, xb in alts:
            a, b = leaf_name(xa), leaf_name(xb)
            pairs.append((a.replace(".Some.0", ""), b.replace(".Some.0", "")))
    wantp = sorted([("arg1.Double.0", "arg2.Double.0"), ("arg1.Single.0", "arg2.Single.0"), ("arg1.Integer.0", "arg2.Integer.0")])
    nones = [1 for bi, si, cls, p in g.ret_assignments() if cls == "ok" and strip(Rg.rvalue(p))[2] and strip(Rg.rvalue(p))[2][0][0] == "agg" and strip(Rg.rvalue(p))[2][0][1][2] == "None"]
    ctx.ob(rule, "type-range/from_limits", sorted(pairs) == wantp and len(nones) == 1, "limit pairs accepted: %s, otherwise Ok(None) (%d)" % (sorted(pairs), len(nones)))


def _descr(t):
    t = strip(t)
    while t[0] == "cast":
        t = strip(t[2])
    if t[0] == "call" and t[1].endswith("unwrap_or"):
        d = strip(t[2][1])
        name = "?"
        if d[0] == "const" and isinstance(d[2], int):
            if d[1] == "f32":
                x = struct.unpack("<f", struct.pack("<I", d[2]))[0]
                name = "f32::MIN" if x == -3.4028234663852886e38 else "f32::MAX" if x == 3.4028234663852886e38 else repr(x)
            else:
                x = struct.unpack("<d", struct.pack("<Q", d[2]))[0]
                name = "f64::MIN" if x == -1.7976931348623157e308 else "f64::MAX" if x == 1.7976931348623157e308 else repr(x)
        return "unwrap_or(%s,%s)" % (leaf_name(t[2][0]), name)
    if t[0] == "binop" or (t[0] == "call" and "std::ops::" in t[1]):
        p = poly(t)
        terms = sorted("*".join(m) for m in p)
        return "+".join(sorted(terms, key=lambda s: (s.count("*") == 0, s)))
    return leaf_name(t)
