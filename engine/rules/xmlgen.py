"""A8 — XML schema extraction from MIR.

Writer side: symbolic evaluation of the string building code of the serialisers into token
lists (literal text / value placeholders with their argument trees and format specs), expansion
of nested serialiser calls with parameter substitution, tokenisation of the resulting skeleton
into an element tree.  Reader side: lookups (helper, constant tag, expected type) per struct field.
"""
import re

from mirlib import *
from mirlib import _ref_target
from facts import Unusable
from simple_rules import leaf_name


class CannotInterpret(Unusable):
    pass


# ----------------------------------------------------------------------------------------
# format template decoding (library/core/src/fmt/mod.rs of this toolchain)

def decode_template(b):
    out = []
    i = 0
    b = list(b)
    nxt = 0
    while i < len(b):
        n = b[i]
        i += 1
        if n == 0:
            break
        if n < 0x80:
            out.append(("lit", bytes(b[i:i + n]).decode("utf8")))
            i += n
        elif n == 0x80:
            ln = b[i] | (b[i + 1] << 8)
            i += 2
            out.append(("lit", bytes(b[i:i + ln]).decode("utf8")))
            i += ln
        elif n >= 0xC0:
            ph = {"flags": None, "width": None, "prec": None, "arg": None, "width_arg": bool(n & 0x10), "prec_arg": bool(n & 0x20)}
            if n & 1:
                ph["flags"] = int.from_bytes(bytes(b[i:i + 4]), "little")
                i += 4
            if n & 2:
                ph["width"] = int.from_bytes(bytes(b[i:i + 2]), "little")
                i += 2
            if n & 4:
                ph["prec"] = int.from_bytes(bytes(b[i:i + 2]), "little")
                i += 2
            if n & 8:
                ph["arg"] = int.from_bytes(bytes(b[i:i + 2]), "little")
                i += 2
            if ph["arg"] is None:
                ph["arg"] = nxt
            nxt = ph["arg"] + 1
            out.append(("ph", ph))
        else:
            raise CannotInterpret("format template byte 0x%x is not understood (toolchain change?)" % n)
    return out


def plain_spec(ph):
    return ph["flags"] is None and ph["width"] is None and ph["prec"] is None and not ph["width_arg"] and not ph["prec_arg"]


# ----------------------------------------------------------------------------------------
# symbolic strings

class Sym:
    """token list: ('lit', text) | ('val', tree, trait, spec, fn_path) | ('call', callee, args trees, fn_path, block)
       | ('alt', [token lists])"""


def _format_tokens(fn_path, t):
    """t: stripped tree of a `format!` result: must_use(format(Arguments::new(template, args)))"""
    x = strip(t)
    if x[0] == "call" and x[1].endswith("hint::must_use"):
        x = strip(x[2][0])
    if not (x[0] == "call" and x[1].endswith("fmt::format")):
        return None
    a = strip(x[2][0])
    if a[0] != "call":
        return None
    if a[1].endswith("Arguments::<'a>::from_str") or a[1].endswith("Arguments::from_str"):
        s = strip(a[2][0])
        if s[0] == "const" and isinstance(s[2], str):
            return [("lit", s[2])]
        return None
    if not (a[1].endswith("Arguments::<'a>::new") or a[1].endswith("Arguments::new")):
        return None
    tpl = strip(a[2][0])
    if not (tpl[0] == "const" and isinstance(tpl[2], tuple)):
        return None
    args = strip(a[2][1])
    argv = []
    if args[0] == "agg" and args[1][0] == "array":
        for e in args[2]:
            e = strip(e)
            if e[0] == "call" and "Argument" in e[1]:
                trait = e[1].rsplit("::new_", 1)[-1]
                ty = e[4][-1] if len(e) > 4 and e[4] else "?"
                argv.append((trait + ":" + ty, strip(e[2][0])))
            else:
                argv.append(("?", e))
    def build(av):
        toks = []
        for kind, v in decode_template(tpl[2]):
            if kind == "lit":
                toks.append(("lit", v))
            else:
                if v["arg"] >= len(av):
                    raise CannotInterpret("format placeholder refers to argument %d of %d in %s" % (v["arg"], len(av), fn_path))
                trait, tree = av[v["arg"]]
                toks.append(("val", tree, trait, v, fn_path))
        return toks
    # `let (attrs, text) = match v { A => ("a", ..), B => ("b", ..) }; format!("<t {attrs}>{text}</t>")`: the template
    # is instantiated once per arm (the arguments that are choices between string literals select the arm; other
    # arguments with the same number of alternatives come from the same arms)
    def const_phi(tr):
        tr = strip(tr)
        return tr[0] == "phi" and all(strip(a)[0] == "const" and isinstance(strip(a)[2], str) for a in tr[1])
    ks = {len(strip(tr)[1]) for _, tr in argv if const_phi(tr)}
    if len(ks) == 1:
        k = ks.pop()
        alts = []
        for i in range(k):
            av = []
            for trait, tr in argv:
                st = strip(tr)
                av.append((trait, st[1][i]) if st[0] == "phi" and len(st[1]) == k else (trait, tr))
            alts.append(build(av))
        return [("alt", alts)]
    return build(argv)


def sval(prog, fn, t, depth=0):
    """symbolic value of a String/&str-typed tree inside fn."""
    t0 = t
    t = strip(t)
    if t[0] == "const" and isinstance(t[2], str):
        return [("lit", t[2])]
    ft = _format_tokens(fn.path, t0)
    if ft is not None:
        return ft
    if t[0] == "phi":
        return [("alt", [sval(prog, fn, a, depth + 1) for a in t[1]])]
    if t[0] == "call":
        c = t[1]
        last = c.rsplit("::", 1)[-1]
        if c in prog.fns and ("String" in prog.fns[c].ret_ty()):
            return [("call", c, t[2], fn.path, t[3], tuple(g for g in (t[4] if len(t) > 4 else ()) if not g.startswith("'")))]
        if last in ("unwrap_or",) and len(t[2]) == 2:
            return [("alt", [sval(prog, fn, t[2][0], depth + 1), sval(prog, fn, t[2][1], depth + 1)])]
        if c.endswith("String::new") and not t[2]:
            return [("lit", "")]
        if last in ("concat", "join") and t[2]:
            arr = strip(t[2][0])
            while arr[0] in ("cast", "ref"):
                arr = strip(arr[2] if arr[0] == "cast" else arr[1])
            sep_ok = last == "concat" or (len(t[2]) == 2 and strip(t[2][1])[0] == "const" and strip(t[2][1])[2] == "")
            if arr[0] == "agg" and arr[1][0] == "array" and sep_ok:
                out_ = []
                for e_ in arr[2]:
                    out_.extend(sval(prog, fn, e_, depth + 1))
                return out_
        if last in ("collect", "from_iter", "concat") and t[2]:
            it = strip(t[2][0])
            # strings.concat() where strings = iter.map(f).collect::<Result<Vec<String>>>()? : look through the collection
            for _ in range(6):
                if it[0] == "ok":
                    it = strip(it[1])
                elif it[0] == "call" and it[2] and it[1].rsplit("::", 1)[-1] in ("deref", "as_slice", "as_ref", "borrow", "collect", "from_iter", "into_iter", "iter"):
                    if it[1].rsplit("::", 1)[-1] in ("collect", "from_iter") and last == "concat":
                        it = strip(it[2][0])
                    elif it[1].rsplit("::", 1)[-1] in ("deref", "as_slice", "as_ref", "borrow"):
                        it = strip(it[2][0])
                    else:
                        break
                else:
                    break
            if it[0] == "call" and it[1].rsplit("::", 1)[-1] == "map" and len(it[2]) == 2:
                fi = strip(it[2][1])
                if fi[0] == "const" and isinstance(fi[2], tuple) and fi[2] and fi[2][0] == "fn" and fi[2][1] in prog.fns and "String" in prog.fns[fi[2][1]].ret_ty():
                    # map(Type::xml_string): the named serialiser once per element
                    elem = ("ok", ("call", "<I as std::iter::Iterator>::next", (it[2][0],), -1))
                    return [("call", fi[2][1], (elem,), fn.path, t[3], ())]
            if it[0] == "call" and it[1].rsplit("::", 1)[-1] == "map" and len(it[2]) == 2:
                cl = strip(it[2][1])
                if cl[0] == "agg" and cl[1][0] == "closure" and cl[1][1] in prog.fns:
                    # the concatenation of the closure's string for every element: one instance, like a loop body
                    elem = ("ok", ("call", "<I as std::iter::Iterator>::next", (it[2][0],), -1))
                    return [("call", cl[1][1], (cl, elem), fn.path, t[3], ())]
        if last == "replace" and "str" in c:
            # x.replace(a, b): keep as a value with the replace chain visible in its tree
            return [("val", t, "display", {"flags": None, "width": None, "prec": None, "arg": 0, "width_arg": False, "prec_arg": False}, fn.path)]
        if last == "add" and "String" in c:
            return sval(prog, fn, t[2][0], depth + 1) + sval(prog, fn, t[2][1], depth + 1)
    if t[0] in ("param", "field", "local", "ok", "index") or t[0] == "call":
        return [("val", t, "display", {"flags": None, "width": None, "prec": None, "arg": 0, "width_arg": False, "prec_arg": False}, fn.path)]
    raise CannotInterpret("cannot interpret string expression %s in %s" % (tree_str(t)[:120], fn.path))


_CLASS_CACHE = {}


def _move_classes(fn):
    """String values that are moved from local to local (an accumulator threaded through a fold closure: acc -> closure
    parameter -> `+=` -> return value -> acc) are one builder.  returns find(local) -> representative"""
    key = id(fn)
    if key in _CLASS_CACHE:
        return _CLASS_CACHE[key]
    parent = {}

    def find(x):
        while parent.get(x, x) != x:
            parent[x] = parent.get(parent[x], parent[x])
            x = parent[x]
        return x

    def union(a, b):
        ra, rb = find(a), find(b)
        if ra != rb:
            parent[max(ra, rb)] = min(ra, rb)

    def stringy(n):
        ty = fn.local_ty(n)
        return ty in ("std::string::String", "?", "") or ty.endswith("::String")
    for bi in fn.cfg():
        for st in fn.blocks[bi]["stmts"]:
            if st["place"]["proj"] or st["rv"]["k"] != "use":
                continue
            src = op_place(st["rv"]["op"])
            dst = st["place"]["local"]
            if src is None or not stringy(dst):
                continue
            if not src["proj"]:
                if stringy(src["local"]) and fn.local_ty(src["local"]) != "?" or fn.local_ty(dst) == "std::string::String":
                    if stringy(src["local"]):
                        union(dst, src["local"])
            elif len(src["proj"]) == 1 and src["proj"][0]["k"] == "field":
                # x = move t.K with t = (a, b, ..): the argument tuple of an inlined closure call
                ds = fn.whole_defs(src["local"])
                if len(ds) == 1 and ds[0][0] == "stmt" and ds[0][1]["k"] == "aggregate" and ds[0][1]["kind"].get("agg") == "tuple" and src["proj"][0]["idx"] < len(ds[0][1]["ops"]):
                    o = op_place(ds[0][1]["ops"][src["proj"][0]["idx"]])
                    if o is not None and not o["proj"] and stringy(o["local"]):
                        union(dst, o["local"])
    _CLASS_CACHE[key] = find
    return find


def _string_builder_local(fn):
    """local that is built by String::from / String::new and extended by add_assign / push_str"""
    find = _move_classes(fn)
    cands = collections.Counter()
    for bi, t in fn.calls(lambda c, t: c.endswith("AddAssign<&str>>::add_assign") or c.endswith("String::push_str")):
        p = op_place(t["args"][0])
        for _ in range(6):
            if p is None:
                break
            # &mut _x, possibly re-borrowed / passed to an inlined helper
            ds = fn.whole_defs(p["local"])
            if len(ds) == 1 and ds[0][0] == "stmt" and ds[0][1]["k"] == "ref" and not [e for e in ds[0][1]["place"]["proj"] if e["k"] != "deref"]:
                inner = ds[0][1]["place"]
                d2 = fn.whole_defs(inner["local"])
                if inner["proj"] and len(d2) == 1 and d2[0][0] == "stmt" and d2[0][1]["k"] in ("ref", "use"):
                    p = inner
                    continue
                cands[find(inner["local"])] += 1
                break
            if len(ds) == 1 and ds[0][0] == "stmt" and ds[0][1]["k"] == "use":
                p = op_place(ds[0][1]["op"])
                continue
            break
    return [l for l, _ in cands.most_common()]


def _builder_of(fn, op, builders, hops=0):
    """the string-builder local an operand is a view of (`&inner`, `&*inner`, `inner.as_str()`), else None"""
    pl = op_place(op)
    find = _move_classes(fn)
    for _ in range(10):
        if pl is None:
            return None
        n = pl["local"]
        if find(n) in builders and all(e["k"] == "deref" for e in pl["proj"]):
            return find(n)
        ds = fn.whole_defs(n)
        if len(ds) != 1 or len(fn.defs().get(n, [])) != 1:
            return None
        kind, payload = ds[0][0], ds[0][1]
        if kind == "stmt" and payload["k"] == "use" and op_place(payload["op"]) is not None and any(
                e["k"] == "field" and str(e.get("adt", "")).startswith("closure:") for e in op_place(payload["op"])["proj"]):
            # `&mut xml` captured by a closure that was inlined here
            tgt = _ref_target(fn, n)
            if tgt is not None and find(tgt["local"]) in builders and all(e["k"] == "deref" for e in tgt["proj"]):
                return find(tgt["local"])
            return None
        if kind == "stmt":
            if payload["k"] == "ref":
                pl = payload["place"]
            elif payload["k"] == "use":
                pl = op_place(payload["op"])
            elif payload["k"] == "cast":
                pl = op_place(payload["a"])
            else:
                return None
        else:
            c = callee_of(payload)
            if c.rsplit("::", 1)[-1] in ("deref", "as_str", "borrow", "as_ref", "deref_mut") and payload["args"]:
                pl = op_place(payload["args"][0])
            else:
                return None
    return None


def emissions(prog, fn):
    """ordered token list of a serialiser function (maximal: every conditional taken, loops once)."""
    R = Resolver(fn)
    builders = _string_builder_local(fn)
    order = {b: i for i, b in enumerate(rpo(fn.cfg(), 0))}
    if not builders:
        # the function returns a single string expression
        ret = R.local(0)
        r = strip(ret)
        if r[0] == "ok":
            r = strip(r[1])
        if r[0] == "agg" and r[1][0] == "adt" and r[1][2] == "Ok":
            r = r[2][0]
        return sval(prog, fn, r if r is not ret else ret)
    import bytesview
    bset = set(builders)
    pushes = {b: [] for b in builders}
    nested = set()
    for bi, t in fn.calls(lambda c, t: c.endswith("AddAssign<&str>>::add_assign") or c.endswith("String::push_str")):
        tgt = _builder_of(fn, t["args"][0], bset)
        if tgt is None:
            continue
        src = _builder_of(fn, t["args"][1], bset)
        if src is not None and src != tgt:
            nested.add(src)
        pushes[tgt].append((order.get(bi, 0), bi, t, src))

    foreach = {b: [] for b in builders}
    for bi, t in fn.calls(lambda c, t: c.rsplit("::", 1)[-1] == "for_each" and len(t["args"]) == 2):
        cl = strip(R.operand(t["args"][1]))
        if not (cl[0] == "agg" and cl[1][0] == "closure" and cl[1][1] in prog.fns):
            continue
        # which builder does the closure capture mutably?
        pcl = op_place(t["args"][1])
        dcl = fn.whole_defs(pcl["local"]) if pcl is not None and not pcl["proj"] else []
        tgt = None
        if len(dcl) == 1 and dcl[0][0] == "stmt" and dcl[0][1]["k"] == "aggregate":
            for o in dcl[0][1]["ops"]:
                b_ = _builder_of(fn, o, bset)
                if b_ is not None:
                    tgt = b_
        if tgt is None:
            continue
        elem = ("ok", ("call", "<I as std::iter::Iterator>::next", (R.operand(t["args"][0]),), -1))
        foreach[tgt].append((order.get(bi, 0), bi, [("call", "foreach:" + cl[1][1], (cl, elem), fn.path, bi, ())]))

    find = _move_classes(fn)
    members = {}
    for n_ in range(len(fn.locals)):
        members.setdefault(find(n_), []).append(n_)

    def class_defs(b):
        out = []
        for m in members.get(b, [b]):
            for d_ in fn.whole_defs(m):
                if d_[2] not in fn.cfg():
                    continue
                if d_[0] == "stmt" and d_[1]["k"] == "use":
                    sp = op_place(d_[1]["op"])
                    if sp is not None and (find(sp["local"]) == b or (sp["proj"] and len(members.get(b, [])) > 1)):
                        continue            # a move inside the class
                out.append(d_)
        return out

    def tokens_of(b, seen=()):
        toks = list(foreach.get(b, []))
        for kind, payload, bi, si, place in class_defs(b):
            t = R._call(payload, bi, 0, frozenset()) if kind == "call" else R.rvalue(payload)
            st = strip(t)
            if st[0] == "call" and st[1].endswith("String::new"):
                continue
            toks.append((order.get(bi, 0), -1, sval(prog, fn, t)))
        for o, bi, t, src in pushes[b]:
            if src is not None and src not in seen:
                toks.append((o, bi, tokens_of(src, seen + (b,))))
                continue
            # a push inside `for (tag, value) in [(..), (..)]` over a literal table stands for one push per element
            seq = []
            for (inst,) in bytesview.table_instances([R.operand(t["args"][1])]):
                seq.extend(sval(prog, fn, inst))
            toks.append((o, bi, seq))
        toks.sort(key=lambda x: (x[0], x[1]))
        out = []
        for _, _, tl in toks:
            out.extend(tl)
        return out
    roots = [b for b in builders if b not in nested]
    main = roots[0] if roots else builders[0]
    # the function returns an expression (`format!("<t>{body}</t>")`) that interpolates a builder instead of the
    # builder itself: the builder's tokens stand where it is interpolated
    ret_defs = fn.whole_defs(0)
    if find(0) not in bset and ret_defs and not any(find(m) in bset for m in members.get(find(0), [0])):
        alloc = {}
        alloc_lit = {}
        for b in builders:
            for kind, payload, bi, si, place in class_defs(b):
                if kind == "call" and callee_of(payload).rsplit("::", 1)[-1] in ("new", "with_capacity", "from", "default", "to_string", "to_owned"):
                    alloc[bi] = b
                    if payload["args"]:
                        # value trees look through String::from("lit") to the literal
                        cv = strip(R.operand(payload["args"][0]))
                        if cv[0] == "const" and isinstance(cv[2], str):
                            alloc_lit[cv[2]] = None if cv[2] in alloc_lit else b
                elif kind == "stmt" and payload["k"] == "use" and payload["op"].get("k") == "const":
                    # `String::from("<t>")` already folded to its literal (inline.expand_literal_converters)
                    cv = strip(R.operand(payload["op"]))
                    if cv[0] == "const" and isinstance(cv[2], str):
                        alloc_lit[cv[2]] = None if cv[2] in alloc_lit else b
        ret = R.local(0)
        r = strip(ret)
        if r[0] == "ok":
            r = strip(r[1])
        if r[0] == "agg" and r[1][0] == "adt" and r[1][2] == "Ok":
            r = r[2][0]
        try:
            rt = sval(prog, fn, r if r is not ret else ret)
        except CannotInterpret:
            rt = None
        used = []

        def subst_builders(toks):
            out = []
            for tk in toks:
                if tk[0] == "val":
                    x = strip(tk[1])
                    while x[0] in ("partial", "ref"):
                        x = strip(x[1])
                    if x[0] == "call" and len(x) > 3 and x[3] in alloc:
                        used.append(alloc[x[3]])
                        out.extend(tokens_of(alloc[x[3]]))
                        continue
                    if x[0] == "const" and isinstance(x[2], str) and alloc_lit.get(x[2]) is not None and "String" in str(tk[2]):
                        used.append(alloc_lit[x[2]])
                        out.extend(tokens_of(alloc_lit[x[2]]))
                        continue
                if tk[0] == "alt":
                    out.append(("alt", [subst_builders(a) for a in tk[1]]))
                    continue
                out.append(tk)
            return out
        if rt is not None:
            st = subst_builders(rt)
            if used:
                return st
    return tokens_of(main)


def _captured_builder_pushes(prog, g):
    """closure body that appends to a captured `&mut String`: the tokens it appends (None when it does not)"""
    R = Resolver(g)
    order = {b: i for i, b in enumerate(rpo(g.cfg(), 0))}
    toks = []
    for bi, t in g.calls(lambda c, t: c.endswith("AddAssign<&str>>::add_assign") or c.endswith("String::push_str")):
        tgt = strip(R.operand(t["args"][0]))
        if tgt[0] == "field" and strip(tgt[1]) == ("param", 1):
            toks.append((order.get(bi, 0), bi, sval(prog, g, R.operand(t["args"][1]))))
    if not toks:
        return None
    toks.sort(key=lambda x: (x[0], x[1]))
    out = []
    for _, _, tl in toks:
        out.extend(tl)
    return out


def expand(prog, fn, toks, subst=None, depth=0, stack=()):
    """inline local serialiser calls; returns a flat list of ('lit', s) / ('val', tree, trait, spec, fn_path, ctx)
    where tree is expressed in the *top-level* function's terms as far as parameters can be substituted."""
    out = []
    subst = subst or {}
    for tk in toks:
        if tk[0] == "lit":
            out.append(tk)
        elif tk[0] == "val":
            tree = substitute(tk[1], subst)
            s = strip(tree)
            if s[0] == "const" and isinstance(s[2], str):
                out.append(("lit", s[2]))
            elif _is_string_expr(prog, s) and depth < 8:
                # a placeholder whose argument is itself a built string (nested format! / serialiser call)
                inner = sval(prog, fn, tree)
                if len(inner) == 1 and inner[0][0] == "val" and strip(inner[0][1]) == s:
                    out.append(("val", tree, tk[2], tk[3], tk[4]))
                else:
                    out.extend(expand(prog, fn, inner, None, depth + 1, stack))
            else:
                out.append(("val", tree, tk[2], tk[3], tk[4]))
        elif tk[0] == "alt":
            for alt in tk[1]:
                out.extend(expand(prog, fn, alt, subst, depth, stack))
        elif tk[0] == "call":
            c, args = tk[1], [substitute(a, subst) for a in tk[2]]
            # `let tag = match kind { A => "a", B => "b" }; child.xml_string(tag)`: one instance of the call per literal
            ks = [i for i, a in enumerate(args) if strip(a)[0] == "phi" and len(strip(a)[1]) > 1 and all(strip(x)[0] == "const" and isinstance(strip(x)[2], str) for x in strip(a)[1])]
            if len(ks) == 1 and not tk[1].startswith("foreach:"):
                k = ks[0]
                for x in strip(args[k])[1]:
                    one = list(args)
                    one[k] = x
                    out.extend(expand(prog, fn, [(tk[0], tk[1], tuple(one)) + tuple(tk[3:])], None, depth, stack))
                continue
            is_foreach = c.startswith("foreach:")
            if is_foreach:
                c = c[len("foreach:"):]
            if depth > 6 or c in stack:
                out.append(("val", ("call", c, tuple(args), 0), "display", None, tk[3]))
                continue
            g = prog.fns[c]
            sub2 = {("param", i + 1): a for i, a in enumerate(args)}
            if g.kind == "Closure" and args and strip(args[0])[0] == "agg" and strip(args[0])[1][0] == "closure":
                import names as nm
                ops = strip(args[0])[2]
                for capname, idx in nm._capture_index(g).items():
                    if idx < len(ops):
                        sub2[("field", ("param", 1), capname)] = ops[idx]
            body = _captured_builder_pushes(prog, g) if is_foreach else emissions(prog, g)
            if body is None:
                raise CannotInterpret("for_each closure %s does not append to the captured string" % c)
            inner = expand(prog, g, body, sub2, depth + 1, stack + (c,))
            gen = tk[5] if len(tk) > 5 else ()
            if gen:
                fixed = []
                for it in inner:
                    if it[0] == "val" and ":" in it[2]:
                        tr, ty = it[2].split(":", 1)
                        if ty.lstrip("&").strip() in ("T", "U", "C"):
                            it = ("val", it[1], tr + ":" + ty.replace(ty.lstrip("&").strip(), gen[-1]), it[3], it[4])
                    fixed.append(it)
                inner = fixed
            out.extend(inner)
    return out


def _is_string_expr(prog, s):
    if s[0] == "phi":
        return all(_is_string_expr(prog, strip(a)) or (strip(a)[0] == "const" and isinstance(strip(a)[2], str)) for a in s[1])
    if s[0] != "call":
        return False
    c = s[1]
    if c.endswith("hint::must_use") or c.endswith("fmt::format"):
        return True
    return c in prog.fns and "String" in prog.fns[c].ret_ty() and not prog.fns[c].ret_ty().startswith("std::result")


def substitute(t, subst):
    if not subst:
        return t
    if t in subst:
        return subst[t]
    k = t[0]
    if k == "param":
        return subst.get(t, t)
    if k in ("field", "ok", "discr", "partial"):
        return (k, substitute(t[1], subst)) + tuple(t[2:])
    if k == "index":
        return ("index", substitute(t[1], subst), substitute(t[2], subst))
    if k == "binop":
        return ("binop", t[1], substitute(t[2], subst), substitute(t[3], subst))
    if k in ("unop", "cast"):
        return (k, t[1], substitute(t[2], subst))
    if k == "call":
        return ("call", t[1], tuple(substitute(a, subst) for a in t[2]), t[3]) + tuple(t[4:])
    if k == "agg":
        return ("agg", t[1], tuple(substitute(a, subst) for a in t[2]))
    if k == "phi":
        return ("phi", tuple(substitute(a, subst) for a in t[1]))
    return t


# ----------------------------------------------------------------------------------------
# skeleton tokenizer

MARK = "\x01%d\x02"
MARK_RE = re.compile("\x01(\\d+)\x02")


def render(tokens):
    """(text with value markers, list of value tokens)"""
    vals = []
    parts = []
    for tk in tokens:
        if tk[0] == "lit":
            parts.append(tk[1])
        else:
            idx = None
            for i, v in enumerate(vals):
                if v[1] == tk[1] and v[2] == tk[2] and v[3] == tk[3]:
                    idx = i
            if idx is None:
                idx = len(vals)
                vals.append(tk)
            parts.append(MARK % idx)
    return "".join(parts), vals


class Elem:
    def __init__(self, tag, attrs, parent):
        self.tag, self.attrs, self.parent = tag, attrs, parent
        self.children = []
        self.text = ""

    def path(self):
        p, n = [], self
        while n is not None and n.tag is not None:
            p.append(n.tag)
            n = n.parent
        return "/".join(reversed(p))


TOKEN = re.compile("<\\?.*?\\?>|<!\\[CDATA\\[(.*?)\\]\\]>|</\\s*([^\\s>]+)\\s*>|<([^\\s/>]+)((?:\\s+(?:[^\\s=>/]+\\s*=\\s*\"[^\"]*\"|\x01\\d+\x02))*)\\s*(/?)>|([^<]+)", re.S)
ATTR = re.compile(r"([^\s=]+)\s*=\s*\"([^\"]*)\"")


def parse_skeleton(text):
    """small XML tokenizer for writer skeletons (markers may stand for names, attribute values or text).
    returns (root Elem, problems list)"""
    root = Elem(None, {}, None)
    cur = root
    problems = []
    pos = 0
    for m in TOKEN.finditer(text):
        if m.start() != pos:
            problems.append("unparsable text at %d: %r" % (pos, text[pos:m.start()][:40]))
        pos = m.end()
        if m.group(0).startswith("<?"):
            continue
        if m.group(1) is not None:
            cur.text += "\x03" + m.group(1) + "\x04"      # CDATA content
        elif m.group(2) is not None:
            if cur.tag != m.group(2):
                problems.append("closing tag </%s> does not match <%s> (path %s)" % (m.group(2), cur.tag, cur.path()))
                # try to recover
                n = cur
                while n is not None and n.tag != m.group(2):
                    n = n.parent
                if n is not None and n.parent is not None:
                    cur = n.parent
            else:
                cur = cur.parent
        elif m.group(3) is not None:
            attrs = dict(ATTR.findall(m.group(4) or ""))
            for bm in MARK_RE.finditer(ATTR.sub("", m.group(4) or "")):
                attrs["\x01%s\x02" % bm.group(1)] = ""      # a whole attribute list given by one value
            e = Elem(m.group(3), attrs, cur)
            cur.children.append(e)
            if not m.group(5):
                cur = e
        elif m.group(6) is not None:
            if m.group(6).strip():
                cur.text += m.group(6)
    if pos != len(text):
        problems.append("unparsable tail: %r" % text[pos:pos + 40])
    if cur is not root:
        problems.append("unclosed element <%s>" % cur.tag)
    return root, problems


def walk(e):
    for c in e.children:
        yield c
        yield from walk(c)


def value_sites(root, vals):
    """for each value marker: dict(path, where: 'text'|'cdata'|'attr:<name>'|'name', type attribute of the element)."""
    sites = {}
    for e in walk(root):
        for m in MARK_RE.finditer(e.tag):
            sites.setdefault(int(m.group(1)), []).append(dict(path=e.path(), where="name", etype=e.attrs.get("type"), elem=e))
        for an, av in e.attrs.items():
            for m in MARK_RE.finditer(av):
                sites.setdefault(int(m.group(1)), []).append(dict(path=e.path(), where="attr:" + an, etype=e.attrs.get("type"), elem=e))
            for m in MARK_RE.finditer(an):
                sites.setdefault(int(m.group(1)), []).append(dict(path=e.path(), where="attrname", etype=e.attrs.get("type"), elem=e))
        incdata = False
        for part in re.split("(\x03|\x04)", e.text):
            if part == "\x03":
                incdata = True
            elif part == "\x04":
                incdata = False
            else:
                for m in MARK_RE.finditer(part):
                    sites.setdefault(int(m.group(1)), []).append(dict(path=e.path(), where="cdata" if incdata else "text", etype=e.attrs.get("type"), elem=e))
    return sites


# ----------------------------------------------------------------------------------------
# writer maps

def writer_map(prog, fn_path):
    """returns (map leaf-name-of-value -> (tag path, where, element type, spec, trait), skeleton text, problems)"""
    fn = prog.fn(fn_path)
    toks = expand(prog, fn, emissions(prog, fn))
    text, vals = render(toks)
    root, problems = parse_skeleton(text)
    sites = value_sites(root, vals)
    out = {}
    for i, v in enumerate(vals):
        name = leaf_name(v[1])
        if not sites.get(i):
            problems.append("value %s is emitted outside any element/attribute" % name)
            continue
        for s in sites[i]:
            out.setdefault(name, []).append(dict(path=s["path"], where=s["where"], etype=s["etype"], spec=v[3], trait=v[2], tree=v[1], fn=v[4], elem=s.get("elem")))
    return out, text, problems, root


# ----------------------------------------------------------------------------------------
# reader maps

HELPER_TYPES = {
    "xml::opt_string": "String", "xml::req_string": "String", "xml::opt_f64": "Float", "xml::req_f64": "Float",
    "xml::opt_int": "Integer", "xml::req_int": "Integer", "xml::opt_date_time": "Structure", "xml::opt_transform": "Structure",
    "blob::Blob::from_parent_node": "Blob", "limits::extract_limit": "Limit",
}


def reader_map(prog, fn_path):
    """struct literal(s) built in a from_node function: field -> list of (tag, type, helper)"""
    fn = prog.fn(fn_path)
    R = Resolver(fn)
    out = {}
    closure_tags = {}
    for cl in prog.closures_of(fn):
        Rc = Resolver(cl)
        tags = []
        for bi, t in cl.calls(lambda c, t: c.endswith("has_tag_name")):
            a = strip(Rc.operand(t["args"][1]))
            tags.append(a[2] if a[0] == "const" else tree_str(a))
        closure_tags[cl.path] = tags
    for bi in fn.cfg():
        for st in fn.blocks[bi]["stmts"]:
            rv = st["rv"]
            if rv["k"] != "aggregate" or rv["kind"].get("agg") != "adt" or rv["kind"]["adt"].startswith("std::") or rv["kind"]["adt"].startswith("core::"):
                continue
            adt = rv["kind"]["adt"]
            for name, op in zip(rv["kind"]["fields"], rv["ops"]):
                t = R.operand(op)
                found = lookups_in(t, closure_tags)
                if not found:
                    # `let [a, b, ..] = arr;` with arr filled by `for (slot, tag) in arr.iter_mut().zip(TAGS) { *slot = f(tag) }`
                    ev = _array_slot_value(fn, R, t)
                    if ev is not None:
                        found = lookups_in(ev, closure_tags)
                if found:
                    out.setdefault(adt, {}).setdefault(name, [])
                    for x in found:
                        if x not in out[adt][name]:
                            out[adt][name].append(x)
    return out


def _array_slot_value(fn, R, t):
    """t = arr[k] of a local array whose slots are assigned in a loop over a literal table: the value stored in slot k"""
    import bytesview
    s = strip(t)
    if s[0] != "index" or bytesview.const_eval(s[2]) is None:
        return None
    k = bytesview.const_eval(s[2])
    want = tree_str(strip_deep(s[1]))
    for n, ds in fn.defs().items():
        for kind, payload, bi, si, place in ds:
            if kind not in ("stmt", "call") or len(place["proj"]) != 1 or place["proj"][0]["k"] != "deref" or bi not in fn.cfg():
                continue
            tr = R.local(place["local"])
            tr = tr[1] if tr[0] == "partial" else tr
            val = R.rvalue(payload) if kind == "stmt" else R._call(payload, bi, 0, frozenset())
            for slot, v in bytesview.table_instances([tr, val]):
                sl = strip(slot)
                if sl[0] == "index" and bytesview.const_eval(sl[2]) == k and tree_str(strip_deep(sl[1])) == want:
                    return v
    return None


def lookups_in(t, closure_tags):
    res = []
    for x in leaves(t):
        if x[0] == "call":
            c = x[1]
            for h, ty in HELPER_TYPES.items():
                if c == h or c.startswith(h + "::<"):
                    # tag is the constant &str argument
                    tag = None
                    for a in x[2]:
                        a = strip(a)
                        if a[0] == "const" and isinstance(a[2], str):
                            tag = a[2]
                    res.append((tag, ty, h))
            if c.endswith("::from_node") or c.endswith("::from_rep_node") or c.endswith("::from_image_node"):
                # nested structure found through a closure
                cls = [y for y in leaves(x) if y[0] == "agg" and y[1][0] == "closure"]
                for y in cls:
                    for tag in closure_tags.get(y[1][1], []):
                        res.append((tag, "Structure", short(c)))
    return res
