"""A5 — integer intervals over MIR operands with guard refinement and inferred field invariants.

Values are closed intervals (lo, hi) of mathematical integers.  Evaluation is demand driven from
an operand at a program position: single-assignment temporaries are expanded, multiply assigned
locals are joined over their definitions (cycles / depth bound -> type range), and the result is
intersected with the facts established by the switch edges that dominate the position.
Invariants of *private* struct fields are the join over every store to the field anywhere in
the crate (constructor aggregates and assignments), each evaluated at its own position; fields
that are `pub` (settable from outside the crate) get their type range.
"""
import re

from mirlib import *
from mirlib import _ref_target

INT_RANGES = {
    "u8": (0, 2**8 - 1), "u16": (0, 2**16 - 1), "u32": (0, 2**32 - 1), "u64": (0, 2**64 - 1), "u128": (0, 2**128 - 1), "usize": (0, 2**64 - 1),
    "i8": (-2**7, 2**7 - 1), "i16": (-2**15, 2**15 - 1), "i32": (-2**31, 2**31 - 1), "i64": (-2**63, 2**63 - 1), "i128": (-2**127, 2**127 - 1), "isize": (-2**63, 2**63 - 1),
    "bool": (0, 1), "char": (0, 0x10FFFF),
}
ISIZE_MAX = 2**63 - 1
TOP = None


DEVICE_POSITION_CALLS = ("seek", "stream_position", "stream_len")


def ty_range(ty):
    return INT_RANGES.get(ty.strip())


def join(a, b):
    if a is None or b is None:
        return None
    return (min(a[0], b[0]), max(a[1], b[1]))


def meet(a, b):
    if a is None:
        return b
    if b is None:
        return a
    lo, hi = max(a[0], b[0]), min(a[1], b[1])
    if lo > hi:
        return (lo, lo)     # contradictory facts: unreachable position, any answer is sound
    return (lo, hi)


def clip(v, ty):
    r = ty_range(ty)
    if r is None:
        return v
    if v is None:
        return r
    if v[0] < r[0] or v[1] > r[1]:
        return r            # wrapped / truncated: only the type range is known
    return v


class Intervals:
    def __init__(self, prog):
        self.prog = prog
        self._dom_edges = {}
        self._field_cache = {}
        self._field_busy = set()
        self._alias = {}
        self._immut = {}
        self._between = {}
        self._sanit = {}

    # -- aliases -----------------------------------------------------------------------
    def root(self, fn, n):
        key = fn.path
        if key not in self._alias:
            rep = {}
            for ln, ds in fn.defs().items():
                if len(ds) == 1 and ds[0][0] == "stmt" and not ds[0][4]["proj"] and ds[0][1]["k"] == "use":
                    p = op_place(ds[0][1]["op"])
                    if p is not None and not p["proj"]:
                        rep[ln] = p["local"]
            self._alias[key] = rep
        rep = self._alias[key]
        seen = set()
        while n in rep and n not in seen:
            seen.add(n)
            n = rep[n]
        return n

    def place_key(self, fn, pl):
        """canonical key of a place for guard matching: root local + projection description"""
        if pl is None:
            return None
        # a temporary that is a copy of / reference to a field of a value assigned once stands for that field
        for _ in range(6):
            n = pl["local"]
            ds = fn.defs().get(n, [])
            if len(ds) != 1 or ds[0][0] != "stmt" or ds[0][4]["proj"]:
                break
            rv = ds[0][1]
            src = op_place(rv["op"]) if rv["k"] == "use" else (rv["place"] if rv["k"] == "ref" else None)
            if src is not None and not src["proj"] and rv["k"] == "ref" and pl["proj"] and pl["proj"][0]["k"] == "deref":
                # (*r) with r = &x, x assigned once: stands for x (match guards bind `size if *size > K` this way)
                x = self.root(fn, src["local"])
                xd = fn.defs().get(src["local"], [])
                if len(xd) <= 1 and not any(d[4]["proj"] for d in fn.defs().get(x, [])):
                    pl = {"local": src["local"], "proj": list(pl["proj"][1:])}
                    continue
                break
            if src is None or not src["proj"]:
                break
            if any(e["k"] not in ("deref", "field", "downcast") for e in src["proj"]):
                break
            if len(fn.defs().get(src["local"], [])) != 1:
                break           # the source may change between the copy and the guard
            pl = {"local": src["local"], "proj": list(src["proj"]) + list(pl["proj"])}
        desc = []
        for e in pl["proj"]:
            if e["k"] == "deref":
                continue
            if e["k"] == "field":
                desc.append(e["name"] or str(e["idx"]))
            elif e["k"] == "downcast":
                desc.append("as " + e["variant"])
            else:
                return None
        return (self.root(fn, pl["local"]), tuple(desc))

    # -- dominating edges -----------------------------------------------------------------
    def dominating_edges(self, fn, block):
        key = (fn.path, block)
        if key in self._dom_edges:
            return self._dom_edges[key]
        out = []
        doms = fn.dom().get(block, set())
        for b in doms:
            t = fn.blocks[b]["term"]
            if t["k"] != "switch":
                continue
            ss = set(fn.cfg().get(b, []))
            for s in ss:
                if s == block or fn.dominates(s, block):
                    # the edge (b, s) is the only way from b to block iff no other successor reaches block without s
                    others = [o for o in ss if o != s]
                    if not any(find_path(fn.cfg(), [o], {block}, {s}) for o in others):
                        out.append((b, s))
        self._dom_edges[key] = out
        return out

    def guards(self, fn, block):
        """list of (op, place-key or None, operand a, operand b, truth) for comparisons that hold at `block`"""
        res = []
        for b, s in self.dominating_edges(fn, block):
            t = fn.blocks[b]["term"]
            dl = op_place(t["discr"])
            if dl is None:
                continue
            lty = self._place_ty(fn, dl)
            ds0 = fn.whole_defs(dl["local"]) if not dl["proj"] else []
            is_discr = len(ds0) == 1 and ds0[0][0] == "stmt" and ds0[0][1]["k"] == "discr"
            if lty in INT_RANGES and lty != "bool" and not is_discr:
                # `match n { 0 => .., k => .. }`: a switch on the integer itself
                e0 = switch_edges(fn, b)
                vals = [v for v in e0 if v != "otherwise"]
                here = [v for v in vals if e0[v] == s]
                op_l = {"k": "copy", "place": dl}

                def kconst(v):
                    return {"k": "const", "ty": lty, "bits": str(int(v) % (1 << 128)), "size": max(1, (INT_RANGES[lty][1].bit_length() + 7) // 8)}
                try:
                    if len(here) == 1 and e0["otherwise"] != s:
                        res.append(("Eq", op_l, kconst(here[0]), True, b))
                    elif not here and e0["otherwise"] == s:
                        for v in vals:
                            res.append(("Ne", op_l, kconst(v), True, b))
                except ValueError:
                    pass
                continue
            if dl["proj"]:
                continue
            ds = fn.whole_defs(dl["local"])
            if len(ds) != 1:
                continue
            kind, payload = ds[0][0], ds[0][1]
            truth = None
            e = switch_edges(fn, b)
            if e.get("0") == s and e["otherwise"] != s:
                truth = False
            elif e["otherwise"] == s and e.get("0") != s:
                truth = True
            if truth is None:
                continue
            for _ in range(4):
                # the tested bool may be a copy of the comparison result
                if kind == "stmt" and payload["k"] == "use" and op_place(payload["op"]) is not None and not op_place(payload["op"])["proj"]:
                    dd = fn.whole_defs(op_place(payload["op"])["local"])
                    if len(dd) == 1:
                        kind, payload = dd[0][0], dd[0][1]
                        continue
                break
            neg = False
            while kind == "stmt" and payload["k"] == "unop" and payload["op"] == "Not":
                p = op_place(payload["a"])
                dd = fn.whole_defs(p["local"]) if p and not p["proj"] else []
                if len(dd) != 1:
                    break
                kind, payload = dd[0][0], dd[0][1]
                neg = not neg
            if neg:
                truth = not truth
            if kind == "stmt" and payload["k"] == "discr" and not truth:
                # Continue edge of `callee(args..)?`: facts the callee establishes about its arguments on every Ok path
                src = payload["place"]
                d2 = fn.whole_defs(src["local"]) if not src["proj"] else []
                if len(d2) == 1 and d2[0][0] == "call" and callee_of(d2[0][1]).endswith("::branch"):
                    res.extend(self._sanitiser_facts(fn, d2[0][1]["args"][0], b))
            if kind == "stmt" and payload["k"] == "binop" and payload["op"] in ("Lt", "Le", "Gt", "Ge", "Eq", "Ne"):
                res.append((payload["op"], payload["a"], payload["b"], truth, b))
            elif kind == "call":
                c = callee_of(payload)
                last = c.rsplit("::", 1)[-1]
                if last in ("lt", "le", "gt", "ge", "eq", "ne") and len(payload["args"]) == 2:
                    res.append(({"lt": "Lt", "le": "Le", "gt": "Gt", "ge": "Ge", "eq": "Eq", "ne": "Ne"}[last], payload["args"][0], payload["args"][1], truth, b))
                elif last == "is_empty" and len(payload["args"]) == 1:
                    res.append(("is_empty", payload["args"][0], None, truth, b))
        return res

    def _sanitiser_facts(self, fn, res_op, gb):
        """res_op: the Result fed to `?`. follow converters back to a call of a local function g and turn
        the intervals g guarantees for its integer parameters at its Ok exits into guard facts."""
        out = []
        p = op_place(res_op)
        for _ in range(4):
            if p is None or p["proj"]:
                return out
            ds = fn.whole_defs(p["local"])
            if len(ds) != 1:
                return out
            kind, payload = ds[0][0], ds[0][1]
            if kind == "stmt" and payload["k"] == "use":
                p = op_place(payload["op"])
                continue
            if kind != "call":
                return out
            c = callee_of(payload)
            if c.rsplit("::", 1)[-1] in CONVERTERS:
                p = op_place(payload["args"][0])
                continue
            g = self.prog.fns.get(c)
            if g is None:
                return out
            for k, arg in enumerate(payload["args"]):
                n = k + 1
                if n > g.argc or ty_range(g.local_ty(n)) is None:
                    continue
                iv = self.ok_exit_interval(g, n)
                tr = ty_range(g.local_ty(n))
                if iv is not None and tr is not None and iv != tr:
                    lo_c = {"k": "const", "ty": "i128", "bits": str(iv[0] % (1 << 128)), "size": 16}
                    hi_c = {"k": "const", "ty": "i128", "bits": str(iv[1] % (1 << 128)), "size": 16}
                    out.append(("Ge", arg, lo_c, True, gb))
                    out.append(("Le", arg, hi_c, True, gb))
            return out
        return out

    def ok_payload_interval(self, g, depth=0):
        """interval of v over all `_0 = Ok(v)` of g (None when some success value is forwarded from elsewhere)"""
        key = (g.path, "okpayload")
        if key in self._sanit:
            return self._sanit[key]
        self._sanit[key] = None
        res, first = None, True
        for bi, si, cls, payload in g.ret_assignments():
            if cls == "err":
                continue
            if cls != "ok":
                self._sanit[key] = None
                return None
            v = self.operand(g, payload["ops"][0], bi, depth)
            if v is None:
                return None
            res = v if first else join(res, v)
            first = False
        self._sanit[key] = res
        return res

    def ok_exit_interval(self, g, n):
        key = (g.path, n)
        if key in self._sanit:
            return self._sanit[key]
        self._sanit[key] = None
        res = None
        first = True
        if g.defs().get(n):
            return None     # parameter re-assigned: give up
        for bi, si, cls, payload in g.ret_assignments():
            if cls != "ok":
                if cls in ("fwd", "use", "value", "other"):
                    first = True
                    res = None
                    break
                continue
            v = self.place(g, {"local": n, "proj": []}, bi)
            res = v if first else join(res, v)
            first = False
        self._sanit[key] = res
        return res

    # -- evaluation ------------------------------------------------------------------------
    def operand(self, fn, op, block, depth=0, seen=frozenset(), refine=True):
        if op["k"] == "const":
            v = const_signed(op)
            if v is not None:
                return (v, v)
            return ty_range(op.get("ty", ""))
        pl = op_place(op)
        if pl is None:
            return None
        return self.place(fn, pl, block, depth, seen, refine)

    def place(self, fn, pl, block, depth=0, seen=frozenset(), refine=True):
        if not pl["proj"]:
            v = self.local(fn, pl["local"], block, depth, seen)
        else:
            v = self._projected(fn, pl, block, depth, seen)
        if depth < 3 and (v is None or v == ty_range(self._place_ty(fn, pl))):
            tv = self._table_interval(fn, pl)
            if tv is not None:
                v = tv if v is None else meet(v, tv)
        if refine:
            v = self.refine(fn, pl, v, block, depth)
        return v

    def _projected(self, fn, pl, block, depth, seen):
        last = pl["proj"][-1]
        # (*r) with r a reference to a local that was captured by an inlined closure / re-borrowed: the local itself
        if len(pl["proj"]) == 1 and last["k"] == "deref" and depth < 12:
            tgt = _ref_target(fn, pl["local"])
            if tgt is not None and tgt["local"] != pl["local"] and all(e["k"] in ("deref", "field") for e in tgt["proj"]):
                ds_t = fn.defs().get(tgt["local"], [])
                if not tgt["proj"] and len(ds_t) <= 1:
                    return self.place(fn, tgt, block, depth + 1, seen)
        # checked arithmetic result tuple: (_t.0)
        if last["k"] == "field" and len([e for e in pl["proj"] if e["k"] != "deref"]) == 1 and last.get("adt") in ("tuple", ""):
            ds = fn.whole_defs(pl["local"])
            if len(ds) == 1 and ds[0][0] == "stmt" and ds[0][1]["k"] == "binop" and ds[0][1]["op"].endswith("WithOverflow"):
                if last["idx"] == 0:
                    rv = dict(ds[0][1])
                    rv["op"] = rv["op"][:-len("WithOverflow")]
                    v = self.binop(fn, rv, ds[0][2], depth + 1, seen)
                    if rv["op"] == "Add":
                        cap = self._add_min_cap(fn, ds[0][1])
                        if cap is not None and v is not None:
                            v = (v[0], min(v[1], cap))
                        elif cap is not None:
                            v = (0, cap)
                    # the result is only read after `assert(!overflow)`: no wrap-around happened
                    return meet(ty_range(last["ty"]), v) if v is not None else ty_range(last["ty"])
                return (0, 1)
        nd = [e for e in pl["proj"] if e["k"] != "deref"]
        if len(nd) >= 2 and nd[0]["k"] == "downcast" and nd[0]["variant"] in ("Some", "Ok") and nd[1]["k"] == "field" and nd[1]["idx"] == 0 \
                and all(e["k"] == "field" for e in nd[2:]):
            # `((x as Some).0).k`: x is only ever assigned Some(..) / None literals: join over the payloads of the Some sites
            ds = fn.whole_defs(pl["local"])
            if ds and len(fn.defs().get(pl["local"], [])) == len(ds):
                out, first, good = None, True, True
                for kind, payload, bi, si, place in ds:
                    if bi not in fn.cfg():
                        continue
                    rv = payload
                    if kind != "stmt" or rv["k"] != "aggregate" or rv["kind"].get("agg") != "adt" or not (
                            rv["kind"]["adt"].endswith("option::Option") or rv["kind"]["adt"].endswith("result::Result")):
                        good = False
                        break
                    if rv["kind"]["variant"] != nd[0]["variant"]:
                        continue
                    cpl = op_place(rv["ops"][0]) if rv["ops"] else None
                    if cpl is None:
                        good = False
                        break
                    v = self.place(fn, {"local": cpl["local"], "proj": list(cpl["proj"]) + nd[2:]}, bi, depth + 1, seen)
                    if v is None:
                        good = False
                        break
                    out = v if first else join(out, v)
                    first = False
                if good and not first:
                    return meet(ty_range(last["ty"]), out) if ty_range(last["ty"]) else out
        if last["k"] == "field" and len(pl["proj"]) == 2 and pl["proj"][0]["k"] == "downcast" and pl["proj"][0]["variant"] == "Some":
            # `match a.checked_sub(b) { Some(d) => .. }`: d = a - b without underflow
            ds = fn.whole_defs(pl["local"])
            if len(ds) == 1 and ds[0][0] == "call" and callee_of(ds[0][1]).rsplit("::", 1)[-1] == "checked_sub" and len(ds[0][1]["args"]) == 2:
                a = self.operand(fn, ds[0][1]["args"][0], ds[0][2], depth + 1, seen)
                b = self.operand(fn, ds[0][1]["args"][1], ds[0][2], depth + 1, seen)
                tr = ty_range(last["ty"])
                if a is not None and b is not None and tr is not None and tr[0] == 0:
                    return (max(0, a[0] - b[1]), max(0, a[1] - b[0]))
        if last["k"] == "field" and len(pl["proj"]) >= 2 and pl["proj"][-2]["k"] == "downcast" and pl["proj"][-2]["variant"] == "Some" and len(pl["proj"]) == 2:
            ds = fn.whole_defs(pl["local"])
            if len(ds) == 1 and ds[0][0] == "call" and "iter::range::<impl" in callee_of(ds[0][1]) and callee_of(ds[0][1]).endswith("::next"):
                # `for i in a..b`: the iterator local is initialised from a Range{a, b} aggregate and only advanced by next()
                r = Resolver(fn).operand(ds[0][1]["args"][0])
                for x in leaves(r):
                    if x[0] == "agg" and x[1][0] == "adt" and x[1][2] == "Range" and len(x[2]) == 2:
                        lo = self._tree_iv(fn, x[2][0], block)
                        hi = self._tree_iv(fn, x[2][1], block)
                        if lo is not None and hi is not None:
                            return meet(ty_range(last["ty"]), (lo[0], hi[1] - 1))
        if last["k"] == "field" and len([e for e in pl["proj"] if e["k"] != "deref"]) == 1:
            # field of a tuple / closure environment / struct literal that is built in this function
            n = pl["local"]
            for _ in range(5):
                d2 = fn.whole_defs(n)
                if len(d2) != 1 or len(fn.defs().get(n, [])) != 1 or d2[0][0] != "stmt":
                    break
                rv2 = d2[0][1]
                if rv2["k"] == "use" and op_place(rv2["op"]) is not None and not op_place(rv2["op"])["proj"]:
                    n = op_place(rv2["op"])["local"]
                    continue
                if rv2["k"] == "aggregate" and rv2["kind"].get("agg") in ("tuple", "closure") and last["idx"] < len(rv2["ops"]):
                    cop = rv2["ops"][last["idx"]]
                    cpl = op_place(cop)
                    if cpl is not None and not cpl["proj"]:
                        # a captured reference `&x` to a variable that is assigned once: reading through it later gives
                        # the value of x there, so guards that dominate the *use* apply
                        dr = fn.whole_defs(cpl["local"])
                        if len(dr) == 1 and dr[0][0] == "stmt" and dr[0][1]["k"] == "ref" and not dr[0][1]["place"]["proj"] \
                                and len(fn.defs().get(dr[0][1]["place"]["local"], [])) == 1:
                            return self.place(fn, dr[0][1]["place"], block, depth + 1, seen)
                    v = self.operand(fn, cop, d2[0][2], depth + 1, seen)
                    if v is not None:
                        return v
                break
        if last["k"] == "field" and len(pl["proj"]) == 2 and pl["proj"][0]["k"] == "downcast" and pl["proj"][0]["variant"] in ("Ok", "Some"):
            # `(r as Ok).0` of a Result that is (a converted copy of) a device position / a local callee's result
            p = {"local": pl["local"], "proj": []}
            for _ in range(6):
                if p is None or p["proj"]:
                    break
                d2 = fn.whole_defs(p["local"])
                if len(d2) != 1:
                    break
                k2, pay2 = d2[0][0], d2[0][1]
                if k2 == "stmt" and pay2["k"] == "use":
                    p = op_place(pay2["op"])
                    continue
                if k2 == "call":
                    c = callee_of(pay2)
                    if c.rsplit("::", 1)[-1] in CONVERTERS:
                        p = op_place(pay2["args"][0])
                        continue
                    g = self.prog.fns.get(c)
                    if g is not None and depth < 8:
                        v = self.ok_payload_interval(g, depth + 1)
                        if v is not None:
                            return meet(ty_range(last["ty"]), v) if ty_range(last["ty"]) else v
                    if g is None and c.rsplit("::", 1)[-1] in DEVICE_POSITION_CALLS and "Seek" in c:
                        return (0, (1 << 63) - 1)
                break
        if last["k"] == "field" and len(pl["proj"]) == 2 and pl["proj"][0]["k"] == "downcast" and pl["proj"][0]["variant"] == "Continue":
            # `(_x as Continue).0` with _x = Try::branch(result of a local call g): the Ok payload of g
            ds = fn.whole_defs(pl["local"])
            live = [d for d in ds if d[2] in fn.cfg()]
            if len(live) > 1 or (len(live) == 1 and live[0][0] == "call" and callee_of(live[0][1]).endswith("::branch") and op_place(live[0][1]["args"][0]) is not None
                                 and len(fn.whole_defs(op_place(live[0][1]["args"][0])["local"])) > 1):
                # an inlined helper: one Try::branch per return site; the payload is the join over the Ok sites
                out, first = None, True
                for d in live:
                    if d[0] != "call" or not callee_of(d[1]).endswith("::branch"):
                        out, first = None, True
                        break
                    p0 = op_place(d[1]["args"][0])
                    v = self._ok_payload_local(fn, p0["local"], depth + 1, seen) if p0 is not None and not p0["proj"] else None
                    if v is None:
                        out, first = None, True
                        break
                    if v == "none":
                        continue
                    out = v if first else join(out, v)
                    first = False
                if not first:
                    return meet(ty_range(last["ty"]), out) if ty_range(last["ty"]) else out
            if len(ds) == 1 and ds[0][0] == "call" and callee_of(ds[0][1]).endswith("::branch"):
                p = op_place(ds[0][1]["args"][0])
                for _ in range(4):
                    if p is None or p["proj"]:
                        break
                    d2 = fn.whole_defs(p["local"])
                    if len(d2) != 1:
                        break
                    k2, pay2 = d2[0][0], d2[0][1]
                    if k2 == "stmt" and pay2["k"] == "use":
                        p = op_place(pay2["op"])
                        continue
                    if k2 == "call":
                        c = callee_of(pay2)
                        if c.rsplit("::", 1)[-1] in CONVERTERS:
                            p = op_place(pay2["args"][0])
                            continue
                        g = self.prog.fns.get(c)
                        if g is not None and depth < 8:
                            v = self.ok_payload_interval(g, depth + 1)
                            if v is not None:
                                return meet(ty_range(last["ty"]), v)
                        if g is None and c.rsplit("::", 1)[-1] in DEVICE_POSITION_CALLS and "Seek" in c:
                            # axiom (stated in every evidence file that uses A5): a device position / length fits an
                            # off_t, i.e. is below 2^63 (std::fs::File) or below isize::MAX (Cursor)
                            return meet(ty_range(last["ty"]), (0, (1 << 63) - 1))
                        if c.rsplit("::", 1)[-1] == "checked_sub" and len(pay2["args"]) == 2:
                            a = self.operand(fn, pay2["args"][0], d2[0][2], depth + 1, seen)
                            b = self.operand(fn, pay2["args"][1], d2[0][2], depth + 1, seen)
                            tr = ty_range(last["ty"])
                            if a is not None and tr is not None and tr[0] == 0:
                                return (max(0, a[0] - (b[1] if b else a[0])), a[1] - (b[0] if b else 0))
                    break
        if last["k"] == "field":
            fty = last["ty"]
            base = ty_range(fty)
            adt = last.get("adt", "")
            if adt and not adt.startswith("closure:") and adt != "tuple" and adt in self.prog.adts:
                inv = self.field_invariant(adt, last["name"], fty)
                return meet(base, inv) if base else inv
            return base
        if last["k"] in ("index", "cidx"):
            # element of an array / slice: element type range
            return None
        if last["k"] == "deref":
            inner = dict(pl)
            inner = {"local": pl["local"], "proj": pl["proj"][:-1]}
            return self.place(fn, inner, block, depth + 1, seen, refine=False)
        return None

    @staticmethod
    def _place_ty(fn, pl):
        if not pl["proj"]:
            return fn.local_ty(pl["local"])
        last = pl["proj"][-1]
        return last.get("ty", "") if last["k"] == "field" else ""

    def _table_interval(self, fn, pl):
        """a value taken from the elements of a literal table (`for (pos, v) in [(8, a), (16, b)]`): the join of the
        constants at that position of every element"""
        try:
            import bytesview
            t = Resolver(fn, max_depth=16).place(pl)
            inst = bytesview.table_instances([t])
            if len(inst) < 2:
                return None
            vals = [bytesview.const_eval(i[0]) for i in inst]
            if any(v is None for v in vals):
                return None
            return (min(vals), max(vals))
        except RecursionError:
            return None

    def _ok_payload_local(self, fn, n, depth, seen, hops=0):
        """interval of the Ok / Some payload a Result-typed local can hold ("none" when it is never Ok)"""
        if hops > 6 or depth > 24:
            return None
        ds = fn.whole_defs(n)
        if not ds or len(fn.defs().get(n, [])) != len(ds):
            return None
        out, first = None, True
        for kind, payload, bi, si, place in ds:
            if bi not in fn.cfg():
                continue
            v = None
            if kind == "stmt":
                rv = payload
                if rv["k"] == "aggregate" and rv["kind"].get("agg") == "adt" and (rv["kind"]["adt"].endswith("result::Result") or rv["kind"]["adt"].endswith("option::Option")):
                    if rv["kind"]["variant"] in ("Err", "None"):
                        continue
                    v = self.operand(fn, rv["ops"][0], bi, depth + 1, seen)
                elif rv["k"] == "use" and op_place(rv["op"]) is not None and not op_place(rv["op"])["proj"]:
                    v = self._ok_payload_local(fn, op_place(rv["op"])["local"], depth + 1, seen, hops + 1)
                    if v == "none":
                        continue
                else:
                    return None
            else:
                c = callee_of(payload)
                lastseg = c.rsplit("::", 1)[-1]
                if c.endswith("::from_residual") or self.prog.is_always_err(c):
                    continue
                if lastseg in CONVERTERS and payload["args"] and op_place(payload["args"][0]) is not None and not op_place(payload["args"][0])["proj"]:
                    v = self._ok_payload_local(fn, op_place(payload["args"][0])["local"], depth + 1, seen, hops + 1)
                    if v == "none":
                        continue
                else:
                    g = self.prog.fns.get(c)
                    if g is not None and depth < 8:
                        v = self.ok_payload_interval(g, depth + 1)
                    elif g is None and lastseg in DEVICE_POSITION_CALLS and "Seek" in c:
                        v = (0, (1 << 63) - 1)
            if v is None:
                return None
            out = v if first else join(out, v)
            first = False
        return "none" if first else out

    def _add_min_cap(self, fn, rv):
        """x + min(_, C - x) <= C  (C constant)"""
        R = Resolver(fn, max_depth=10)
        a, b = strip_deep(R.operand(rv["a"])), strip_deep(R.operand(rv["b"]))
        for x, m in ((a, b), (b, a)):
            while m[0] == "cast":
                m = m[2]
            if m[0] == "call" and m[1].endswith("::min") and len(m[2]) == 2:
                for y in m[2]:
                    while y[0] == "cast":
                        y = y[2]
                    if y[0] == "binop" and y[1] == "Sub" and y[2][0] == "const" and isinstance(y[2][2], int) and y[3] == x:
                        return y[2][2]
        return None

    def _acyclic_counter(self, fn, n, whole):
        """local defined only by constants and `n = n + c` steps none of which sits in a loop:
        every step runs at most once, so the value is bounded by the sum of the steps."""
        if len(whole) < 2:
            return None
        inits, steps = [], []
        loops = None
        for kind, payload, bi, si, place in whole:
            if kind != "stmt":
                return None
            rv = payload
            if rv["k"] == "use" and rv["op"]["k"] == "const":
                v = const_signed(rv["op"])
                if v is None:
                    return None
                inits.append(v)
                continue
            # n = move (_t.0) with _t = AddWithOverflow(n, const)
            src = op_place(rv["op"]) if rv["k"] == "use" else None
            if src is None or len(src["proj"]) != 1 or src["proj"][0]["k"] != "field" or src["proj"][0]["idx"] != 0:
                return None
            ds = fn.whole_defs(src["local"])
            if len(ds) != 1 or ds[0][0] != "stmt" or ds[0][1]["k"] != "binop" or ds[0][1]["op"] != "AddWithOverflow":
                return None
            a, b = ds[0][1]["a"], ds[0][1]["b"]
            pa = op_place(a)
            c = const_signed(b) if b["k"] == "const" else None
            if pa is None or pa["proj"] or self.root(fn, pa["local"]) != n or c is None or c < 0:
                return None
            if loops is None:
                loops = natural_loops(fn)
            if any(bi in body for body in loops.values()):
                return None
            steps.append(c)
        if not inits:
            return None
        return (min(inits), max(inits) + sum(steps))

    def _tree_iv(self, fn, t, block):
        t = strip(t)
        while t[0] == "cast":
            t = strip(t[2])
        if t[0] == "const" and isinstance(t[2], int):
            v = t[2]
            r = ty_range(t[1])
            if r and r[0] < 0 and v > r[1]:
                v -= (r[1] - r[0] + 1)
            return (v, v)
        if t[0] == "call" and t[1].endswith("::len"):
            return (0, ISIZE_MAX)
        return None

    def local(self, fn, n, block, depth=0, seen=frozenset()):
        base = ty_range(fn.local_ty(n))
        if depth > 14 or (fn.path, n) in seen:
            return base
        ds = fn.defs().get(n, [])
        whole = [d for d in ds if not d[4]["proj"]]
        if not whole or len(whole) != len(ds):
            return base
        seen2 = seen | {(fn.path, n)}
        cnt = self._acyclic_counter(fn, n, whole)
        if cnt is not None:
            return meet(base, cnt) if base else cnt
        out = None
        first = True
        for kind, payload, bi, si, place in whole:
            if kind == "call":
                v = self.call(fn, payload, bi, depth + 1, seen2)
            else:
                v = self.rvalue(fn, payload, bi, depth + 1, seen2)
            v = clip(v, fn.local_ty(n)) if base else v
            out = v if first else join(out, v)
            first = False
            if out is None:
                break
        return meet(base, out) if base else out

    def rvalue(self, fn, rv, block, depth, seen):
        k = rv["k"]
        if k == "use":
            return self.operand(fn, rv["op"], block, depth, seen)
        if k == "binop":
            return self.binop(fn, rv, block, depth, seen)
        if k == "cast":
            v = self.operand(fn, rv["a"], block, depth, seen)
            tr = ty_range(rv["ty"])
            if tr is None:
                return None
            if v is None:
                return tr
            if v[0] >= tr[0] and v[1] <= tr[1]:
                return v
            return tr
        if k == "unop":
            v = self.operand(fn, rv["a"], block, depth, seen)
            if rv["op"] == "Not":
                return (0, 1) if v and v[0] >= 0 and v[1] <= 1 else None
            if rv["op"] == "PtrMetadata":
                return (0, ISIZE_MAX)
            return None
        if k == "discr":
            return (0, 64)
        if k == "ref":
            # a reference to an integer place: used by Clone::clone(&x) / Deref; evaluate the place itself
            return self.place(fn, rv["place"], block, depth, seen)
        return None

    def binop(self, fn, rv, block, depth, seen):
        op = rv["op"]
        a = self.operand(fn, rv["a"], block, depth, seen)
        b = self.operand(fn, rv["b"], block, depth, seen)
        if op in ("Lt", "Le", "Gt", "Ge", "Eq", "Ne"):
            return (0, 1)
        if op.endswith("WithOverflow"):
            return None
        if a is None or b is None:
            if op == "Rem" and b is not None and b[0] > 0 and (a is None or a[0] >= 0):
                return (0, b[1] - 1)
            if op == "BitAnd":
                for x in (a, b):
                    if x is not None and x[0] >= 0:
                        return (0, x[1])
            if op == "Div" and a is not None and a[0] >= 0:
                return (0, a[1])
            if op == "Shr" and a is not None and a[0] >= 0:
                return (0, a[1])
            return None
        if op == "Add":
            return (a[0] + b[0], a[1] + b[1])
        if op == "Sub":
            return (a[0] - b[1], a[1] - b[0])
        if op == "Mul":
            c = [a[0] * b[0], a[0] * b[1], a[1] * b[0], a[1] * b[1]]
            return (min(c), max(c))
        if op == "Div":
            if b[0] > 0 and a[0] >= 0:
                return (a[0] // b[1], a[1] // b[0])
            return None
        if op == "Rem":
            if b[0] > 0 and a[0] >= 0:
                return (0, min(a[1], b[1] - 1))
            return None
        if op == "BitAnd":
            if a[0] >= 0 and b[0] >= 0:
                return (0, min(a[1], b[1]))
            if b[0] >= 0:
                return (0, b[1])
            if a[0] >= 0:
                return (0, a[1])
            return None
        if op == "Shr":
            if a[0] >= 0 and b[0] >= 0:
                return (a[0] >> min(b[1], 200), a[1] >> b[0])
            return None
        if op == "Shl":
            if a[0] >= 0 and b[0] >= 0 and b[1] < 200:
                return (a[0] << b[0], a[1] << b[1])
            return None
        if op in ("BitOr", "BitXor"):
            if a[0] >= 0 and b[0] >= 0:
                bits = max(a[1].bit_length(), b[1].bit_length())
                return (0, (1 << bits) - 1)
            return None
        return None

    def call(self, fn, t, block, depth, seen):
        c = callee_of(t)
        last = c.rsplit("::", 1)[-1]
        args = t["args"]
        dty = fn.local_ty(t["dest"]["local"]) if not t["dest"]["proj"] else ""
        base = ty_range(dty)

        def arg(i):
            return self.operand(fn, args[i], block, depth, seen)
        if last in ("len", "count", "capacity", "available") and base:
            if last == "len":
                return (0, ISIZE_MAX // max(1, self._elem_size(t)))
        if last == "min" and len(args) == 2:
            a, b = arg(0), arg(1)
            if a and b:
                return (min(a[0], b[0]), min(a[1], b[1]))
            x = a or b
            if x and base and base[0] >= 0:
                return (base[0], x[1])
            return base
        if last == "max" and len(args) == 2:
            a, b = arg(0), arg(1)
            if a and b:
                return (max(a[0], b[0]), max(a[1], b[1]))
            return base
        if last == "saturating_sub" and len(args) == 2 and base and base[0] == 0:
            a, b = arg(0), arg(1)
            if a is not None:
                lo = max(0, a[0] - b[1]) if b is not None else 0
                return (lo, a[1])
            return base
        if last in ("saturating_sub", "saturating_add", "wrapping_sub", "wrapping_add", "checked_sub", "checked_add"):
            return base
        if last == "ilog2":
            a = arg(0)
            if a and a[1] > 0:
                return (0, a[1].bit_length() - 1)
            return (0, 127)
        if last in ("from_le_bytes", "from_be_bytes", "from", "into", "try_from", "try_into"):
            if last in ("from", "into") and len(args) == 1:
                v = arg(0)
                if v is not None and base:
                    return meet(base, v)
            return base
        if last == "size_of":
            g = [x for x in t["callee"].get("args", []) if not x.startswith("'")]
            sizes = {"u8": 1, "i8": 1, "u16": 2, "i16": 2, "u32": 4, "i32": 4, "f32": 4, "u64": 8, "i64": 8, "f64": 8, "usize": 8, "isize": 8, "u128": 16, "i128": 16, "bool": 1, "char": 4}
            if g and g[-1] in sizes:
                return (sizes[g[-1]], sizes[g[-1]])
            return base
        if last == "count_ones" or last == "leading_zeros" or last == "trailing_zeros":
            return (0, 128)
        if last in ("clone", "to_owned", "deref", "borrow", "as_ref") and len(args) == 1:
            return arg(0)
        # local function: return-value interval (context insensitive)
        g = self.prog.fns.get(c)
        if g is not None and base is not None and depth < 10:
            return self.fn_return(g, depth + 1, seen)
        return base

    def _elem_size(self, t):
        """size of the element type of the receiver of a len() call (from the callee's generic args)"""
        sizes = {"u8": 1, "i8": 1, "u16": 2, "i16": 2, "u32": 4, "i32": 4, "f32": 4, "u64": 8, "i64": 8, "f64": 8, "usize": 8, "isize": 8, "u128": 16, "i128": 16, "bool": 1, "char": 4}
        g = [x for x in t["callee"].get("args", []) if not x.startswith("'")]
        if not g:
            return 1
        e = g[0].strip()
        if e in sizes:
            return sizes[e]
        a = self.prog.adts.get(e)
        if a and a.get("size", -1) > 0:
            return a["size"]
        if e.startswith("std::vec::Vec<") or e.startswith("std::string::String") or e.startswith("std::collections::VecDeque<"):
            return 24
        return 1

    def fn_return(self, g, depth, seen):
        base = ty_range(g.ret_ty())
        if base is None or (g.path, 0) in seen:
            return base
        out = None
        first = True
        for kind, payload, bi, si, place in g.defs().get(0, []):
            if place["proj"] or bi not in g.cfg():
                continue
            v = self.call(g, payload, bi, depth, seen | {(g.path, 0)}) if kind == "call" else self.rvalue(g, payload, bi, depth, seen | {(g.path, 0)})
            out = v if first else join(out, v)
            first = False
        return meet(base, out) if not first else base

    # -- refinement by dominating guards ---------------------------------------------------
    def stable(self, fn, pl):
        """may facts about this place be carried from a dominating guard to a later use?
        locals: defined at most once; fields: never assigned after construction anywhere in the crate."""
        root = self.root(fn, pl["local"])
        flds = [e for e in pl["proj"] if e["k"] == "field"]
        if not flds:
            ds = fn.defs().get(root, [])
            return len(ds) <= 1
        # the base pointer itself must be stable, the field immutable after construction
        if len(fn.defs().get(root, [])) > 1:
            return False
        for e in flds:
            adt = e.get("adt", "")
            if adt.startswith("closure:") or adt == "tuple" or not adt:
                continue
            key = (adt, e["name"])
            if key not in self._immut:
                mut = False
                for p, f in self.prog.fns.items():
                    if field_assignments(f, adt, e["name"]) or field_mut_borrows(f, adt, e["name"]) or field_partial_writes(f, adt, e["name"]):
                        mut = True
                        break
                self._immut[key] = not mut
            if not self._immut[key]:
                return False
        return True

    def stable_between(self, fn, pl, gb, ub):
        """no definition of the (root) local on any path from the guard block to the use block"""
        if [e for e in pl["proj"] if e["k"] == "field"]:
            return False
        root = self.root(fn, pl["local"])
        key = (fn.path, gb, ub)
        if key not in self._between:
            fwd = reach(fn.cfg(), fn.cfg().get(gb, []))
            back = {b for b in fwd if find_path(fn.cfg(), [b], {ub}, set()) is not None}
            self._between[key] = back
        between = self._between[key]
        for kind, payload, bi, si, place in fn.defs().get(root, []):
            if bi in between and bi != gb:
                return False
            if bi == gb:
                # a definition inside the guard block precedes the switch terminator: fine
                continue
        return True

    def refine(self, fn, pl, v, block, depth):
        key = self.place_key(fn, pl)
        if key is None:
            return v
        always = self.stable(fn, pl)
        for op, a, b, truth, gb in self.guards(fn, block):
            if op == "is_empty":
                continue
            if not always and not self.stable_between(fn, pl, gb, block):
                continue
            ka = self.place_key(fn, op_place(a)) if a["k"] != "const" else None
            kb = self.place_key(fn, op_place(b)) if b["k"] != "const" else None
            if ka == key and kb != key:
                other = self.operand(fn, b, gb, depth + 1, refine=False)
                v = self._apply(v, op, other, truth)
            elif kb == key and ka != key:
                other = self.operand(fn, a, gb, depth + 1, refine=False)
                v = self._apply(v, _flip(op), other, truth)
        return v

    @staticmethod
    def _apply(v, op, other, truth):
        if other is None:
            return v
        if not truth:
            op = {"Lt": "Ge", "Le": "Gt", "Gt": "Le", "Ge": "Lt", "Eq": "Ne", "Ne": "Eq"}[op]
        lo, hi = (v if v is not None else (-2**200, 2**200))
        if op == "Lt":
            hi = min(hi, other[1] - 1)
        elif op == "Le":
            hi = min(hi, other[1])
        elif op == "Gt":
            lo = max(lo, other[0] + 1)
        elif op == "Ge":
            lo = max(lo, other[0])
        elif op == "Eq":
            lo, hi = max(lo, other[0]), min(hi, other[1])
        elif op == "Ne":
            if other[0] == other[1]:
                if lo == other[0]:
                    lo += 1
                if hi == other[0]:
                    hi -= 1
        if lo > hi:
            return (lo, lo)
        if v is None and (lo == -2**200 or hi == 2**200):
            # half-open knowledge without a type range: keep what we know
            return (lo, hi)
        return (lo, hi)

    def holds(self, fn, block, op, a, b):
        """is `a op b` established by a dominating guard on the same places (relational facts)?"""
        ka = self.place_key(fn, op_place(a)) if a["k"] != "const" else ("const", const_signed(a))
        kb = self.place_key(fn, op_place(b)) if b["k"] != "const" else ("const", const_signed(b))
        if ka is None or kb is None:
            return False
        for gop, ga, gbb, truth, gblk in self.guards(fn, block):
            if gop == "is_empty":
                continue
            if any(o["k"] != "const" and not (self.stable(fn, op_place(o)) or self.stable_between(fn, op_place(o), gblk, block)) for o in (a, b)):
                continue
            if not truth:
                gop = {"Lt": "Ge", "Le": "Gt", "Gt": "Le", "Ge": "Lt", "Eq": "Ne", "Ne": "Eq"}[gop]
            gka = self.place_key(fn, op_place(ga)) if ga["k"] != "const" else ("const", const_signed(ga))
            gkb = self.place_key(fn, op_place(gbb)) if gbb["k"] != "const" else ("const", const_signed(gbb))
            if (gka, gkb) == (ka, kb) and _implies(gop, op):
                return True
            if (gka, gkb) == (kb, ka) and _implies(_flip(gop), op):
                return True
        return False

    # -- field invariants ----------------------------------------------------------------
    def field_invariant(self, adt, field, fty):
        base = ty_range(fty)
        if base is None:
            return None
        key = (adt, field)
        if key in self._field_cache:
            return self._field_cache[key]
        if key in self._field_busy:
            return base
        a = self.prog.adts.get(adt)
        if a is None:
            return base
        pub = any(f["name"] == field and f["pub"] for v in a["variants"] for f in v["fields"]) and a.get("exported", True)
        if pub:
            self._field_cache[key] = base
            return base
        self._field_busy.add(key)
        out = None
        first = True
        unknown = False
        for p, f in self.prog.fns.items():
            # constructor aggregates
            for bi in f.cfg():
                for si, st in enumerate(f.blocks[bi]["stmts"]):
                    rv = st["rv"]
                    if rv["k"] == "aggregate" and rv["kind"].get("agg") == "adt" and rv["kind"]["adt"] == adt and field in rv["kind"]["fields"]:
                        op = rv["ops"][rv["kind"]["fields"].index(field)]
                        tt = strip(Resolver(f, max_depth=8).operand(op))
                        if tt[0] == "field" and tt[2] == field:
                            continue      # copy of the same field of another value of this type (derive(Clone)): adds nothing
                        v = self.operand(f, op, bi, 1)
                        out = v if first else join(out, v)
                        first = False
            for bi, si, kind, payload in field_assignments(f, adt, field):
                if kind == "stmt":
                    v = self.rvalue(f, payload, bi, 1, frozenset())
                else:
                    v = self.call(f, payload, bi, 1, frozenset())
                out = v if first else join(out, v)
                first = False
            for b_bi, b_si, b_st in field_mut_borrows(f, adt, field):
                lastp = b_st["rv"]["place"]["proj"][-1] if b_st["rv"]["place"]["proj"] else None
                whole = lastp is not None and lastp["k"] == "field" and lastp["name"] == field
                if not (whole and not b_st["place"]["proj"] and not borrow_escapes(f, b_st["place"]["local"])):
                    unknown = True
        self._field_busy.discard(key)
        res = base if (first or unknown or out is None) else meet(base, out)
        self._field_cache[key] = res
        return res


def _flip(op):
    return {"Lt": "Gt", "Le": "Ge", "Gt": "Lt", "Ge": "Le", "Eq": "Eq", "Ne": "Ne"}[op]


def _implies(have, want):
    table = {"Lt": {"Lt", "Le", "Ne"}, "Le": {"Le"}, "Gt": {"Gt", "Ge", "Ne"}, "Ge": {"Ge"}, "Eq": {"Eq", "Le", "Ge"}, "Ne": {"Ne"}}
    return want in table.get(have, set())
