"""Which record names does a value look up in a prototype?  (shared by C14 / C10 / C13 / C05 rules)

A "lookup" is `proto.iter().any(|p| p.name == N)`, `.find(..)`, `.position(..)`, a call of a local helper whose result is
such an expression over one of its parameters (pc_writer::contains / get), or `[N1, N2].into_iter().any(|n| helper(proto, n))`.
The result is the list of RecordName variants compared, in source order, independent of how the lookup is spelled."""
from mirlib import *

ITER_QUERIES = ("any", "find", "position", "all", "filter", "find_map", "rposition")


def enum_const(t):
    t = strip(t)
    if t[0] == "const" and isinstance(t[2], tuple) and t[2] and t[2][0] == "enum":
        return t[2][1]
    if t[0] == "agg" and t[1][0] == "adt" and not t[2]:
        return t[1][2]
    return None


def _capture_index(g):
    """closure body g: captured variable name -> position in the closure aggregate"""
    out = {}
    for b in g.blocks:
        if b["cleanup"]:
            continue
        places = []
        for st in b["stmts"]:
            places.append(st["place"])
            rv = st["rv"]
            for key in ("place",):
                if key in rv:
                    places.append(rv[key])
            for key in ("op", "a", "b"):
                if key in rv and isinstance(rv[key], dict) and rv[key].get("k") in ("copy", "move"):
                    places.append(rv[key]["place"])
            for o in rv.get("ops", []) if rv["k"] == "aggregate" else []:
                if o.get("k") in ("copy", "move"):
                    places.append(o["place"])
        t = b["term"]
        if t["k"] == "call":
            for a in t["args"]:
                if a.get("k") in ("copy", "move"):
                    places.append(a["place"])
        for pl in places:
            if pl["local"] == 1:
                for e in pl["proj"]:
                    if e["k"] == "field" and str(e.get("adt", "")).startswith("closure"):
                        out[e["name"] if e["name"] else str(e["idx"])] = e["idx"]
    return out


def _iterated_consts(t):
    """enum constants of an array / slice literal that is being iterated"""
    for x in leaves(t):
        if x[0] == "agg" and x[1][0] == "array":
            vals = [enum_const(o) for o in x[2]]
            if vals and all(vals):
                return vals
    return None


def _closure_names(prog, cdef, cops, iterated, depth):
    g = prog.fns.get(cdef)
    if g is None:
        return None
    Rg = Resolver(g)
    cap = _capture_index(g)
    out = []

    def value(tr):
        v = enum_const(tr)
        if v:
            return v
        x = strip(tr)
        while x[0] == "cast":
            x = strip(x[2])
        if x[0] == "field" and strip(x[1]) == ("param", 1) and x[2] in cap and cap[x[2]] < len(cops):
            w = cops[cap[x[2]]]
            return enum_const(w) or (strip(w) if strip(w)[0] == "param" else None)
        if x[0] == "param" and x[1] >= 2:
            return ("elem",)
        return None
    for bi, t in g.calls():
        c = callee_of(t)
        last = c.rsplit("::", 1)[-1]
        if last in ("eq", "ne") and "RecordName" in c:
            for a in t["args"][:2]:
                v = value(Rg.operand(a))
                if v and v != ("elem",):
                    out.append(v)
                elif v == ("elem",):
                    consts = _iterated_consts(iterated)
                    if consts:
                        out.extend(consts)
        elif c in prog.fns and depth < 3:
            h = prog.fns[c]
            inner = lookup_names(prog, h, Resolver(h).local(0), depth + 1)
            if inner:
                for item in inner:
                    if isinstance(item, tuple) and item[0] == "param":
                        v = value(Rg.operand(t["args"][item[1] - 1])) if item[1] - 1 < len(t["args"]) else None
                        if v == ("elem",):
                            consts = _iterated_consts(iterated)
                            out.extend(consts or [])
                        elif v:
                            out.append(v)
                    else:
                        out.append(item)
    return out


def lookup_names(prog, f, t, depth=0):
    """list of RecordName variants (or ('param', j) of f) the value t looks up; None when t is not a lookup"""
    t = strip(t)
    while t[0] in ("cast", "field", "discr", "unop"):
        t = strip(t[1] if t[0] in ("field", "discr") else t[2])
    if t[0] == "phi":
        out = []
        for a in t[1]:
            r = lookup_names(prog, f, a, depth)
            if r:
                out.extend(x for x in r if x not in out)
        return out or None
    if t[0] != "call":
        return None
    c, args = t[1], t[2]
    last = c.rsplit("::", 1)[-1]
    if last in ITER_QUERIES and args:
        cl = [x for a in args[1:] for x in [strip(a)] if x[0] == "agg" and x[1][0] == "closure"]
        if cl:
            return _closure_names(prog, cl[0][1][1], cl[0][2], args[0], depth)
        return None
    g = prog.fns.get(c)
    if g is not None and depth < 3:
        inner = lookup_names(prog, g, Resolver(g).local(0), depth + 1)
        if inner:
            out = []
            for item in inner:
                if isinstance(item, tuple) and item[0] == "param":
                    a = args[item[1] - 1] if item[1] - 1 < len(args) else None
                    v = enum_const(a) if a is not None else None
                    if v:
                        out.append(v)
                    elif a is not None and strip(a)[0] == "param":
                        out.append(strip(a))
                else:
                    out.append(item)
            return out
    # a combinator applied to a lookup: x.map(..), x.is_some(), x.then(..)
    if args:
        return lookup_names(prog, f, args[0], depth)
    return None
