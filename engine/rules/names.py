"""Which record names does a value look up in a prototype?  (shared by the C14 / C10 rules)

A "lookup" is `proto.iter().any(|p| p.name == N)`, `.find(..)`, `.position(..)`, `.filter(..).count()`, a call of a
local helper whose result is such an expression over its parameters (pc_writer::contains / get / count helpers), or
`[N1, N2].into_iter().any(|n| helper(proto, n))`.  The result is the list of RecordName variants compared, in source
order, independent of how the lookup is spelled.  Items are symbolic while inside a callee / closure:
  'Variant' | ('param', j) value of parameter j | ('elems', j) the elements of the array parameter j
  | ('cap', i) captured variable i of a closure | ('elem',) the element a closure is applied to"""
from mirlib import *

ITER_QUERIES = ("any", "find", "position", "all", "filter", "find_map", "rposition", "count", "contains")


def enum_const(t):
    t = strip(t)
    if t[0] == "const" and isinstance(t[2], tuple) and t[2] and t[2][0] == "enum":
        return t[2][1]
    if t[0] == "agg" and t[1][0] == "adt" and not t[2]:
        return t[1][2]
    return None


def _capture_index(g):
    """closure body g: captured variable name -> position in the closure aggregate"""
    out = {}

    def visit(pl):
        if pl["local"] == 1:
            for e in pl["proj"]:
                if e["k"] == "field" and str(e.get("adt", "")).startswith("closure"):
                    out[e["name"] if e["name"] else str(e["idx"])] = e["idx"]
    for b in g.blocks:
        if b["cleanup"]:
            continue
        for st in b["stmts"]:
            visit(st["place"])
            rv = st["rv"]
            if "place" in rv:
                visit(rv["place"])
            for key in ("op", "a", "b"):
                if isinstance(rv.get(key), dict) and rv[key].get("k") in ("copy", "move"):
                    visit(rv[key]["place"])
            if rv["k"] == "aggregate":
                for o in rv["ops"]:
                    if o.get("k") in ("copy", "move"):
                        visit(o["place"])
        t = b["term"]
        if t["k"] == "call":
            for a in t["args"]:
                if a.get("k") in ("copy", "move"):
                    visit(a["place"])
    return out


def _array_consts(t):
    for x in leaves(t):
        if x[0] == "agg" and x[1][0] == "array":
            vals = [enum_const(o) for o in x[2]]
            if vals and all(vals):
                return vals
    return None


def _value_item(g, cap, tr):
    """symbolic item for an operand of a name comparison inside function / closure g"""
    v = enum_const(tr)
    if v:
        return v
    x = strip(tr)
    while x[0] == "cast":
        x = strip(x[2])
    if g.kind == "Closure":
        if x[0] == "field" and strip(x[1]) == ("param", 1) and x[2] in cap:
            return ("cap", cap[x[2]])
        if x[0] == "param" and x[1] >= 2:
            return ("elem",)
        if x[0] == "field" and x[2] == "name":
            return None        # the .name of the element / a record: the thing being compared, not a name constant
        if x[0] == "field" and strip(x[1])[0] == "param" and strip(x[1])[1] >= 2:
            return ("elem",)
    elif x[0] == "param":
        return ("param", x[1])
    return None


def _body_items(prog, g, depth):
    """items compared / looked up anywhere in the body of g (a closure or a helper)"""
    Rg = Resolver(g)
    cap = _capture_index(g) if g.kind == "Closure" else {}
    out = []
    for bi, t in g.calls():
        c = callee_of(t)
        last = c.rsplit("::", 1)[-1]
        if last in ("eq", "ne") and "RecordName" in c:
            for a in t["args"][:2]:
                v = _value_item(g, cap, Rg.operand(a))
                if v is not None:
                    out.append(v)
        elif (c in prog.fns or last in ITER_QUERIES) and depth < 4:
            tree = Rg._call(t, bi, 0, frozenset())
            for item in _call_items(prog, g, tree, depth + 1) or []:
                # items are already expressed in terms of g: map g's own parameters when g is a closure
                if g.kind == "Closure" and isinstance(item, tuple) and item[0] == "param":
                    item = ("elem",) if item[1] >= 2 else None
                if item is not None:
                    out.append(item)
    # `matches!(p.name, RecordName::A | RecordName::B)`: a switch on the discriminant of a `.name` place whose listed
    # variants reach `true`
    variants = [v["name"] for v in prog.adts["record::RecordName"]["variants"]] if "record::RecordName" in getattr(prog, "adts", {}) else []
    if variants and "bool" in g.ret_ty():
        for bi in g.cfg():
            t = g.blocks[bi]["term"]
            if t["k"] != "switch" or op_place(t["discr"]) is None:
                continue
            d = strip(Rg.place(op_place(t["discr"])))
            if not (d[0] == "discr" and strip(d[1])[0] == "field" and strip(d[1])[2] == "name"):
                continue

            def yields_true(b, hops=0):
                for _ in range(6):
                    for st in g.blocks[b]["stmts"]:
                        if st["place"]["local"] == 0 and not st["place"]["proj"] and st["rv"]["k"] == "use" and st["rv"]["op"].get("k") == "const":
                            return str(st["rv"]["op"].get("bits")) == "1"
                    tt = g.blocks[b]["term"]
                    if tt["k"] == "goto":
                        b = tt["target"]
                    else:
                        return None
                return None
            for v, succ in t["targets"]:
                try:
                    nm_ = variants[int(v)]
                except (ValueError, IndexError):
                    continue
                if yields_true(succ) is True:
                    out.append(nm_)
    return out


def _call_items(prog, g, t, depth):
    """items looked up by the call tree t, expressed in terms of the enclosing function g"""
    t = strip(t)
    if t[0] != "call":
        return None
    c, args = t[1], t[2]
    last = c.rsplit("::", 1)[-1]
    Rg = None
    cap = _capture_index(g) if g.kind == "Closure" else {}
    if last == "contains" and len(args) == 2 and c not in prog.fns:
        # NAMES.contains(&p.name): the names are the elements of the receiver
        consts = _array_consts(args[0])
        if consts:
            return list(consts)
        v = _value_item(g, cap, args[0])
        if isinstance(v, tuple) and v[0] == "cap":
            return [("capelems", v[1])]
        if isinstance(v, tuple) and v[0] == "param":
            return [("elems", v[1])]
    if last in ITER_QUERIES and args and c not in prog.fns:
        cl = [x for a in args[1:] for x in [strip(a)] if x[0] == "agg" and x[1][0] == "closure"]
        if not cl:
            return _call_items(prog, g, args[0], depth) if strip(args[0])[0] == "call" else None
        cdef, cops = cl[0][1][1], cl[0][2]
        h = prog.fns.get(cdef)
        if h is None:
            return None
        out = []
        for item in _body_items(prog, h, depth):
            if isinstance(item, tuple) and item[0] == "capelems":
                w = cops[item[1]] if item[1] < len(cops) else None
                consts = _array_consts(w) if w is not None else None
                if consts:
                    out.extend(consts)
            elif isinstance(item, tuple) and item[0] == "cap":
                w = cops[item[1]] if item[1] < len(cops) else None
                v = _value_item(g, cap, w) if w is not None else None
                if v is not None:
                    out.append(v)
            elif item == ("elem",):
                consts = _array_consts(args[0])
                if consts:
                    out.extend(consts)
                else:
                    # iterating an array parameter of g
                    for x in leaves(args[0]):
                        if x[0] == "param":
                            out.append(("elems", x[1]))
                            break
            else:
                out.append(item)
        return out
    h = prog.fns.get(c)
    if h is not None and depth < 4:
        inner = []
        rt = Resolver(h).local(0)
        inner = _tree_items(prog, h, rt, depth + 1) or []
        out = []
        for item in inner:
            if isinstance(item, tuple) and item[0] in ("param", "elems"):
                a = args[item[1] - 1] if item[1] - 1 < len(args) else None
                if a is None:
                    continue
                if item[0] == "param":
                    v = _value_item(g, cap, a)
                    if v is not None:
                        out.append(v)
                else:
                    consts = _array_consts(a)
                    if consts:
                        out.extend(consts)
                    elif strip(a)[0] == "param":
                        out.append(("elems", strip(a)[1]))
            else:
                out.append(item)
        return out
    if args and strip(args[0])[0] == "call":
        return _call_items(prog, g, args[0], depth)
    return None


def _tree_items(prog, g, t, depth):
    t = strip(t)
    while t[0] in ("cast", "field", "discr", "unop"):
        t = strip(t[1] if t[0] in ("field", "discr") else t[2])
    if t[0] == "phi":
        out = []
        for a in t[1]:
            for x in _tree_items(prog, g, a, depth) or []:
                if x not in out:
                    out.append(x)
        return out or None
    return _call_items(prog, g, t, depth)


def lookup_names(prog, f, t, depth=0):
    """list of RecordName variants (or ('param', j) / ('elems', j) of f) the value t looks up; None when t is no lookup"""
    r = _tree_items(prog, f, t, depth)
    return r or None


def iterates_prototype(prog, f, t):
    """does the counting / filtering expression t iterate the *names* (each name once) rather than the records?"""
    t = strip(t)
    while t[0] == "call" and t[2] and t[1].rsplit("::", 1)[-1] in ("count", "filter", "into_iter", "iter", "copied", "cloned"):
        if t[1].rsplit("::", 1)[-1] == "filter":
            return _array_consts(t[2][0]) is None and not any(x[0] == "agg" and x[1][0] == "array" for x in leaves(t[2][0]))
        t = strip(t[2][0])
    return False
