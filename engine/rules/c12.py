"""C12 — bit-packed integers: exact width, bit order and decode at any alignment (DESIGN §4 C12)."""
from mirlib import *
import width_rules
import codec_rules
import xml_rules
import packet_rules

TECHNIQUE = "expression-tree comparison of the bit-width formula at its three sites, of the stored form (value - min as little-endian u64, float to_le_bytes), of the reader's extraction window (u128 over 16 bytes, shift by bit phase) and mask/minimum reconstruction; structural rules for add_bits and append; zero-width wiring table"
EXPLANATION = (
    "Decides that integer_bits, unpack_ints and unpack_scaled_ints compute the same width ilog2(max as i128 - min as "
    "i128) + 1 (0 under range <= 0), that the mask is (1 << bits) - 1 and the value is rebuilt as masked + min in i128; "
    "that serialize_integer stores ((value - min) as u64).to_le_bytes() with exactly integer_bits(min, max) bits and "
    "floats are stored/rebuilt with to_le_bytes/from_le_bytes of 4/8 bytes (32/64 extracted bits); that extract uses a "
    "zeroed 16-byte window loaded from buffer[offset/8..(offset+bits+7)/8], shifts by offset % 8, advances offset by bits "
    "and refuses when fewer bits are available; that append keeps the unconsumed tail and the bit phase; that add_bits "
    "has the documented fast path, bit loop and phase update; and that zero-width records are synthesised from the "
    "record's own minimum with stream i feeding queue i. append() empties its scratch vector on every path. Not decided: numeric correctness of add_bits/extract for every "
    "bit phase and packet cut (needs execution or a solver).")


def run(ctx):
    ctx.rule("R6", "declared ranges reach the reader as written: defaults of omitted limits = spec, limits written and parsed as integers (shared with C03-R3 / C04-R4)")
    ctx.rule("R1", "bit width = ilog2(max as i128 - min as i128) + 1 at all three sites (0 when the range is not positive); mask (1<<bits)-1; value = masked + min in i128")
    ctx.rule("R2", "stored form: ((value - min) as u64).to_le_bytes() with integer_bits(min,max) bits; f32/f64 via to_le_bytes; reader extracts 32/64 bits and rebuilds with from_le_bytes")
    ctx.rule("R3", "zero-width records are synthesised from the record's own minimum; unpack dispatch per data type with the record's (min,max); stream i -> queue i")
    ctx.rule("R4", "extract: zeroed 16-byte window <- buffer[offset/8..(offset+bits+7)/8], result (u128 >> offset%8) as u64, offset += bits, None when not enough bits; append keeps the tail and the bit phase")
    ctx.rule("R5", "add_bits: aligned fast path data[..(bits+7)/8], bit loop 0..bits with LSB-first masks, phase update; full_bytes/all_bytes/drain agree")
    for cfg in (["lib"] if ctx.tier == "quick" else ["lib", "lib_crc32c"]):
        prog, info = load_program(cfg, "e57")
        ctx.configs[cfg] = info
        ctx.cfg = cfg
        ctx.call(width_rules.width_formula, prog, "R1")
        ctx.call(codec_rules.stored_form, prog, "R2")
        ctx.call(codec_rules.zero_width_wiring, prog, "R3")
        ctx.call(codec_rules.extract_window, prog, "R4")
        ctx.call(codec_rules.append_shape, prog, "R4")
        ctx.call(codec_rules.add_bits_shape, prog, "R5")
        ctx.call(packet_rules.defaults_table, prog, "R6")
        ctx.call(xml_rules.type_attributes, prog, "R6")
    ctx.cfg = None
