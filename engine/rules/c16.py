"""C16 — device faults surface as errors; short I/O changes nothing (DESIGN §4 C16)."""
from mirlib import *
from proto import *
import io_rules
import cache_rules
import blob_rules

TECHNIQUE = "whole-crate dataflow rule 'no io::Result / e57::Result is dropped' (one named exception), raw read/write transfer discipline (loop + zero test + advance), success-implies-flushed exit rule, error-mapping decision tables of the Converter trait"
EXPLANATION = (
    "Decides, for every function of the e57 library in both feature configurations, that each call returning "
    "io::Result or e57::Result has its result consumed by ?, a Converter method, a match/if-let, or is returned (the only "
    "exception is PagedWriter::drop); that every raw Read::read / Write::write call sits in a loop whose exit is "
    "controlled by a zero test of the returned count and, on the raw device, advances the buffer by that count, while all "
    "other transfers use read_exact / write_all / io::copy; that the success value of E57Writer::finalize is the result of "
    "the final flush and PagedWriter::flush forwards the device flush; and that the eight Converter methods map Err(e)/None "
    "to the matching Error variant carrying the source. Also that an inspected Err never leads to a successful return of the inspecting function (no error is answered with Ok, and in the iterators with None or a value instead of Some(Err)). Not decided: byte-identical output under arbitrary chunking "
    "schedules and object state after a failed call.")


def run(ctx):
    ctx.rule("R1", "no call result of type io::Result<_> / e57::Result<_> is dropped or only tested (named exception: PagedWriter::drop)")
    ctx.rule("R2", "raw Read::read / Write::write calls are looped on, their count is compared with 0 to leave the loop and (on the raw device) advances the buffer; everything else uses read_exact / write_all / io::copy")
    ctx.rule("R3", "finalize_customized_xml returns the result of the final flush; PagedWriter::flush forwards writer.flush()")
    ctx.rule("R5", "an Err result that was inspected (?, match, is_err) never leads to a successful return of the inspecting function")
    ctx.rule("R4", "Converter::{read,write,invalid,internal}_err map Err(e)/None to the matching Error variant with source = Some(e)/None")
    ctx.rule("R6", "a failed device read leaves no stale page behind: every clobber of the page buffer is dominated by page_num = None and a page is published only on the checksum-equal edge, for the page that was sought (shared with C07-R2/R3)")
    ctx.rule("R7", "Blob::write hands the payload to the page writer directly and checks every step (no unflushed intermediate buffer) (shared with C06-R1)")
    for cfg in ["lib", "lib_crc32c"]:
        prog, info = load_program(cfg, "e57")
        ctx.configs[cfg] = info
        ctx.cfg = cfg
        ctx.call(io_rules.no_dropped_results, prog, "R1")
        ctx.call(io_rules.raw_transfer_discipline, prog, "R2")
        ctx.call(io_rules.success_implies_flushed, prog, "R3")
        ctx.call(io_rules.converter_tables, prog, "R4")
        ctx.call(io_rules.no_error_turned_into_success, prog, "R5")
        ctx.call(cache_rules.invalidate_on_clobber, prog, cache_rules.PR, rule="R6")
        ctx.call(blob_rules.write_protocol, prog, "R7")
        ctx.call(cache_rules.validate_before_publish, prog, cache_rules.PR, "table" if cfg == "lib" else "crate", rule="R6")
    ctx.cfg = None
    ctx.call(io_rules.controls)
