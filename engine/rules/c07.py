"""C07 — corrupted pages never yield data; CRC is CRC-32C in both back ends (DESIGN §4 C07)."""
from mirlib import *
import cache_rules
import io_rules
import crc_rules

TECHNIQUE = "MIR typestate of the page cache (who-may-write, invalidate-on-clobber, validate-before-publish, serve-only-verified by edge cuts) + expression-tree match of the CRC-32C algorithm + cross-cfg sibling comparison"
EXPLANATION = (
    "Decides, for both settings of the crc32c feature, the structural clauses that make 'data of a page with a bad "
    "checksum is never served': the cache key page_num and the buffer are written only inside impl PagedReader; every "
    "point that hands &mut page_buffer to a callee is dominated by page_num = None; page_num = Some(p) is reachable only "
    "through the equal-edge of the comparison of page_buffer[size-4..] with to_be_bytes(crc(page_buffer[..size-4])); the "
    "copy out of page_buffer in Read::read is unreachable once the cache-hit edge and the Ok-edge of read_page are cut; "
    "Crc32::new/calculate have the reflected Castagnoli table/step shape; validate_crc loops on read until 0 and "
    "propagates errors. The cursor of the page reader moves only after the page was verified, and the validation loop ends only on a zero-length read. An inspected Err (a checksum failure arrives as one) never ends in a successful return or in the end of an iteration (C16-R5). Not decided: detection strength of CRC-32C and behaviour on concrete corruptions.")


def run(ctx):
    ctx.rule("R1", "page_num / page_buffer / offset of PagedReader are assigned or mutably borrowed only inside impl PagedReader")
    ctx.rule("R2", "every point handing &mut page_buffer to a callee is dominated by page_num = None (no re-publication in between)")
    ctx.rule("R3", "page_num = Some(p) only on the equal-edge of page_buffer[n-4..] vs to_be_bytes(crc(page_buffer[..n-4])), p = the page sought")
    ctx.rule("R4", "Read::read copies out of page_buffer only via the cache-hit edge for the computed page or the Ok-edge of read_page(page)")
    ctx.rule("R5", "Crc32::new / calculate are the table-driven reflected CRC-32C (poly 0x82F63B78, init/xorout all ones)")
    ctx.rule("R6", "with feature crc32c the three CRC sites call crc32c::crc32c on the same slice tree as Crc32::calculate without it")
    ctx.rule("R7", "validate_crc reads page-size chunks until read returns 0 and propagates every read error")
    ctx.rule("R8", "a failed page read is reported: an Err result that was inspected never leads to a successful return or to the end of an iteration (shared with C16-R5)")
    cfgs = ["lib", "lib_crc32c"]
    summaries = {}
    for cfg in cfgs:
        prog, info = load_program(cfg, "e57")
        ctx.configs[cfg] = info
        ctx.cfg = cfg
        summaries[cfg] = cache_rules.paged_reader_rules(ctx, prog, crc_kind=("table" if cfg == "lib" else "crate"))
        ctx.call(cache_rules.validate_crc_rule, prog)
        ctx.call(io_rules.no_error_turned_into_success, prog, "R8")
        if cfg == "lib":
            ctx.call(crc_rules.crc32c_shape, prog)
    ctx.cfg = None
    # R6: sibling comparison across configurations
    a, b = summaries["lib"], summaries["lib_crc32c"]
    for site in sorted(set(a) | set(b)):
        sa, sb = a.get(site), b.get(site)
        ok = sa is not None and sb is not None and sa["slice"] == sb["slice"] and sa["callee_kind"] == "table" and sb["callee_kind"] == "crate"
        ctx.ob("R6", "crc-site/" + site, ok, "default: %s | crc32c: %s" % (sa, sb), where=site)
    ctx.floor("R6", "crc call sites present in both configurations", len(set(a) & set(b)), 1)
    ctx.call(cache_rules.controls)
