"""Bounds and default limit rules of the point cloud writer (C14)."""
from mirlib import *
from proto import *
from cache_rules import strip_casts, const_val, is_self_field
from simple_rules import leaf_name, _agg_fields, _assume_option

PCW = "pc_writer::PointCloudWriter::<'a, T>::"
ADD = PCW + "add_point"
NEW = PCW + "new"

WANT = {
    "CartesianX": ("cartesian_bounds", "x_min", "x_max", "to_f64"), "CartesianY": ("cartesian_bounds", "y_min", "y_max", "to_f64"), "CartesianZ": ("cartesian_bounds", "z_min", "z_max", "to_f64"),
    "SphericalAzimuth": ("spherical_bounds", "azimuth_start", "azimuth_end", "to_f64"), "SphericalElevation": ("spherical_bounds", "elevation_min", "elevation_max", "to_f64"),
    "SphericalRange": ("spherical_bounds", "range_min", "range_max", "to_f64"),
    "RowIndex": ("index_bounds", "row_min", "row_max", "to_i64"), "ColumnIndex": ("index_bounds", "column_min", "column_max", "to_i64"), "ReturnIndex": ("index_bounds", "return_min", "return_max", "to_i64"),
}


def enum_const(t):
    t = strip(t)
    if t[0] == "const" and isinstance(t[2], tuple) and t[2] and t[2][0] == "enum":
        return t[2][1]
    if t[0] == "agg" and t[1][0] == "adt" and not t[2]:
        return t[1][2]
    return None


def name_tests(fn, R=None):
    """blocks of `x.name == RecordName::V` comparisons: list of (block, variant, true succ, false succ)"""
    R = R or Resolver(fn)
    out = []
    for bi, t in fn.calls(lambda c, t: c.endswith("RecordName as std::cmp::PartialEq>::eq") or c.endswith("RecordName as std::cmp::PartialEq>::ne")):
        a, b = R.operand(t["args"][0]), R.operand(t["args"][1])
        v = enum_const(b) or enum_const(a)
        be = bool_edges(fn, bi)
        if v and be:
            sw, tr, fa = be
            if callee_of(t).endswith("ne"):
                tr, fa = fa, tr
            out.append((bi, v, sw, tr, fa))
    # the same tests spelled `match p.name { RecordName::V => .. }`: a switch on the discriminant of a `.name` place
    prog = getattr(fn, "program", None)
    variants = [v["name"] for v in prog.adts["record::RecordName"]["variants"]] if prog is not None and "record::RecordName" in prog.adts else []
    for bi in fn.cfg():
        t = fn.blocks[bi]["term"]
        if t["k"] != "switch" or not variants:
            continue
        dl = op_place(t["discr"])
        d = strip(R.place(dl)) if dl else None
        if not (d and d[0] == "discr"):
            continue
        x = strip(d[1])
        if not (x[0] == "field" and x[2] == "name"):
            continue
        for v, succ in t["targets"]:
            try:
                name = variants[int(v)]
            except (ValueError, IndexError):
                continue
            out.append((bi, name, bi, succ, None))
    return out


def update_table(ctx, prog, rule):
    """per record name: which bound fields are updated, from which value.  Decided per name on the CFG pruned under the
    assumption `p.name == Name` (so it does not matter whether the names are tested with ==, match, or-patterns, or
    whether one update call serves several names through a selected pair of references)."""
    from simple_rules import assume_record_name, fn_view
    import elems
    f = prog.fn(ADD)
    ctx.fn_seen(f)
    variants = [v["name"] for v in prog.adt("record::RecordName")["variants"]]
    R0 = Resolver(f)
    n_sites = len([1 for bi, t in f.calls(lambda c, t: c in ("pc_writer::update_min", "pc_writer::update_max"))])
    if n_sites == 0:
        return _update_table_by_stores(ctx, prog, rule, f, variants, R0)
    got = {}
    for name in variants:
        g = assume_record_name(f, name, variants, R0)
        v = fn_view(f, g)
        R = Resolver(v)
        for bi, t in v.calls(lambda c, t: c in ("pc_writer::update_min", "pc_writer::update_max")):
            if bi not in v.cfg():
                continue
            kind = callee_of(t).rsplit("_", 1)[-1]
            val = strip(R.operand(t["args"][0]))
            tgt = strip(R.operand(t["args"][1]))
            fld = tgt[2] if tgt[0] == "field" else tree_str(tgt)
            holder = None
            if tgt[0] == "field":
                b = strip(tgt[1])
                if b[0] == "call" and b[1].endswith("Option::<T>::as_mut"):
                    holder = self_field(b[2][0])
                else:
                    holder = self_field(b)
            conv = val[1].rsplit("::", 1)[-1] if val[0] == "call" else tree_str(val)
            src_ok = False
            if val[0] == "call" and conv in ("to_f64", "to_i64"):
                ev, ed = elems.elem_of(val[2][0]), elems.elem_of(val[2][1])
                src_ok = (ev is not None and ed is not None and strip(ev[0]) == ("param", 2) and ev[1] == []
                          and is_self_field(strip(ed[0]), "prototype") and ed[1] == ["data_type"] and elems.same_position(ev, ed))
            got.setdefault(name, {}).setdefault(kind, []).append((holder, fld, conv, src_ok))
    # every point counts: under `p.name == Name` no trip around the loop over the prototype skips the update (a bound
    # update that depends on another attribute's value - "invalid points do not count" - makes the bounds inexact)
    loops_ = natural_loops(f)
    for name in WANT:
        g = assume_record_name(f, name, variants, R0)
        ups_ = [bi for bi, t in f.calls(lambda c, t: c in ("pc_writer::update_min", "pc_writer::update_max")) if bi in reach(g, [0])]
        heads = [h for h, body in loops_.items() if ups_ and all(u in body for u in ups_)]
        if not heads:
            continue
        h = min(heads, key=lambda x: len(loops_[x]))
        body = loops_[h]
        gi = {b: [s_ for s_ in ss if s_ in body] for b, ss in g.items() if b in body}
        entry = [s_ for s_ in g.get(h, []) if s_ in body]
        for kind_ in ("update_min", "update_max"):
            uk = [bi for bi, t in f.calls(lambda c, t: c == "pc_writer::" + kind_) if bi in ups_]
            skip = find_path(gi, entry, {h}, set(uk) | f.err_exit_blocks())
            ctx.ob(rule, "bound-always-updated/%s/%s" % (name, kind_), skip is None and bool(uk),
                   "%s: every trip around the prototype loop with p.name == %s passes %s (no other condition guards it)" % (name, name, kind_),
                   where="src/pc_writer.rs", path=" -> ".join("bb%d" % b for b in skip[:12]) if skip else None)
    for name, (holder, fmin, fmax, conv) in WANT.items():
        g_ = got.get(name, {})
        ok = g_.get("min") == [(holder, fmin, conv, True)] and g_.get("max") == [(holder, fmax, conv, True)]
        ctx.ob(rule, "bound-update/%s" % name, ok,
               "%s: update_min -> %s, update_max -> %s (must be %s.%s / %s.%s from values[i].%s(&prototype[i].data_type), no cast in between)" % (name, g_.get("min"), g_.get("max"), holder, fmin, holder, fmax, conv), where="src/pc_writer.rs")
    extra = sorted(set(got) - set(WANT))
    ctx.ob(rule, "bound-update/no-others", not extra, "bound updates for other record names: %s" % extra, nontrivial=False)
    ctx.floor(rule, "update_min/update_max call sites", n_sites, 2, semantic=False)


def _update_table_by_stores(ctx, prog, rule, f, variants, R0):
    """the update helpers were merged, renamed or written out: they are inlined into add_point, and the table is read
    from the stores themselves.  Per record name (flow graph pruned under `p.name == Name`): which bound fields are
    stored to, with which value, and which comparison lets each store happen."""
    from simple_rules import assume_record_name, fn_view
    import elems
    n_stores = 0
    for name, (holder, fmin, fmax, conv) in WANT.items():
        g = assume_record_name(f, name, variants, R0)
        v = fn_view(f, g)
        R = Resolver(v, max_depth=24)
        r0 = reach(g, [0])
        stores = {}                      # field -> list of (block, kind whole|payload, value tree)
        for n_, ds in v.defs().items():
            for kind, payload, bi, si, place in ds:
                if kind != "stmt" or bi not in r0 or len(place["proj"]) != 1 or place["proj"][0]["k"] != "deref":
                    continue
                dst = tree_str(strip_deep(R.local(place["local"])))
                if not dst.startswith("arg1.%s." % holder) and "_bounds." not in dst:
                    continue
                fld = dst.rsplit(".", 1)[-1]
                val = strip(R.rvalue(payload))
                k = "payload"
                if val[0] == "agg" and val[1][0] == "adt" and val[1][2] == "Some" and val[2]:
                    k, val = "whole", strip(val[2][0])
                stores.setdefault((dst.split(".")[1] if dst.count(".") >= 2 else "?", fld), []).append((bi, k, val))
        n_stores += sum(len(x) for x in stores.values())
        problems = []
        if set(stores) != {(holder, fmin), (holder, fmax)}:
            problems.append("fields stored to: %s" % sorted(stores))
        vstr = None
        for (h_, fld), sts in sorted(stores.items()):
            for bi, k, val in sts:
                ok_src = False
                if val[0] == "call" and val[1].rsplit("::", 1)[-1] == conv and len(val[2]) >= 2:
                    ev, ed = elems.elem_of(val[2][0]), elems.elem_of(val[2][1])
                    ok_src = (ev is not None and ed is not None and strip(ev[0]) == ("param", 2) and ev[1] == []
                              and is_self_field(strip(ed[0]), "prototype") and ed[1] == ["data_type"] and elems.same_position(ev, ed))
                if not ok_src:
                    problems.append("%s <- %s" % (fld, tree_str(strip_deep(val))[:80]))
                vstr = vstr or tree_str(strip_deep(val))
        # orientation: a payload store happens only on the edge "value beyond the current bound of that same field"; a
        # field that is still None is filled (whole store of Some(value))
        tests = [(bi, order_test(v, R, bi)) for bi in v.cfg() if bi in r0]
        tests = [(bi, t) for bi, t in tests if t is not None]
        for fld, role in ((fmin, "min"), (fmax, "max")):
            sts = stores.get((holder, fld), [])
            if not any(k == "whole" for _, k, _ in sts):
                problems.append("%s is never initialised from None with Some(value)" % fld)
            content = "arg1.%s.%s" % (holder, fld)
            all_some = _reach_all_some(v, g, R, holder, fmin, fmax)
            is_v = lambda t_: tree_str(strip_deep(t_)) == vstr
            is_c = lambda t_: tree_str(strip_deep(t_)) == content
            for bi, k, val in sts:
                if k != "payload" and bi not in all_some:
                    continue                  # initialisation: reachable only while a bound of the pair is still None
                gated = False
                for tb, t in tests:
                    oe = order_edges(t, is_v, is_c) if role == "min" else order_edges(t, is_c, is_v)
                    if oe is None:
                        continue
                    lt_succ, ge_succ = oe
                    g2 = {a: [b_ for b_ in ss if not (a == tb and b_ == lt_succ)] for a, ss in g.items()}
                    if bi in reach(g, [lt_succ]) and bi not in reach(g2, [0]):
                        gated = True
                if not gated:
                    problems.append("the store into %s at %s is not gated by `value %s current %s`" % (fld, v.file_line(bi), "<" if role == "min" else ">", fld))
        ctx.ob(rule, "bound-update/%s" % name, not problems,
               "%s updates %s.%s / %s.%s from values[i].%s(&prototype[i].data_type): %s" % (name, holder, fmin, holder, fmax, conv, "; ".join(problems) if problems else "stores, values and gating comparisons agree"), where="src/pc_writer.rs")
    ctx.floor(rule, "bound stores in add_point (update helpers inlined)", n_stores, 18, semantic=False)


def _reach_all_some(v, g, R, holder, fmin, fmax):
    """blocks reachable when both bounds of the pair are known to be Some"""
    removed = []
    for sw, some_s, none_s in option_tests(v, R, lambda t_: tree_str(strip_deep(t_)) in ("arg1.%s.%s" % (holder, fmin), "arg1.%s.%s" % (holder, fmax))):
        if none_s != some_s:
            removed.append((sw, none_s))
    g2 = {a: [b_ for b_ in ss if (a, b_) not in removed] for a, ss in g.items()}
    return reach(g2, [0])


def orientation(ctx, prog, rule):
    if not (prog.has_fn("pc_writer::update_min") and prog.has_fn("pc_writer::update_max")):
        ctx.ob(rule, "orientation/inlined", True, "update_min / update_max do not exist as separate functions; the orientation of every bound store is decided inside add_point (bound-update/*)", nontrivial=False)
        return
    for name, cmp_name in (("update_min", "gt"), ("update_max", "lt")):
        f = prog.fn("pc_writer::" + name)
        ctx.fn_seen(f)
        R = Resolver(f)
        stores = [(bi, si) for n, ds in f.defs().items() for kind, payload, bi, si, place in ds if place["local"] == 2 and place["proj"] and place["proj"][-1]["k"] == "deref" and kind == "stmt" and bi in f.cfg()]
        okc = False
        for bi, t in f.calls(lambda c, t: c.rsplit("::", 1)[-1] in ("gt", "lt", "ge", "le")):
            op = callee_of(t).rsplit("::", 1)[-1]
            a, b = strip(R.operand(t["args"][0])), strip(R.operand(t["args"][1]))
            cur_first = ("param", 2) in leaves(a) and b == ("param", 1)
            val_first = a == ("param", 1) and ("param", 2) in leaves(b)
            want = cmp_name if cur_first else {"gt": "lt", "lt": "gt"}[cmp_name] if val_first else None
            be = bool_edges(f, bi)
            if want == op and be:
                sw, tr, fa = be
                r_t, r_f = reach(f.cfg(), [tr]), reach(f.cfg(), [fa])
                okc = any(b_ in r_t for b_, _ in stores) and not any(b_ in r_f for b_, _ in stores)
        # None arm stores too
        g = _assume_option(f, {"arg2": 0})
        okn = any(b_ in reach(g, [0]) for b_, _ in stores)
        # stored value is the value parameter
        okv = True
        for b_, s_ in stores:
            tv = strip(R.rvalue(f.blocks[b_]["stmts"][s_]["rv"]))
            okv = okv and tv[0] == "agg" and tv[1][2] == "Some" and strip(tv[2][0]) == ("param", 1)
        ctx.ob(rule, "orientation/%s" % name, okc and okn and okv and len(stores) >= 1,
               "%s replaces the bound exactly when current %s value, stores on None, stores the value itself: compare=%s none=%s value=%s stores=%d" % (name, ">" if cmp_name == "gt" else "<", okc, okn, okv, len(stores)))


def presence_sets(ctx, prog, rule):
    f = prog.fn(NEW)
    ctx.fn_seen(f)
    R = Resolver(f)
    agg = None
    for bi in f.cfg():
        for st in f.blocks[bi]["stmts"]:
            if is_variant_agg(st["rv"], "pc_writer::PointCloudWriter", "PointCloudWriter"):
                agg = dict(zip(st["rv"]["kind"]["fields"], st["rv"]["ops"]))
    if agg is None:
        ctx.ob(rule, "presence/new", False, "PointCloudWriter::new builds no PointCloudWriter")
        return
    import names as nm
    want = {"cartesian_bounds": ["CartesianX"], "spherical_bounds": ["SphericalAzimuth"], "index_bounds": ["ColumnIndex", "ReturnIndex", "RowIndex"]}
    for fld, names in want.items():
        t = strip(R.operand(agg[fld]))
        alts = t[1] if t[0] == "phi" else (t,)
        kinds = sorted(a[1][2] for a in alts if a[0] == "agg" and a[1][0] == "adt")
        # the Some(default) of this field is built only on the true side of a test whose value is a prototype lookup
        used = []
        tyname = fld.split("_")[0].capitalize()
        somes = [b for n, ds in f.defs().items() for kind, payload, b, si, place in ds
                 if kind == "stmt" and not place["proj"] and is_variant_agg(payload, "option::Option", "Some") and b in f.cfg()
                 and any(x[0] == "call" and ("bounds::%sBounds" % tyname) in x[1] and x[1].endswith("::default") for x in leaves(R.rvalue(payload)))]
        for bi in f.cfg():
            tt = f.blocks[bi]["term"]
            if tt["k"] != "switch":
                continue
            dl = op_place(tt["discr"])
            d = R.place(dl) if dl else None
            looked = nm.lookup_names(prog, f, d) if d is not None else None
            if not looked or not all(isinstance(x, str) for x in looked):
                continue
            e = switch_edges(f, bi)
            true_succ, false_succ = e.get("1", e["otherwise"]), e.get("0")
            if somes and false_succ is not None and all(s in reach(f.cfg(), [true_succ]) and s not in reach(f.cfg(), [false_succ]) for s in somes):
                used = sorted(looked)
        ctx.ob(rule, "presence/%s" % fld, kinds == ["None", "Some"] and used == names and set(used) <= set(WANT),
               "%s is Some(default) exactly when the prototype contains one of %s (documented %s); every such name is also updated in add_point" % (fld, used, names))


def _eq_consts(fn):
    R = Resolver(fn)
    out = []
    for bi, t in fn.calls(lambda c, t: c.rsplit("::", 1)[-1] in ("eq", "ne")):
        for a in t["args"][:2]:
            v = enum_const(R.operand(a))
            if v:
                out.append(v)
    return out


def default_limits(ctx, prog, rule):
    f = prog.fn(NEW)
    R = Resolver(f)
    import names as nm

    def record_of(t):
        """name of the record whose lookup produced this data type reference"""
        r = nm.lookup_names(prog, f, t)
        return r if r else None
    ok = False
    desc = ""
    for bi, t in f.calls(lambda c, t: c == "limits::ColorLimits::from_record_types"):
        recs = [record_of(R.operand(a)) for a in t["args"]]
        flds = [strip(R.operand(a)) for a in t["args"]]
        desc = str(recs)
        ok = recs == [["ColorRed"], ["ColorGreen"], ["ColorBlue"]] and all((x[0] == "field" and x[2] == "data_type") or any(y[0] == "field" and y[2] == "data_type" for y in leaves(x)) for x in flds)
    ctx.ob(rule, "default-limits/color-arguments", ok, "ColorLimits::from_record_types receives the data types of the records %s (must be ColorRed, ColorGreen, ColorBlue in this order)" % desc)
    # IntensityLimits::from_record_type(&rec.data_type) with rec = the Intensity record (inside a map closure or, after
    # combinator expansion, in the function itself)
    oki = okn = False
    for g in [f] + list(prog.closures_of(f)):
        Rg_ = Resolver(g)
        for bi, t in g.calls(lambda c, t: c == "limits::IntensityLimits::from_record_type"):
            a = strip(Rg_.operand(t["args"][0]))
            oki = a[0] == "field" and a[2] == "data_type"
            if g is f:
                okn = nm.lookup_names(prog, f, a) == ["Intensity"]
    if not okn:
        okn = any(nm.lookup_names(prog, f, R.operand(t["args"][0])) == ["Intensity"] for bi, t in f.calls(lambda c, t: c.endswith("Option::<T>::map")))
    ctx.ob(rule, "default-limits/intensity-argument", oki and okn, "IntensityLimits::from_record_type receives the data type of the Intensity record")
    # from_record_types: (x_min, x_max) <- x.limits()
    g = prog.fn("limits::ColorLimits::from_record_types")
    ctx.fn_seen(g)
    Rg = Resolver(g)
    v, vals = _agg_fields(strip(Rg.local(0)))
    want = {"red_min": ("arg1", "0"), "red_max": ("arg1", "1"), "green_min": ("arg2", "0"), "green_max": ("arg2", "1"), "blue_min": ("arg3", "0"), "blue_max": ("arg3", "1")}
    got = {}
    for k, t in vals.items():
        t = strip(t)
        if t[0] == "field" and strip(t[1])[0] == "call" and strip(t[1])[1] == "record::RecordDataType::limits":
            got[k] = (leaf_name(strip(t[1])[2][0]), t[2])
    ctx.ob(rule, "default-limits/color-fields", got == want, "ColorLimits fields <- limits() of: %s" % got)
    h = prog.fn("limits::IntensityLimits::from_record_type")
    ctx.fn_seen(h)
    v, vals = _agg_fields(strip(Resolver(h).local(0)))
    goti = {}
    for k, t in vals.items():
        t = strip(t)
        if t[0] == "field" and strip(t[1])[0] == "call" and strip(t[1])[1] == "record::RecordDataType::limits":
            goti[k] = (leaf_name(strip(t[1])[2][0]), t[2])
    ctx.ob(rule, "default-limits/intensity-fields", goti == {"intensity_min": ("arg1", "0"), "intensity_max": ("arg1", "1")}, "IntensityLimits fields <- %s" % goti)
    # RecordDataType::limits maps each variant to the same-variant RecordValue of its own min / max
    lm = prog.fn("record::RecordDataType::limits")
    ctx.fn_seen(lm)
    Rl = Resolver(lm)
    t = Rl.local(0)
    alts = t[1] if t[0] == "phi" else (t,)
    table = {}
    for a in alts:
        a = strip(a)
        if a[0] == "agg" and a[1][0] == "tuple":
            d = [tree_str(strip_deep(x)) for x in a[2]]
            for var in ("Single", "Double", "ScaledInteger", "Integer"):
                if ("arg1.%s.min" % var) in d[0]:
                    table[var] = d
    okl = set(table) == {"Single", "Double", "ScaledInteger", "Integer"}
    for var, d in table.items():
        if var in ("ScaledInteger", "Integer"):
            okl = okl and d == ["Option::Some{RecordValue::%s{arg1.%s.min}}" % (var, var), "Option::Some{RecordValue::%s{arg1.%s.max}}" % (var, var)]
        else:
            old_form = ("fn:RecordValue::%s" % var) in d[0] and ("arg1.%s.max" % var) in d[1] and ("fn:RecordValue::%s" % var) in d[1]
            new_form = ("RecordValue::%s(arg1.%s.min)" % (var, var)) in d[0].replace("{", "(").replace("}", ")") and ("RecordValue::%s(arg1.%s.max)" % (var, var)) in d[1].replace("{", "(").replace("}", ")")
            okl = okl and (old_form or new_form)
    ctx.ob(rule, "default-limits/limits-table", okl, "RecordDataType::limits: %s" % table)
    # setters overwrite the field finalize publishes
    for setter, fld in (("set_intensity_limits", "intensity_limits"), ("set_color_limits", "color_limits")):
        s = prog.fn(PCW + setter)
        ctx.fn_seen(s)
        Rs = Resolver(s)
        fa = field_assignments(s, "pc_writer::PointCloudWriter", fld)
        ok = len(fa) == 1 and strip(Rs.rvalue(fa[0][3])) == ("param", 2)
        ctx.ob(rule, "default-limits/setter/%s" % setter, ok, "%s stores its argument into self.%s" % (setter, fld))
    # PointCloud::xml_string emits limits iff all members are Some
    x = prog.fn("pointcloud::PointCloud::xml_string")
    ctx.fn_seen(x)
    Rx = Resolver(x)
    for callee, members in (("limits::ColorLimits::xml_string", ["red_min", "red_max", "green_min", "green_max", "blue_min", "blue_max"]), ("limits::IntensityLimits::xml_string", ["intensity_min", "intensity_max"])):
        sites = [bi for bi, t in x.calls(lambda c, t: c == callee)]
        guards = set()
        for bi, t in x.calls(lambda c, t: c.endswith("Option::<T>::is_some")):
            n = leaf_name(Rx.operand(t["args"][0])).rsplit(".", 1)[-1]
            be = bool_edges(x, bi)
            if be and sites:
                g = cfg_without_edges(x, [(be[0], be[1])])
                if sites[0] not in reach(g, [0]):
                    guards.add(n)
        # the same conjunction spelled `[&l.a, &l.b, ..].iter().all(|m| m.is_some())`
        for bi, t in x.calls(lambda c, t: c.rsplit("::", 1)[-1] == "all" and len(t["args"]) == 2):
            arr = [y for y in leaves(Rx.operand(t["args"][0])) if y[0] == "agg" and y[1][0] == "array"]
            cl = strip(Rx.operand(t["args"][1]))
            if not arr or not (cl[0] == "agg" and cl[1][0] == "closure" and cl[1][1] in prog.fns):
                continue
            h = prog.fns[cl[1][1]]
            Rh = Resolver(h)
            rt = strip(Rh.local(0))
            is_some = rt[0] == "call" and rt[1].endswith("Option::<T>::is_some") and any(y == ("param", 2) for y in leaves(rt))
            if not is_some:
                continue
            names_ = [leaf_name(e).rsplit(".", 1)[-1] for e in arr[0][2]]
            be = bool_edges(x, bi)
            if be and sites:
                g = cfg_without_edges(x, [(be[0], be[1])])
                if sites[0] not in reach(g, [0]):
                    guards |= set(names_)
        ctx.ob(rule, "default-limits/complete-only/%s" % short(callee), len(sites) == 1 and guards == set(members), "%s is emitted only when %s are all Some (found guards %s)" % (short(callee), members, sorted(guards)))


def validation_before_update(ctx, prog, rule):
    """no rejection (Error::invalid) of a point is reachable after a bound was updated or the point was stored."""
    f = prog.fn(ADD)
    R = Resolver(f)
    ups = [bi for bi, t in f.calls(lambda c, t: c in ("pc_writer::update_min", "pc_writer::update_max") or c.endswith("VecDeque::<T, A>::push_back"))]
    # the record counter is state too: a point that is rejected after it was counted leaves recordCount one too high
    counted = [bi for bi, si, kind, p in field_assignments(f, "pc_writer::PointCloudWriter", "point_count")]
    rej = [bi for bi, t in f.calls(lambda c, t: c == "error::Error::invalid")]
    after = reach(f.cfg(), [s for u in ups for s in f.cfg().get(u, [])] + [s for u in counted for s in f.cfg().get(u, [])])
    # a rejection in the very block that counted (after the store) does not occur: rejections are calls ending a block
    ups = ups + counted
    bad = [b for b in rej if b in after]
    ctx.ob(rule, "validate-then-update/add_point", not bad and len(rej) >= 3 and bool(ups),
           "%d rejection sites, %d state updates; rejections reachable after an update: %s" % (len(rej), len(ups), [f.file_line(b) for b in bad]),
           where=f.file_line(bad[0]) if bad else None)
