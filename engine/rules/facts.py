"""Producing and caching MIR fact files for /repo's *current working tree*.

The facts are produced by the rustc_private driver engine/mirfacts, injected with
RUSTC_WORKSPACE_WRAPPER under `cargo +nightly check`.  Nothing of /repo is executed.

Cache key = sha256 over every *.rs / *.toml / *.lock file below /repo (except target/ and
.git/) plus the driver binary, so an edited working tree is always re-analysed.
"""
import fcntl
import glob
import hashlib
import json
import os
import shutil
import subprocess
import sys
import time

VERIF = os.path.dirname(os.path.dirname(os.path.dirname(os.path.abspath(__file__))))
REPO = os.environ.get("VERIF_REPO", "/repo")
CACHE = os.path.join(VERIF, ".cache")
DRIVER = os.path.join(VERIF, "engine", "mirfacts", "target", "release", "mirfacts")
CONTROLS = os.path.join(VERIF, "controls")


class Unusable(Exception):
    """The check itself cannot run (build failure, anchor missing, control did not fire)."""


CONFIGS = {
    # name: (manifest dir, cargo args, crates to dump)
    "lib": (REPO, ["-p", "e57", "--lib"], ["e57"]),
    "lib_crc32c": (REPO, ["-p", "e57", "--lib", "--features", "crc32c"], ["e57"]),
    "tools": (REPO, ["-p", "e57-check-crc", "-p", "e57-extract-xml", "-p", "e57-unpack",
                     "-p", "e57-from-xyz", "-p", "e57-to-xyz"],
              ["e57_check_crc", "e57_extract_xml", "e57_unpack", "e57_from_xyz", "e57_to_xyz"]),
    "controls": (CONTROLS, ["-p", "controls", "--lib"], ["controls"]),
}


def _tree_hash(root):
    h = hashlib.sha256()
    files = []
    for dp, dns, fns in os.walk(root):
        dns[:] = sorted(d for d in dns if d not in ("target", ".git"))
        for fn in sorted(fns):
            if fn.endswith((".rs", ".toml", ".lock")):
                files.append(os.path.join(dp, fn))
    for f in files:
        h.update(os.path.relpath(f, root).encode())
        h.update(b"\0")
        with open(f, "rb") as fh:
            h.update(fh.read())
        h.update(b"\0")
    return h, len(files)


def source_key(cfg):
    root = CONFIGS[cfg][0]
    h, n = _tree_hash(root)
    if not os.path.exists(DRIVER):
        raise Unusable("driver not built: run MANIFEST.setup_cmd (%s missing)" % DRIVER)
    with open(DRIVER, "rb") as fh:
        h.update(hashlib.sha256(fh.read()).digest())
    return h.hexdigest()[:24], n


def _sysroot():
    return subprocess.check_output(["rustc", "+nightly", "--print", "sysroot"], text=True).strip()


def _prune_cache(keep):
    try:
        ents = [os.path.join(CACHE, d) for d in os.listdir(CACHE) if d.startswith("facts-")]
    except FileNotFoundError:
        return
    ents.sort(key=lambda p: os.path.getmtime(p), reverse=True)
    for p in ents[8:]:
        if os.path.basename(p) not in keep:
            shutil.rmtree(p, ignore_errors=True)


def produce(cfg, log=None):
    """Returns (list of fact file paths, info dict).  Rebuilds unless the cache entry for the
    current content hash exists."""
    root, cargo_args, crates = CONFIGS[cfg]
    key, nfiles = source_key(cfg)
    out_dir = os.path.join(CACHE, "facts-%s-%s" % (cfg, key))
    os.makedirs(CACHE, exist_ok=True)
    lock = open(os.path.join(CACHE, "lock-" + cfg), "w")
    fcntl.flock(lock, fcntl.LOCK_EX)
    try:
        want = [os.path.join(out_dir, "%s.%s.json" % (c, cfg)) for c in crates]
        info = {"config": cfg, "source_files_hashed": nfiles, "source_key": key, "cached": True}
        if all(os.path.exists(w) for w in want) and os.path.exists(os.path.join(out_dir, "OK")):
            os.utime(out_dir)
            return want, info
        info["cached"] = False
        shutil.rmtree(out_dir, ignore_errors=True)
        os.makedirs(out_dir)
        target = os.path.join(CACHE, "target-" + ("controls" if cfg == "controls" else "repo"))
        # force the wrapper to run again for workspace members (cargo's freshness cache would
        # silently skip it): delete their fingerprints, keep third-party dependencies compiled.
        members = ["e57", "e57-*", "controls"]
        for m in members:
            for fp in glob.glob(os.path.join(target, "debug", ".fingerprint", m + "-*")):
                base = os.path.basename(fp)
                # keep real third-party crates whose name merely starts with e57 (none today)
                shutil.rmtree(fp, ignore_errors=True)
        env = dict(os.environ)
        env.update({
            "LD_LIBRARY_PATH": _sysroot() + "/lib" + (":" + env["LD_LIBRARY_PATH"] if env.get("LD_LIBRARY_PATH") else ""),
            "RUSTFLAGS": "-Zmir-opt-level=0 -Awarnings",
            "RUSTC_WORKSPACE_WRAPPER": DRIVER,
            "MIRFACTS_OUT": out_dir,
            "MIRFACTS_CRATES": ",".join(crates),
            "MIRFACTS_TAG": cfg,
            "CARGO_TARGET_DIR": target,
            "CARGO_NET_OFFLINE": "true",
        })
        cmd = ["cargo", "+nightly", "check", "--offline", "--manifest-path", os.path.join(root, "Cargo.toml")] + cargo_args
        t0 = time.time()
        p = subprocess.run(cmd, env=env, stdout=subprocess.PIPE, stderr=subprocess.STDOUT, text=True, cwd=root)
        info["cargo_wall_s"] = round(time.time() - t0, 2)
        if p.returncode != 0:
            raise Unusable("cargo check failed for config %s (the tree does not compile?):\n%s" % (cfg, p.stdout[-4000:]))
        missing = [w for w in want if not os.path.exists(w)]
        if missing:
            raise Unusable("driver did not run for %s (missing %s)\n%s" % (cfg, missing, p.stdout[-2000:]))
        open(os.path.join(out_dir, "OK"), "w").write(key)
        _prune_cache({os.path.basename(out_dir)})
        return want, info
    finally:
        fcntl.flock(lock, fcntl.LOCK_UN)
        lock.close()


def load(cfg):
    paths, info = produce(cfg)
    crates = {}
    for p in paths:
        with open(p) as fh:
            d = json.load(fh)
        crates[d["crate"]] = d
    return crates, info


if __name__ == "__main__":
    for c in sys.argv[1:] or ["lib"]:
        paths, info = produce(c)
        print(c, info, [os.path.getsize(p) for p in paths])
