"""Rules for the bundled command line tools (C20)."""
import re

from mirlib import *
from proto import *
from cache_rules import strip_casts, const_val
from simple_rules import leaf_name
import io_rules


def _arrays(fn, R):
    out = []
    for bi in fn.cfg():
        for si, st in enumerate(fn.blocks[bi]["stmts"]):
            rv = st["rv"]
            if rv["k"] == "aggregate" and rv["kind"].get("agg") == "array":
                out.append((bi, si, [strip(R.operand(o)) for o in rv["ops"]]))
    return out


def check_crc(ctx, prog, rule):
    f = prog.fn("check_file")
    ctx.fn_seen(f)
    R = Resolver(f)
    # returned bool per arm of validate_crc
    v = [bi for bi, t in f.calls(lambda c, t: c.endswith("E57Reader::<T>::validate_crc"))]
    ctx.ob(rule, "validate-called/check_file", len(v) == 1, "check_file calls E57Reader::validate_crc once", nontrivial=False)
    trues = [bi for kind, payload, bi, si, place in f.defs().get(0, []) if kind == "stmt" and not place["proj"] and const_val(R.rvalue(payload)) == 1 and bi in f.cfg()]
    falses = [bi for kind, payload, bi, si, place in f.defs().get(0, []) if kind == "stmt" and not place["proj"] and const_val(R.rvalue(payload)) == 0 and bi in f.cfg()]
    ok = False
    if len(v) == 1:
        # the discriminant switch on validate_crc's result
        dest = f.blocks[v[0]]["term"]["dest"]["local"]
        for bi in f.cfg():
            t = f.blocks[bi]["term"]
            if t["k"] == "switch":
                dl = op_place(t["discr"])
                ds = f.whole_defs(dl["local"]) if dl else []
                if len(ds) == 1 and ds[0][0] == "stmt" and ds[0][1]["k"] == "discr" and ds[0][1]["place"]["local"] == dest:
                    e = switch_edges(f, bi)
                    ok_succ, err_succ = e.get("0", e["otherwise"]), e.get("1", e["otherwise"])
                    if ok_succ == err_succ:
                        continue
                    # `true` is returned only through the Ok edge; the Err edge returns false
                    g_ = cfg_without_edges(f, [(bi, ok_succ)])
                    no_ok = reach(g_, [0])
                    err_side = reach(f.cfg(), [err_succ])
                    ok = bool(trues) and all(b not in no_ok for b in trues) and any(b in err_side for b in falses) and not any(b in err_side and b not in reach(f.cfg(), [ok_succ]) for b in trues)
    if not ok and len(v) == 1 and trues:
        # the same under any spelling of the outcome test (combinator chains, `?`, is_ok()): assume the outcome
        from simple_rules import assume_result_of_call
        g_ok, g_err = assume_result_of_call(f, v[0], True), assume_result_of_call(f, v[0], False)
        r_ok, r_err = reach(g_ok, g_ok.get(v[0], [])), reach(g_err, g_err.get(v[0], []))
        before = reach(cfg_without_edges(f, [(v[0], s_) for s_ in f.cfg().get(v[0], [])]), [0])
        ok = any(b in r_ok for b in trues) and not any(b in r_err for b in trues) and any(b in r_err for b in falses) and not any(b in before and b != v[0] for b in trues)
    ctx.ob(rule, "verdict/check_file", ok and len(trues) == 1, "check_file returns true only in the Ok arm of validate_crc and false in the Err arm (and when the file cannot be opened): true sites %d, false sites %d" % (len(trues), len(falses)))
    # the reader handed to validate_crc is the opened file
    okf = False
    for bi in v:
        a = strip(R.operand(f.blocks[bi]["term"]["args"][0]))
        okf = "File::open" in tree_str(a) and "arg1" in tree_str(a)
    ctx.ob(rule, "input/check_file", okf, "validate_crc reads the file named by the argument")
    g = prog.fn("check_files")
    ctx.fn_seen(g)
    calls = [short(callee_of(t)) for bi, t in g.calls()]
    cl = prog.closures_of(g)
    okall = any(c.endswith("::all") for c in (callee_of(t) for bi, t in g.calls())) and any(callee_of(t) == "check_file" for c2 in cl for bi, t in c2.calls())
    if not okall:
        # the same conjunction as a loop: for f in files { if !check_file(f) { return false } } true
        import elems
        Rg = Resolver(g)
        trues_g = [bi for kind, payload, bi, si, place in g.defs().get(0, []) if kind == "stmt" and not place["proj"] and const_val(Rg.rvalue(payload)) == 1 and bi in g.cfg()]
        for bi, t in g.calls(lambda c, t: c == "check_file"):
            e_ = elems.elem_of(Rg.operand(t["args"][0]))
            if e_ is None or strip(e_[0]) != ("param", 1):
                continue
            for sw, tr, fa in bool_switches(g, bi):
                if fa is not None and trues_g and not any(b in reach(g.cfg(), [fa]) for b in trues_g) and all(b not in reach(cfg_without_edges(g, [(sw, tr)]), [0]) or True for b in trues_g):
                    # no `true` after a failed file, and `true` needs the loop to run out (every element passed)
                    okall = True
    ctx.ob(rule, "conjunction/check_files", okall, "directory mode is files.iter().all(check_file)")
    # which files the directory mode looks at: the extension test is case-insensitive (SCAN.E57 is an E57 file)
    lf = prog.fns.get("list_e57_files")
    if lf is not None:
        ctx.fn_seen(lf)
        Rl = Resolver(lf, max_depth=24)
        verdict, desc = None, "no comparison of the extension with \"e57\" found"
        for g_ in [lf] + list(prog.closures_of(lf)):
            Rg_ = Resolver(g_, max_depth=24) if g_ is not lf else Rl
            for bi, t in g_.calls(lambda c, t: c.rsplit("::", 1)[-1] in ("eq", "ne", "eq_ignore_ascii_case", "ends_with") and len(t["args"]) >= 2):
                ops = [Rg_.operand(a) for a in t["args"][:2]]
                lits = [strip(o) for o in ops]
                if not any(x[0] == "const" and isinstance(x[2], str) and x[2].lower().lstrip(".") == "e57" for x in lits):
                    continue
                c = callee_of(t)
                folded = c.endswith("eq_ignore_ascii_case") or any(y[0] == "call" and y[1].rsplit("::", 1)[-1] in ("to_ascii_lowercase", "to_lowercase", "to_ascii_uppercase", "to_uppercase", "make_ascii_lowercase") for o in ops for y in leaves(o))
                verdict = folded if verdict is None else (verdict and folded)
                desc = "%s(%s)" % (short(c), ", ".join(tree_str(strip_deep(o))[:60] for o in ops))
        ctx.ob(rule, "extension-case-insensitive/list_e57_files", verdict, "directory mode selects files by %s (the comparison must ignore case, otherwise *.E57 files are silently skipped and never checked)" % desc)
    m = prog.fn("main")
    ctx.fn_seen(m)
    Rm = Resolver(m)
    # main returns Err (bail!) iff !all_ok
    okm = False
    for bi in m.cfg():
        t = m.blocks[bi]["term"]
        if t["k"] == "switch":
            dl = op_place(t["discr"])
            d = strip(Rm.place(dl)) if dl else None
            if d is None:
                continue
            neg = d[0] == "unop" and d[1] == "Not"
            src = strip(d[2]) if neg else d
            if d[0] == "call" and d[1].rsplit("::", 1)[-1] == "not" and len(d[2]) == 1:
                neg, src = True, strip(d[2][0])       # anyhow::ensure!(cond) tests __private::not(cond)
            alts = src[1] if src[0] == "phi" else (src,)
            names = sorted(short(a[1]) if a[0] == "call" else tree_str(a)[:30] for a in alts)
            if names == ["check_file", "check_files"]:
                e = switch_edges(m, bi)
                bad, good = (e["otherwise"], e.get("0")) if neg else (e.get("0"), e["otherwise"])
                okm = m.ok_reachable(start=[bad]) is None and m.ok_reachable(start=[good]) is not None
    ctx.ob(rule, "exit-status/main", okm, "main fails (non-zero exit) exactly when the verdict of check_file / check_files is false")


def extract_xml(ctx, prog, rule):
    m = prog.fn("main")
    ctx.fn_seen(m)
    R = Resolver(m)
    outs = []
    for bi, t in m.calls():
        c = callee_of(t)
        if any(strip(R.operand(a))[0] == "call" and strip(R.operand(a))[1].endswith("io::stdout") or "stdout" in tree_str(strip(R.operand(a)))[:40] for a in t["args"][:1]):
            outs.append((bi, c, t))
    writes = [(bi, c, t) for bi, c, t in outs if c.rsplit("::", 1)[-1] in ("write_all", "write", "write_fmt", "print", "_print")]
    ok = len(writes) == 1 and writes[0][1].rsplit("::", 1)[-1] == "write_all"
    if ok:
        d = strip(R.operand(writes[0][2]["args"][1]))
        ok = d[0] == "call" and d[1].endswith("E57Reader::<T>::raw_xml")
    ctx.ob(rule, "stdout-is-raw-xml/main", ok, "the only bytes written to stdout are write_all(&E57Reader::raw_xml(file)) : %s" % [(short(c)) for _, c, _ in writes])
    prints = [bi for bi, t in m.calls(lambda c, t: c.endswith("::_print"))]
    ctx.ob(rule, "no-other-output/main", not prints, "no println! in the extraction tool (%d)" % len(prints), nontrivial=False)
    one = Program({"crate": prog.crate, "fns": [m.d], "adts": []})
    # a raw write() would have to be looped (shared rule C16-R2); write_all is the accepted idiom
    raw = [bi for bi, t in m.calls(lambda c, t: io_rules._is_raw_transfer(c) or c == "std::io::Write::write")]
    ctx.ob(rule, "no-raw-write/main", not raw, "no single Write::write call whose count could be ignored (%d)" % len(raw))
    # result of the write is returned
    br = [branch_of_call(m, bi) for bi, c, t in writes]
    fw = [1 for bi, si, cls, p in m.ret_assignments() if cls == "fwd"]
    ctx.ob(rule, "write-result-returned/main", bool(writes) and (all(b is not None for b in br) or bool(fw)), "a failed stdout write makes the tool fail")


def from_xyz(ctx, prog, rule):
    m = prog.fn("main")
    ctx.fn_seen(m)
    R = Resolver(m)
    arrays = _arrays(m, R)
    proto = None
    point = None
    point_block = None
    for bi, si, elems in arrays:
        if len(elems) == 6 and all(e[0] == "const" and "Record" in e[1] for e in elems):
            proto = [e[2] if isinstance(e[2], str) else tree_str(e) for e in elems]
        if len(elems) == 6 and all(e[0] == "agg" and e[1][0] == "adt" and e[1][1].endswith("RecordValue") for e in elems):
            point = elems
            point_block = bi
    # the point handed to add_point, however the vector was assembled (vec![..], array.into(), a.into_iter().chain(b).collect())
    def vec_elements(t, depth=0):
        t = strip(t)
        while t[0] in ("cast", "ref", "partial"):
            t = strip(t[2] if t[0] == "cast" else t[1])
        if depth > 8:
            return None
        if t[0] == "agg" and t[1][0] == "array":
            return [strip(e) for e in t[2]]
        if t[0] == "call" and t[2]:
            last = t[1].rsplit("::", 1)[-1].split("<")[0]
            if last in ("into_vec", "from", "to_vec", "into", "box_new", "new", "into_iter", "iter", "collect", "from_iter", "copied", "cloned"):
                return vec_elements(t[2][0], depth + 1)
            if last == "chain" and len(t[2]) == 2:
                a, b = vec_elements(t[2][0], depth + 1), vec_elements(t[2][1], depth + 1)
                return None if a is None or b is None else a + b
        return None
    for bi, t in m.calls(lambda c, t: c.endswith("PointCloudWriter::<'a, T>::add_point")):
        ve = vec_elements(R.operand(t["args"][1]))
        if ve is not None and len(ve) == 6 and all(e[0] == "agg" and e[1][0] == "adt" and e[1][1].endswith("RecordValue") for e in ve):
            point = ve
            if point_block is None:
                point_block = bi
    wantp = ["CARTESIAN_X_F32", "CARTESIAN_Y_F32", "CARTESIAN_Z_F32", "COLOR_RED_U8", "COLOR_GREEN_U8", "COLOR_BLUE_U8"]
    okp = proto is not None and all(w in p for w, p in zip(wantp, proto))
    ctx.ob(rule, "prototype/from-xyz", okp, "prototype constants in order: %s" % proto)
    okv = False
    desc = []
    if point:
        okv = True
        for i, e in enumerate(point):
            variant = e[1][2]
            v = e[2][0]
            casted = None
            for _ in range(4):
                if v[0] == "call" and v[1].endswith("::from") and "i64" in v[1] and len(v[2]) == 1:
                    casted = "i64"              # i64::from(x) == x as i64 for u8
                    v = v[2][0]
                    continue
                sv = strip(v)
                if sv[0] == "cast":
                    casted = sv[1]
                    v = sv[2]
                    continue
                v = sv
                break
            col, ty = None, None
            if v[0] == "call" and v[1].endswith("::parse"):
                ty = v[4][-1] if len(v) > 4 and v[4] else None
                import elems
                import bytesview
                e_ = elems.elem_of(v[2][0])
                if e_ is not None and not e_[1] and e_[2][0] == "idx":
                    col = bytesview.const_eval(e_[2][1])
            desc.append((variant, col, ty, casted))
            want = ("Single", i, "f32", None) if i < 3 else ("Integer", i, "u8", "i64")
            okv = okv and (variant, col, ty, casted) == want
    ctx.ob(rule, "columns/from-xyz", okv, "point values (variant, column, parse type, cast): %s (must be Single<-f32 columns 0,1,2 and Integer<-u8 as i64 columns 3,4,5)" % desc)
    # guard: lines with fewer than 6 columns are skipped
    okg = False

    def is_len(x):
        x = strip(x)
        return (x[0] == "call" and x[1].endswith("::len")) or (x[0] == "unop" and x[1] == "PtrMetadata")
    adds = [bi for bi, t in m.calls(lambda c, t: c.endswith("PointCloudWriter::<'a, T>::add_point"))]
    for bi in m.cfg():
        ot = order_test(m, R, bi)
        s_ok = succ_when_at_least(ot, is_len, 6) if ot is not None else None
        if s_ok is not None and adds:
            # points are only added on the "at least six columns" side
            g2 = cfg_without_edges(m, {(bi, s_ok)})
            okg = okg or not any(a in reach(g2, [0]) for a in adds) or (point_block is not None and point_block not in reach(g2, [0]))
    ctx.ob(rule, "short-lines/from-xyz", okg, "lines with fewer than six columns are skipped by a length test")
    # the line buffer is cleared on every iteration of the read loop
    loops = natural_loops(m)
    rl = [bi for bi, t in m.calls(lambda c, t: c.endswith("BufRead::read_line"))]
    cl = [bi for bi, t in m.calls(lambda c, t: c.endswith("String::clear"))]
    okc = False
    if rl and cl:
        heads = [h for h, body in loops.items() if rl[0] in body]
        if heads:
            h = min(heads, key=lambda x: len(loops[x]))
            body = loops[h]
            g = {b: [s for s in ss if s in body] for b, ss in m.cfg().items() if b in body}
            # from the read_line call, the next read_line is not reachable inside the loop without passing clear()
            nxt = find_path(g, g.get(rl[0], []), {rl[0]}, set(cl))
            okc = nxt is None
    ctx.ob(rule, "line-buffer-cleared/from-xyz", okc, "every iteration of the read loop clears the reused line buffer before the next read_line (otherwise a short line is glued to the next one)")
    # the colour limits stay the declared range of the u8 prototype: e57-to-xyz inverts the normalisation with x255, which
    # only returns the stored byte when limits = 0..255 (a limit override computed from the data stretches the colours)
    Rm = Resolver(m)
    overrides = []
    for bi, t in m.calls(lambda c, t: c.rsplit("::", 1)[-1] in ("set_color_limits", "set_intensity_limits")):
        consts = all(not any(y[0] in ("param", "local", "phi", "field", "partial", "index", "call", "binop", "unop") for y in leaves(Rm.operand(a))) for a in t["args"][1:])
        if not consts:
            overrides.append(m.file_line(bi))
    ctx.ob(rule, "limits-not-overridden/from-xyz", not overrides, "e57-from-xyz leaves the colour limits at the declared 0..255 range (limit overrides computed at run time: %s)" % overrides, nontrivial=False)
    # each point goes to add_point, both finalize calls are made and checked
    S = Steps(ctx, m, rule)
    S.step("add-point", calls_where(m, lambda c, t, R: c.endswith("PointCloudWriter::<'a, T>::add_point")))
    S.step("pc-finalize", calls_where(m, lambda c, t, R: c.endswith("PointCloudWriter::<'a, T>::finalize")))
    S.step("file-finalize", calls_where(m, lambda c, t, R: c.endswith("E57Writer::<T>::finalize")))
    S.must_pass("pc-finalize")
    S.must_pass("file-finalize")
    S.before("pc-finalize", "file-finalize")
    one = Program({"crate": prog.crate, "fns": [m.d], "adts": []})
    io_rules.no_dropped_results(ctx, one, rule, exceptions={}, floor=0)


def to_xyz(ctx, prog, rule):
    m = prog.fn("main")
    # the XYZ output goes through a BufWriter: every successful exit passes a checked flush of it
    import blob_rules
    nb = blob_rules.buffered_sinks_flushed(ctx, prog, rule, paths=("main",), label="to-xyz-output")
    ctx.floor(rule, "buffered output writers of e57-to-xyz", nb, 1, semantic=False)
    ctx.fn_seen(m)
    R = Resolver(m)
    # options
    opts = {}
    for bi, t in m.calls(lambda c, t: "PointCloudReaderSimple" in c and c.rsplit("::", 1)[-1] in ("spherical_to_cartesian", "cartesian_to_spherical", "intensity_to_color", "apply_pose", "normalize_color", "normalize_intensity")):
        opts[callee_of(t).rsplit("::", 1)[-1]] = const_val(R.operand(t["args"][1]))
    want = {"spherical_to_cartesian": 1, "cartesian_to_spherical": 0, "intensity_to_color": 1, "apply_pose": 1}
    ctx.ob(rule, "options/to-xyz", opts == want, "iterator options %s (documented %s; colour normalisation stays at its default: enabled)" % (opts, want))
    # coordinates: ryu format of x, y, z of CartesianCoordinate::Valid in this order
    fm = []
    import bytesview
    for bi, t in m.calls(lambda c, t: c.endswith("ryu::Buffer::format") or c.endswith("Buffer::format")):
        # one call per coordinate, or one call in a loop over the literal [x, y, z]
        for k, (inst,) in enumerate(bytesview.table_instances([R.operand(t["args"][1])])):
            fm.append((bi, leaf_name(inst), k))
    order = sorted(fm, key=lambda x: (sum(1 for y in fm if y[0] != x[0] and m.dominates(y[0], x[0])), x[2]))
    order = [(b_, n_) for b_, n_, _ in order]
    names = [n.rsplit(".", 1)[-1] for _, n in order]
    okf = names == ["x", "y", "z"] and all("cartesian.Valid" in n for _, n in order)
    ctx.ob(rule, "coordinates/to-xyz", okf, "coordinates written with ryu in the order %s from %s" % (names, [n for _, n in order]))
    # colours: (c * 255.) as u8 for red, green, blue in this order via plain {} placeholders
    import xmlgen
    okc = False
    desc = ""
    for bi, t in m.calls(lambda c, t: c.endswith("Write::write_fmt")):
        a = strip(R.operand(t["args"][1]))
        if a[0] == "call" and "Arguments" in a[1]:
            tpl = strip(a[2][0])
            args = strip(a[2][1])
            if tpl[0] == "const" and isinstance(tpl[2], tuple) and args[0] == "agg":
                toks = xmlgen.decode_template(tpl[2])
                lits = "".join(x[1] if x[0] == "lit" else "{}" for x in toks)
                plain = all(xmlgen.plain_spec(x[1]) for x in toks if x[0] == "ph")
                chans = []
                for e in args[2]:
                    e = strip(e)
                    v = strip(e[2][0]) if e[0] == "call" else e
                    # `let rgb = [r, g, b].map(|c| (c * 255.) as u8); .. rgb[0], rgb[1], rgb[2]`: the k-th element
                    for _ in range(3):
                        if v[0] == "index" and const_val(v[2]) is not None:
                            base = strip(v[1])
                            while base[0] in ("partial", "ref"):
                                base = strip(base[1])
                            if base[0] == "agg" and base[1][0] == "array" and const_val(v[2]) < len(base[2]):
                                v = strip(base[2][const_val(v[2])])
                                continue
                        break
                    if v[0] == "cast" and v[1] == "u8":
                        mul = strip(v[2])
                        if mul[0] == "binop" and mul[1] == "Mul":
                            import struct
                            k = const_val(mul[3])
                            kf = struct.unpack("<f", struct.pack("<I", k))[0] if k is not None else None
                            chans.append((leaf_name(mul[2]).rsplit(".", 1)[-1], kf))
                desc = "%r %s" % (lits, chans)
                okc = lits == " {} {} {}" and plain and chans == [("red", 255.0), ("green", 255.0), ("blue", 255.0)]
    ctx.ob(rule, "colours/to-xyz", okc, "colour columns: %s (must be ' {} {} {}' of (red*255) as u8, (green*255) as u8, (blue*255) as u8)" % desc)
    one = Program({"crate": prog.crate, "fns": [m.d], "adts": []})
    io_rules.no_dropped_results(ctx, one, rule, exceptions={}, floor=0)


def unpack(ctx, prog, rule):
    m = prog.fn("main")
    ctx.fn_seen(m)
    R = Resolver(m)
    used = collections.Counter()
    for p, f in prog.fns.items():
        for bi, t in f.calls():
            c = callee_of(t)
            if c.startswith("e57::E57Reader"):
                used[c.rsplit("::", 1)[-1]] += 1
    need = {"xml": 1, "blob": 4, "pointcloud_raw": 1, "pointclouds": 1, "images": 1}
    ok = all(used.get(k, 0) >= v for k, v in need.items())
    ctx.ob(rule, "sources/unpack", ok, "unpack takes its output from E57Reader::%s (needs xml, pointclouds, pointcloud_raw, images and blob for preview/mask/projection/mask)" % dict(used))
    # every exported blob goes to a file of its own: the file name expressions of the blob() calls are pairwise different
    import xmlgen
    names = []
    for p, f in prog.fns.items():
        Rf = Resolver(f, max_depth=40)
        for bi, t in f.calls(lambda c, t: c.startswith("e57::E57Reader") and c.endswith("::blob")):
            w = Rf.operand(t["args"][2])
            sig = None
            for x in leaves(w):
                if x[0] == "call" and x[1].endswith("File::create") and x[2]:
                    for y in leaves(x[2][0]):
                        toks = xmlgen._format_tokens(f.path, y) if y[0] == "call" else None
                        if toks:
                            def sig_of(tl):
                                return "".join(tk[1] if tk[0] == "lit" else "(%s)" % "|".join(sorted(sig_of(a) for a in tk[1])) if tk[0] == "alt"
                                               else "{%s}" % tree_str(strip_deep(tk[1]))[:80] for tk in tl)
                            sig = sig_of(toks)
                            break
                    break
            names.append((short(p), f.file_line(bi), sig))
    sigs = [n[2] for n in names]
    okn = len(names) >= 4 and all(s_ is not None for s_ in sigs) and len(set(sigs)) == len(sigs)
    ctx.ob(rule, "blob-files-distinct/unpack", okn, "each E57Reader::blob() call writes to its own file name: %s" % sigs)
    # xml written unmodified
    okx = False
    for p, f in prog.fns.items():
        Rf = Resolver(f)
        for bi, t in f.calls(lambda c, t: c.endswith("Write::write_all") or c.endswith("fs::write")):
            for a in t["args"]:
                x = strip(Rf.operand(a))
                if x[0] == "call" and x[1].endswith("E57Reader::<T>::xml"):
                    okx = True
    ctx.ob(rule, "xml-unmodified/unpack", okx, "the XML file receives exactly E57Reader::xml()")
    for p, f in sorted(prog.fns.items()):
        if f.kind == "Closure" or p == "main":
            one = Program({"crate": prog.crate, "fns": [f.d], "adts": []})
            io_rules.no_dropped_results(ctx, one, rule, exceptions={}, floor=0)
