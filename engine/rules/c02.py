"""C02 — every finalized file is a well-formed E57 file by an independent decoder (DESIGN §4 C02)."""
from mirlib import *
import layout_rules
import xml_rules
import header_rules
import pcw_rules
import blob_rules
import page_rules
import crc_rules
import codec_rules
import bounds_rules

TECHNIQUE = "independent tables instead of an independent decoder: binary layout tables and XML vocabulary written from the standard are compared with the tables extracted from the writer's MIR (byte ranges, widths, endianness, ids, length conventions; parent/element/E57-type triples of the maximal XML skeleton); skeleton well-formedness by tokenisation; header/section patch dataflow; page sealing rules"
EXPLANATION = (
    "Decides that the writer's byte layouts of file header, compressed-vector and blob section headers and data packet "
    "header equal the table written from the standard (and the reader's), including section ids, the length-minus-one "
    "convention and section lengths that cover their own header; that every element the serialisers can emit, with its "
    "type attribute, is in the standard's vocabulary under that parent, that the maximal document skeleton is balanced XML "
    "with the E57 default namespace and one xmlns per extension; that the file header is patched last with "
    "physical_position/len/physical_size values; that data_offset and blob offsets come from physical_position, section and "
    "packet lengths are accounted with the value written into the headers, every packet and blob is followed by align; and "
    "that every page written to the device is sealed with the big-endian CRC of its payload. The built-in checksum is the CRC-32C shape of C07-R5 over the whole payload slice. The writer side of the metadata maps (every descriptor field serialised under its own tag from the field of that name, C04-R1/R2). Not decided: decoding the "
    "file with an independent implementation and equality of the decoded content (run-time).")


def run(ctx):
    ctx.rule("R1", "binary layouts: writer table = reader table = table from the standard (6 structures), ids, length conventions")
    ctx.rule("R2", "XML vocabulary: every (parent, element, E57 type) the writer can emit is in the table from the standard; prototype names are the standard ones")
    ctx.rule("R3", "the maximal XML skeleton is well-formed, carries the E57 default namespace and one xmlns:prefix per extension")
    ctx.rule("R4", "file header: xml offset/length/physical length dataflow, written last after the XML was flushed")
    ctx.rule("R5", "sections: data_offset provenance, packet/section length accounting, blob protocol with section length = header + data padded to 4, align after packets and blobs, section header patched at its start")
    ctx.rule("R7", "decoded metadata equals what was handed over: every descriptor field is written under its own tag from the field of that name (shared with C04-R1/R2/R4)")
    ctx.rule("R6", "pages: sealed with the big-endian CRC before every device write; seeks flush first; constants 1024/1020/4 agree")
    for cfg in ["lib", "lib_crc32c"]:
        prog, info = load_program(cfg, "e57")
        ctx.configs[cfg] = info
        ctx.cfg = cfg
        ctx.call(layout_rules.layouts, prog, "R1")
        if cfg == "lib":
            ctx.call(xml_rules.vocabulary, prog, "R2", "R3")
            ctx.call(xml_rules.record_name_tables, prog, "R2")
            ctx.call(xml_rules.type_attributes, prog, "R2")
            ctx.call(xml_rules.inverse_maps, prog, "R7", "R7", "R7")
            ctx.call(xml_rules.escaping_gate, prog, "R3")
        ctx.call(header_rules.publication_order, prog, "R4")
        ctx.call(pcw_rules.data_offset_provenance, prog, "R5")
        ctx.call(pcw_rules.packet_rules, prog, "R5", "R5", "R5")
        ctx.call(pcw_rules.finalize_protocol, prog, "R5")
        ctx.call(pcw_rules.accept_once, prog, "R5")
        ctx.call(bounds_rules.validation_before_update, prog, "R5")
        ctx.call(blob_rules.write_protocol, prog, "R5")
        if cfg == "lib":
            ctx.call(codec_rules.stored_form, prog, "R5")
            ctx.call(codec_rules.add_bits_shape, prog, "R5")
        ctx.call(page_rules.seal_before_emit, prog, "R6", "table" if cfg == "lib" else "crate")
        ctx.call(page_rules.flush_before_seek, prog, "R6")
        ctx.call(page_rules.reload_after_advance, prog, "R6")
        ctx.call(page_rules.flush_protocol, prog, "R6")
        ctx.call(page_rules.constants_agree, prog, "R6")
        ctx.call(page_rules.read_current_page_shape, prog, "R6")
        if cfg == "lib":
            ctx.call(crc_rules.crc32c_shape, prog, "R6")
    ctx.cfg = None
