"""Binary layout tables (C02-R1 / C03-R1): writer table = reader table = spec/layouts.json."""
import json
import os
import re

from mirlib import *
from cache_rules import strip_casts, const_val, slice_of
from facts import VERIF, Unusable
from bytesview import byteview, const_eval, table_instances

SPEC = json.load(open(os.path.join(VERIF, "spec", "layouts.json")))


def _int_ty(callee):
    m = re.search(r"<impl (u8|u16|u32|u64|i64|usize)>::(from|to)_le_bytes", callee)
    return m.group(1) if m else None


def _is_item(t):
    t = strip(t)
    while t[0] in ("cast", "ref"):
        t = strip(t[2] if t[0] == "cast" else t[1])
    return t[0] == "call" and t[1].rsplit("::", 1)[-1] == "next"


def _range_consts(t):
    bv = byteview(t)
    if bv is None and any(y[0] == "call" and y[1].rsplit("::", 1)[-1] == "next" and "Chunks" in y[1] for y in leaves(t)):
        raise Unusable("layout: header bytes are taken from a chunk iterator whose position cannot be determined statically")
    if bv and _is_item(bv[0]):
        raise Unusable("layout: header bytes are taken from an iterator item whose position cannot be determined statically")
    x = strip_casts(t) if strip_casts(t)[0] != "cast" else t
    if bv and bv[2] is not None and (bv[1], bv[2]) != (0, None) and (slice_of(x) is not None or _is_item(x)):
        return bv[1], bv[2], strip(bv[0])
    return None


def reader_fields(fn, buf_bias=0):
    """for the aggregate(s) built in a read function: field -> (lo, hi, ty, adjust) with absolute offsets
    (buf_bias = bytes consumed before the buffer, e.g. the packet type byte)."""
    R = Resolver(fn)
    out = {}
    import bytesview
    bytesview.CONTEXT_FN[0] = fn
    for bi in fn.cfg():
        for st in fn.blocks[bi]["stmts"]:
            rv = st["rv"]
            if rv["k"] != "aggregate" or rv["kind"].get("agg") != "adt" or "::" not in rv["kind"]["adt"] or rv["kind"]["adt"].startswith("std::"):
                continue
            for name, op in zip(rv["kind"]["fields"], rv["ops"]):
                t = R.operand(op)
                info = _decode_read(t)
                if info and info[0] is not None and info[1] is not None:
                    lo, hi, ty, adj = info
                    out[name] = (lo + buf_bias, hi + buf_bias, ty, adj)
    return out


def _decode_read(t):
    adj = ""
    x = strip(t)
    # x = (from_le_bytes(...) as u64) + 1  |  from_le_bytes(...)  |  buf[i]  |  buf[i] & 1 != 0 | try_into(buf[0..8])
    widened = False
    for _ in range(4):
        if x[0] == "cast":
            widened = True
            x = strip(x[2])
        elif x[0] == "binop" and x[1] == "Add" and const_val(x[3]) is not None:
            # `(len16 + 1) as u64` adds in the narrow type (0xFFFF + 1 overflows), `len16 as u64 + 1` does not
            adj += "+%d%s" % (const_val(x[3]), "(before widening)" if widened else "")
            x = strip(x[2])
        elif x[0] == "binop" and x[1] == "Ne" and const_val(x[3]) == 0:
            x = strip(x[2])
            adj += "!=0"
        elif x[0] == "binop" and x[1] == "BitAnd" and const_val(x[3]) is not None:
            adj += "&%d" % const_val(x[3])
            x = strip(x[2])
        else:
            break
    if x[0] == "call" and _int_ty(x[1]) and x[1].endswith("from_le_bytes"):
        r = _range_consts(x[2][0])
        if r and r[0] is not None:
            return r[0], r[1], _int_ty(x[1]), adj
        # from_le_bytes([buf[k], buf[k + 1], ..]): consecutive bytes in ascending order
        arr = strip_casts(x[2][0])
        if arr[0] == "agg" and arr[1][0] == "array" and arr[2]:
            pos = []
            for o in arr[2]:
                o = strip(o)
                if o[0] == "index" and const_eval(o[2]) is not None:
                    bv = byteview(o[1])
                    pos.append(((bv[1] if bv else 0) + const_eval(o[2]), tree_str(strip(bv[0])) if bv else None))
                else:
                    pos = None
                    break
            if pos and all(pos[i][0] == pos[0][0] + i and pos[i][1] == pos[0][1] for i in range(len(pos))):
                return pos[0][0], pos[0][0] + len(pos), _int_ty(x[1]), adj
            return None
        # an open-ended view (`buf.split_at(8).1`, `&buf[8..]`) converted to [u8; N]: the conversion only succeeds
        # for exactly N bytes, so the field is lo .. lo + N
        bv = byteview(x[2][0])
        size = {"u8": 1, "u16": 2, "u32": 4, "u64": 8, "i64": 8, "usize": 8}.get(_int_ty(x[1]))
        if bv and bv[2] is None and bv[1] > 0 and size:
            return bv[1], bv[1] + size, _int_ty(x[1]), adj
        # from_le_bytes of a whole small array (get_u64 style)
        return None
    if x[0] == "index" and const_eval(x[2]) is not None:
        bv = byteview(x[1])
        root = strip(bv[0]) if bv else strip(x[1])
        while root[0] in ("partial", "ref"):
            root = strip(root[1])
        if root[0] == "repeat" and strip(root[1])[0] == "const" and strip(root[1])[1] not in ("u8", "?"):
            # `words[1]` of a [u64; 4] that a loop decodes from the buffer: an element of a derived table, not a header byte
            raise Unusable("layout: a header field is taken from an intermediate array of %s values filled in a loop; the byte positions cannot be extracted" % strip(root[1])[1])
        off = (bv[1] if bv else 0) + const_eval(x[2])
        return off, off + 1, "u8", adj
    r = _range_consts(x)
    if r and r[0] is not None:
        return r[0], r[1], "bytes", adj
    return None


def writer_fields_buffer(fn):
    """writers that fill a local byte array: buf[i] = v / buf[a..b].copy_from_slice(x.to_le_bytes()) -> field/const -> (lo,hi,ty,adj)"""
    R = Resolver(fn)
    out = {}
    computed_store = False
    for n, ds in fn.defs().items():
        for kind, payload, bi, si, place in ds:
            if kind != "stmt" or not place["proj"] or bi not in fn.cfg():
                continue
            last = place["proj"][-1]
            if last["k"] in ("index", "cidx"):
                idx = const_eval(R.local(last["local"])) if last["k"] == "index" else last["off"]
                v = strip(R.rvalue(payload))
                name, adj = _source_name(v)
                if idx is not None:
                    out[name] = (idx, idx + 1, "u8", adj)
                elif "u8" in fn.local_ty(place["local"]):
                    computed_store = True
    for bi, t in fn.calls(lambda c, t: c.endswith("copy_from_slice")):
        for dtree, stree in table_instances([R.operand(t["args"][0]), R.operand(t["args"][1])]):
            dst = _range_consts(dtree)
            src = strip_casts(stree)
            if dst is None or dst[0] is None:
                raise Unusable("layout: %s writes header bytes at a position that is not a compile-time constant; the layout table cannot be extracted" % short(fn.path))
            if src[0] == "call" and src[1].endswith("to_le_bytes"):
                name, adj = _source_name(strip(src[2][0]))
                out[name] = (dst[0], dst[1], _int_ty(src[1]), adj)
    # element-wise copy: for (dst, src) in buf[a..].iter_mut().zip(x.to_le_bytes()) { *dst = src }
    import elems
    from panic_rules import _static_len
    for n, ds in fn.defs().items():
        for kind, payload, bi, si, place in ds:
            if kind != "stmt" or bi not in fn.cfg() or len(place["proj"]) != 1 or place["proj"][0]["k"] != "deref":
                continue
            tr = R.local(place["local"])
            tr = tr[1] if tr[0] == "partial" else tr
            de, se = elems.elem_of(tr), elems.elem_of(R.rvalue(payload))
            if de is None or se is None or de[1] or se[1] or not elems.same_position(de, se) or de[2][0] != "next":
                continue
            src = strip_casts(se[0])
            while src[0] == "call" and src[1].rsplit("::", 1)[-1] in ("into_iter", "iter") and src[2]:
                src = strip_casts(src[2][0])
            dv = de[0]
            while dv[0] == "call" and dv[1].rsplit("::", 1)[-1] in ("iter_mut",) and dv[2]:
                dv = dv[2][0]
            bv = byteview(dv)
            if not (src[0] == "call" and src[1].endswith("to_le_bytes") and _int_ty(src[1])) or bv is None:
                continue
            size = {"u8": 1, "u16": 2, "u32": 4, "u64": 8, "i64": 8, "usize": 8}[_int_ty(src[1])]
            end = bv[2] if bv[2] is not None else _static_len(bv[0])
            if end is None:
                raise Unusable("layout: %s copies header bytes element-wise into a view of unknown length" % short(fn.path))
            name, adj = _source_name(strip(src[2][0]))
            out[name] = (bv[1], min(end, bv[1] + size), _int_ty(src[1]), adj)      # zip stops at the shorter side
    if computed_store and not any(v[2] in ("u16", "u32", "u64") for v in out.values()):
        raise Unusable("layout: %s stores header bytes at computed positions (a loop over the byte index); the layout table cannot be extracted" % short(fn.path))
    # the whole header as one array literal: [ID, flags, len[0], len[1], ...]
    for bi in fn.cfg():
        for st in fn.blocks[bi]["stmts"]:
            rv = st["rv"]
            if rv["k"] == "aggregate" and rv["kind"].get("agg") == "array" and len(rv["ops"]) >= 2 and "u8" in str(rv["kind"].get("ty", "u8")):
                k = 0
                ops = [strip(R.operand(o)) for o in rv["ops"]]
                while k < len(ops):
                    x = ops[k]
                    if x[0] == "index" and strip_casts(x[1])[0] == "call" and strip_casts(x[1])[1].endswith("to_le_bytes") and const_eval(x[2]) == 0:
                        src = strip_casts(x[1])
                        n = 1
                        while k + n < len(ops) and ops[k + n][0] == "index" and strip_casts(ops[k + n][1]) == src and const_eval(ops[k + n][2]) == n:
                            n += 1
                        name, adj = _source_name(strip(src[2][0]))
                        out[name] = (k, k + n, _int_ty(src[1]), adj)
                        k += n
                        continue
                    name, adj = _source_name(x)
                    out[name] = (k, k + 1, "u8", adj)
                    k += 1
    return out


def _source_name(v):
    adj = ""
    x = v
    for _ in range(4):
        if x[0] == "cast":
            x = strip(x[2])
        elif x[0] == "binop" and x[1] == "Sub" and const_val(x[3]) is not None:
            adj += "-%d" % const_val(x[3])
            x = strip(x[2])
        else:
            break
    sf = self_field(x)
    if sf:
        return sf, adj
    if x[0] == "const":
        return "const:%s" % x[2], adj
    if x[0] == "phi":
        alts = sorted(str(const_val(a)) for a in x[1])
        return "flags(%s)" % "|".join(alts), adj
    return tree_str(x), adj


def writer_fields_sequence(fn):
    """writers that emit write_all(x.to_le_bytes()) one after the other (Header::write): ordered by dominance."""
    R = Resolver(fn)
    calls = []
    order = 0
    for bi, t in fn.calls(lambda c, t: c.endswith("Write::write_all")):
        for (dtree,) in table_instances([R.operand(t["args"][1])]):
            d = strip_casts(dtree)
            order += 1
            if d[0] == "call" and d[1].endswith("to_le_bytes"):
                calls.append((bi, self_field(strip(d[2][0])), _int_ty(d[1]), order))
            else:
                sf = self_field(d)
                calls.append((bi, sf, "bytes", order))
    calls.sort(key=lambda c: (sum(1 for o in calls if o[0] != c[0] and fn.dominates(o[0], c[0])), c[3]))
    out = {}
    off = 0
    sizes = {"u8": 1, "u16": 2, "u32": 4, "u64": 8}
    for bi, name, ty, _order in calls:
        size = sizes.get(ty)
        if size is None:
            # byte array field: take its length from the ADT type
            size = 8
        out[name] = (off, off + size, ty, "")
        off += size
    return out, off


def _cmp(ctx, rule, key, got, want, side, where=None):
    """want: dict name -> [lo,hi,ty]; got: dict name -> (lo,hi,ty,adj)"""
    g = {k: list(v[:3]) for k, v in got.items()}
    ok = all(k in g and g[k] == v for k, v in want.items())
    ctx.ob(rule, "layout/%s/%s" % (key, side), ok, "%s table %s; spec %s" % (side, {k: got[k] for k in sorted(got)}, want), where=where)
    return ok


def layouts(ctx, prog, rule):
    n_struct, n_fields = 0, 0
    # ---- file header
    spec = SPEC["file_header"]
    fr = prog.fn("header::Header::read")
    fw = prog.fn("header::Header::write")
    ctx.fn_seen(fr)
    ctx.fn_seen(fw)
    r = reader_fields(fr)
    w, total = writer_fields_sequence(fw)
    want = {k: v for k, v in spec["fields"].items()}
    _cmp(ctx, rule, "file_header", r, want, "reader", "src/header.rs")
    _cmp(ctx, rule, "file_header", w, want, "writer", "src/header.rs")
    ctx.ob(rule, "layout/file_header/size", total == spec["size"], "Header::write emits %d bytes (spec %d)" % (total, spec["size"]), nontrivial=False)
    n_struct += 1
    n_fields += len(want)
    # reader validation constants
    consts = _validated_consts(fr, r)
    # no constant test at all found on an error-guarding switch: the validation is spelled in a way this rule does not
    # read (a table of computed comparisons): undecided, not a violation
    ctx.ob(rule, "layout/file_header/validated-constants", (consts == spec["constants"]) if consts else None, "Header::read rejects everything but %s (spec %s)" % (consts, spec["constants"]))
    # ---- compressed vector section header
    spec = SPEC["cv_section_header"]
    fr = prog.fn("cv_section::CompressedVectorSectionHeader::read")
    fw = prog.fn("cv_section::CompressedVectorSectionHeader::write")
    ctx.fn_seen(fr)
    ctx.fn_seen(fw)
    _cmp(ctx, rule, "cv_section_header", reader_fields(fr), spec["fields"], "reader", "src/cv_section.rs")
    _cmp(ctx, rule, "cv_section_header", writer_fields_buffer(fw), spec["fields"], "writer", "src/cv_section.rs")
    d = prog.fn("<cv_section::CompressedVectorSectionHeader as std::default::Default>::default")
    t = strip(Resolver(d).local(0))
    sid = const_val(dict(zip(t[1][3], t[2]))["section_id"]) if t[0] == "agg" else None
    rid = _validated_consts(fr, reader_fields(fr)).get("section_id")
    ctx.ob(rule, "layout/cv_section_header/id", sid == spec["id"] and rid == spec["id"], "section id written %s, required by the reader %s (spec %d)" % (sid, rid, spec["id"]))
    n_struct += 1
    n_fields += len(spec["fields"])
    # ---- blob section header
    spec = SPEC["blob_section_header"]
    fr = prog.fn("blob::BlobSectionHeader::from_array")
    fw = prog.fn("blob::BlobSectionHeader::to_writer")
    ctx.fn_seen(fr)
    ctx.fn_seen(fw)
    r = reader_fields(fr)
    w = writer_fields_buffer(fw)
    want = {"section_length": spec["fields"]["section_length"]}
    _cmp(ctx, rule, "blob_section_header", r, want, "reader", "src/blob.rs")
    _cmp(ctx, rule, "blob_section_header", w, want, "writer", "src/blob.rs")
    # id byte: reader checks buffer[0] == 0, writer leaves the zero-initialised array untouched at [0]
    Rw = Resolver(fw)
    zero_init = any(st["rv"]["k"] == "repeat" and const_val(Rw.operand(st["rv"]["a"])) == 0 and st["rv"]["n"].strip().startswith("16") for bi in fw.cfg() for st in fw.blocks[bi]["stmts"])
    ctx.ob(rule, "layout/blob_section_header/id", zero_init and not any(v[0] == 0 for v in w.values()), "writer emits a zeroed 16-byte header with only the length filled in (id 0)")
    n_struct += 1
    n_fields += 2
    # ---- packets
    for key, ty, bias in (("data_packet_header", "DataPacketHeader", 1), ("index_packet_header", "IndexPacketHeader", 1), ("ignored_packet_header", "IgnoredPacketHeader", 1)):
        spec = SPEC[key]
        fr = prog.fn("packet::%s::read" % ty)
        ctx.fn_seen(fr)
        r = reader_fields(fr, bias)
        want = {"packet_length": spec["fields"]["packet_length_minus_1"]}
        if key == "data_packet_header":
            want["bytestream_count"] = spec["fields"]["bytestream_count"]
            want["comp_restart_flag"] = spec["fields"]["flags"]
        _cmp(ctx, rule, key, r, want, "reader", "src/packet.rs")
        adj = r.get("packet_length", (0, 0, "", ""))[3]
        ctx.ob(rule, "layout/%s/length-plus-one" % key, adj == "+1", "reader converts packetLogicalLengthMinus1 with '%s' (must be +1)" % adj)
        # buffer size = header size - type byte
        Rr = Resolver(fr)
        reps = [st["rv"]["n"].strip() for bi in fr.cfg() for st in fr.blocks[bi]["stmts"] if st["rv"]["k"] == "repeat"]
        ctx.ob(rule, "layout/%s/size" % key, any(x.startswith(str(spec["size"] - 1)) for x in reps), "reader consumes %s bytes after the type byte (spec header size %d)" % (reps, spec["size"]), nontrivial=False)
        n_struct += 1
        n_fields += len(want)
    fw = prog.fn("packet::DataPacketHeader::write")
    ctx.fn_seen(fw)
    w = writer_fields_buffer(fw)
    spec = SPEC["data_packet_header"]
    want = {"packet_length": spec["fields"]["packet_length_minus_1"], "bytestream_count": spec["fields"]["bytestream_count"]}
    _cmp(ctx, rule, "data_packet_header", w, want, "writer", "src/packet.rs")
    ctx.ob(rule, "layout/data_packet_header/length-minus-one", w.get("packet_length", (0, 0, "", ""))[3] == "-1", "writer stores packet_length %s (must be -1)" % (w.get("packet_length", (0, 0, "", "?"))[3]))
    idb = [k for k, v in w.items() if v[0] == 0]
    ctx.ob(rule, "layout/data_packet_header/id", idb == ["const:1"], "byte 0 of a data packet is %s (spec id 1)" % idb)
    flags = [k for k, v in w.items() if v[0] == 1]
    ctx.ob(rule, "layout/data_packet_header/flags", len(flags) == 1 and (flags[0].startswith("flags(") or flags[0] == "comp_restart_flag"), "byte 1 of a data packet is %s" % flags, nontrivial=False)
    ctx.floor(rule, "binary structures compared", n_struct, 6)
    ctx.floor(rule, "binary fields compared", n_fields, 16)


def _validated_consts(fn, table):
    """field -> constant the reader insists on (the other branch cannot reach an Ok return)."""
    R = Resolver(fn)
    import bytesview
    bytesview.CONTEXT_FN[0] = fn
    by_off = {(v[0], v[1]): k for k, v in table.items()}

    def name_of(t):
        t = strip(t)
        if t[0] == "field":
            return t[2]
        info = _decode_read(t)
        if info:
            return by_off.get((info[0], info[1]))
        return None
    out = {}
    for bi in fn.cfg():
        t = fn.blocks[bi]["term"]
        if t["k"] == "switch":
            dl = op_place(t["discr"])
            d = strip(R.place(dl)) if dl else None
            if d and d[0] == "binop" and d[1] in ("Ne", "Eq"):
                for a, b in ((d[2], d[3]), (d[3], d[2])):
                    n = name_of(a)
                    if n and const_val(b) is not None:
                        e = switch_edges(fn, bi)
                        bad = e["otherwise"] if d[1] == "Ne" else e.get("0")
                        if fn.ok_reachable(start=[bad]) is None:
                            out[n] = const_val(b)
    # match (id, ..) { (1, ..) => .., _ => Err }: the value the only Ok-reaching case insists on
    for bi in fn.cfg():
        te = int_test_edges(fn, R, bi)
        if te is None:
            continue
        val, cases, others = te
        n = name_of(val)
        if not n or n in out:
            continue
        for k, succ in cases.items():
            rest = list(others) + [s2 for k2, s2 in cases.items() if k2 != k]
            if rest and all(fn.ok_reachable(start=[s2]) is None for s2 in rest) and fn.ok_reachable(start=[succ]) is not None:
                out[n] = k
    for bi, t in fn.calls(lambda c, t: c.rsplit("::", 1)[-1] in ("ne", "eq")):
        a, b = R.operand(t["args"][0]), R.operand(t["args"][1])
        for x, y in ((a, b), (b, a)):
            n = name_of(x)
            y = strip(y)
            if n and y[0] == "const" and isinstance(y[2], tuple):
                be = bool_edges(fn, bi)
                if be:
                    bad = be[1] if callee_of(t).endswith("ne") else be[2]
                    if fn.ok_reachable(start=[bad]) is None:
                        out[n] = bytes(y[2]).decode()
    return out


def dispatch_table(ctx, prog, rule):
    f = prog.fn("packet::PacketHeader::read")
    ctx.fn_seen(f)
    R = Resolver(f)
    table = {}
    for bi in f.cfg():
        te = int_test_edges(f, R, bi)
        if te is None:
            continue
        val, cases, others = te
        v = strip(val)
        while v[0] == "cast":
            v = strip(v[2])
        if v[0] != "index" or const_eval(v[2]) != 0:
            continue
        for k, succ in cases.items():
            # first local call on the arm taken for this id
            b = succ
            for _ in range(4):
                tt = f.blocks[b]["term"]
                if tt["k"] == "call":
                    table[k] = short(callee_of(tt))
                    break
                if tt["k"] == "goto":
                    b = tt["target"]
                else:
                    break
    want = {0: "IndexPacketHeader::read", 1: "DataPacketHeader::read", 2: "IgnoredPacketHeader::read"}
    ctx.ob(rule, "dispatch/PacketHeader::read", table == want, "packet type byte -> reader: %s (spec: 0 index, 1 data, 2 ignored)" % table)
    # variants constructed match
    cons = {}
    for bi in f.cfg():
        for st in f.blocks[bi]["stmts"]:
            rv = st["rv"]
            if rv["k"] == "aggregate" and rv["kind"].get("adt") == "packet::PacketHeader":
                v = strip(R.operand(rv["ops"][0]))
                cons[rv["kind"]["variant"]] = short(v[1]) if v[0] == "call" else tree_str(v)
    # the variant constructors used as functions (`.map(PacketHeader::Index)`)
    for bi, t in f.calls(lambda c, t: c.startswith("packet::PacketHeader::") and c.rsplit("::", 1)[-1] in ("Index", "Data", "Ignored")):
        v = strip(R.operand(t["args"][0]))
        cons[callee_of(t).rsplit("::", 1)[-1]] = short(v[1]) if v[0] == "call" else tree_str(v)
    for bi in ():
        for st in ():
            if False:
                pass
    wantc = {"Index": "IndexPacketHeader::read", "Data": "DataPacketHeader::read", "Ignored": "IgnoredPacketHeader::read"}
    ctx.ob(rule, "dispatch/variants", cons == wantc, "variant <- header reader: %s" % cons)
    # unknown ids are an error: the final else arm is always-Err
    errs = [bi for bi, t in f.calls(lambda c, t: c == "error::Error::invalid")]
    ctx.ob(rule, "dispatch/unknown-id-rejected", len(errs) == 1, "exactly one Error::invalid arm for unknown packet ids (%d)" % len(errs), nontrivial=False)
    # only one type byte is read
    reads = [bi for bi, t in f.calls(lambda c, t: c.endswith("Read::read_exact"))]
    reps = [st["rv"]["n"].strip() for bi in f.cfg() for st in f.blocks[bi]["stmts"] if st["rv"]["k"] == "repeat"]
    ctx.ob(rule, "dispatch/type-byte", len(reads) == 1 and reps == ["1_usize"] or (len(reads) == 1 and len(reps) == 1 and reps[0].startswith("1")), "PacketHeader::read consumes exactly one type byte (%s)" % reps, nontrivial=False)
