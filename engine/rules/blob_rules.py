"""Blob protocol rules (C06)."""
from mirlib import *
from proto import *
from cache_rules import strip_casts, const_val

PPOS = "paged_writer::PagedWriter::<T>::physical_position"
PSEEK = "paged_writer::PagedWriter::<T>::physical_seek"
ALIGN = "paged_writer::PagedWriter::<T>::align"
BW = "blob::Blob::write"
BR = "blob::Blob::read"
TOW = "blob::BlobSectionHeader::to_writer"


def write_protocol(ctx, prog, rule):
    f = prog.fn(BW)
    S = Steps(ctx, f, rule)
    R = Resolver(f)
    pos = calls_where(f, lambda c, t, R: c == PPOS)
    copies = calls_where(f, lambda c, t, R: c.endswith("io::copy") and strip(R.operand(t["args"][0])) == ("param", 2) and strip(R.operand(t["args"][1])) == ("param", 1))
    S.step("copy", copies, what="io::copy(reader, writer)")
    start = [b for b in pos if copies and f.dominates(b, copies[0])]
    end = [b for b in pos if copies and f.dominates(copies[0], b)]
    S.step("start-position", start)
    S.step("end-position", end)
    hdr = calls_where(f, lambda c, t, R: c == TOW)
    first = [b for b in hdr if copies and f.dominates(b, copies[0])]
    second = [b for b in hdr if copies and f.dominates(copies[0], b)]
    S.step("placeholder-header", first)
    S.step("final-header", second)

    def seek_to(blocks):
        def p(c, t, R):
            if c != PSEEK:
                return False
            a = strip(R.operand(t["args"][1]))
            return a[0] == "call" and a[1] == PPOS and a[3] in blocks
        return p
    S.step("seek-start", calls_where(f, seek_to(start)))
    S.step("seek-end", calls_where(f, seek_to(end)))
    S.step("align", calls_where(f, lambda c, t, R: c == ALIGN))
    order = ["start-position", "placeholder-header", "copy", "end-position", "seek-start", "final-header", "seek-end", "align"]
    for n in order:
        S.must_pass(n)
    for a, b in zip(order, order[1:]):
        S.before(a, b)
    for n in ("start-position", "placeholder-header", "copy", "end-position", "seek-start", "final-header", "seek-end", "align"):
        ctx.ob(rule, "single-site/%s/%s" % (short(f.path), n), len(S.steps.get(n, [])) == 1, "%d sites of step %s" % (len(S.steps.get(n, [])), n), nontrivial=False)
    # the header value handed to the final to_writer: a literal built after the copy, or the placeholder updated by an
    # assignment to its section_length between the two header writes
    def header_len_tree(call_block):
        t = R.operand(f.blocks[call_block]["term"]["args"][0])
        x = t
        for _ in range(4):
            if x[0] == "partial":
                return ("partial", x[1])
            if x[0] == "agg" and x[1][0] == "adt" and x[1][1] == "blob::BlobSectionHeader":
                return ("literal", x[2][0])
            if x[0] == "const" and "BlobSectionHeader" in str(x[1]) and isinstance(x[2], tuple) and len(x[2]) == 8:
                # a promoted constant struct: its only field as little-endian bytes
                return ("literal", ("const", "u64", int.from_bytes(bytes(x[2]), "little")))
            y = strip(x)
            if y == x:
                break
            x = y
        return (None, None)
    sl = field_assignments(f, "blob::BlobSectionHeader", "section_length")
    ok, desc = False, ""
    vt = None
    assign_block = None
    if second:
        kind_, val_ = header_len_tree(second[0])
        if kind_ == "literal":
            vt = strip(val_)
        elif len(sl) == 1:
            assign_block = sl[0][0]
            vt = strip(R.rvalue(sl[0][3]))
    if vt is not None:
        desc = tree_str(strip_deep(vt))
        if vt[0] == "call" and vt[1].endswith("next_multiple_of") and const_val(vt[2][1]) == 4:
            s_ = strip_casts(vt[2][0])
            if s_[0] == "binop" and s_[1] == "Add":
                parts = [strip(s_[2]), strip(s_[3])]
                ok = any(const_val(x) == 16 for x in parts) and any(x[0] == "call" and x[1].endswith("io::copy") for x in parts)
        if assign_block is not None:
            ok = ok and f.dominates(assign_block, second[0])
    ctx.ob(rule, "header-length/%s" % short(f.path), ok, "section_header.section_length <- %s (must be header size 16 + the byte count returned by io::copy, rounded up to a multiple of 4, before the final header write)" % desc)
    # placeholder length 0
    okp = False
    if first:
        kind_, val_ = header_len_tree(first[0])
        if kind_ == "literal":
            okp = const_val(val_) == 0
        elif kind_ == "partial":
            x = strip(val_)
            okp = x[0] == "agg" and const_val(x[2][0]) == 0 and all(not f.dominates(b, first[0]) for b, _, _, _ in sl)
    ctx.ob(rule, "placeholder-length/%s" % short(f.path), okp, "the temporary blob section header carries length 0", nontrivial=False)
    # result descriptor
    okd = False
    desc = ""
    for bi, si, cls, payload in f.ret_assignments():
        if cls == "ok":
            v = strip(R.rvalue(payload))[2][0]
            if v[0] == "agg" and v[1][0] == "adt" and v[1][1] == "blob::Blob":
                vals = {n: strip(x) for n, x in zip(v[1][3], v[2])}
                o, l = vals["offset"], vals["length"]
                desc = "Blob{offset<-%s, length<-%s}" % (tree_str(o), tree_str(l))
                okd = o[0] == "call" and o[1] == PPOS and o[3] in start and l[0] == "call" and l[1].endswith("io::copy")
    ctx.ob(rule, "descriptor/%s" % short(f.path), okd, "%s (must be the start position and the copied byte count)" % desc)


def _empty_shortcut(ctx, f, R, rule):
    """blocks of an `if self.length == 0 { return Ok(0) }` shortcut: reachable only through the zero edge of a test of
    self.length against 0, containing no call, and returning Ok(0). Such a path delivers the (empty) blob exactly."""
    out = set()
    g = f.cfg()
    for bi in g:
        t = f.blocks[bi]["term"]
        if t["k"] != "switch":
            continue
        dl = op_place(t["discr"])
        d = strip(R.place(dl)) if dl else None
        if not (d and d[0] == "binop" and d[1] in ("Eq", "Ne")):
            continue
        a, b = strip(d[2]), strip(d[3])
        if not ((self_field(a) == "length" and const_val(b) == 0) or (self_field(b) == "length" and const_val(a) == 0)):
            continue
        e = switch_edges(f, bi)
        zero = e["otherwise"] if d[1] == "Eq" else e.get("0")      # Eq: true (non-zero discr) edge = length == 0
        other = e.get("0") if d[1] == "Eq" else e["otherwise"]
        if zero is None or other is None:
            continue
        region = reach(g, [zero]) - reach(g, [other])
        if zero not in region:
            continue
        calls = [x for x in region if f.blocks[x]["term"]["k"] == "call"]
        rets = [(rb, pay) for rb, si, cls, pay in f.ret_assignments() if rb in region]
        trivial = not calls and rets and all(cls == "ok" and const_val(strip(R.operand(pay["ops"][0]))) == 0
                                              for rb, si, cls, pay in f.ret_assignments() if rb in region)
        ctx.ob(rule, "empty-shortcut/%s" % short(f.path), bool(trivial), "the self.length == 0 shortcut makes no call and returns Ok(0)", where=f.file_line(zero))
        if trivial:
            out |= region
    return out


def read_bounded(ctx, prog, rule):
    """C09-R4: the only thing Blob::read hands to the caller's writer is an io::copy from reader.take(self.length): the
    bytes delivered are bounded by the descriptor length and by the end of the file (PagedReader::read returns 0 there)."""
    f = prog.fn(BR)
    ctx.fn_seen(f)

    def copy_limited(c, t, R):
        if not c.endswith("io::copy"):
            return False
        src = strip(R.operand(t["args"][0]))
        return src[0] == "call" and src[1].endswith("Read::take") and strip(R.operand(t["args"][1])) == ("param", 3) \
            and self_field(src[2][1]) == "length" and strip(src[2][0]) == ("param", 2)
    copies = calls_where(f, copy_limited)
    outs = calls_where(f, lambda c, t, R: any(strip(R.operand(a)) == ("param", 3) for a in t["args"]))
    ctx.ob(rule, "bounded-output/%s" % short(f.path), bool(copies) and outs == copies,
           "the caller's writer is only passed to io::copy(reader.take(self.length), writer) (%d uses, %d bounded copies)" % (len(outs), len(copies)),
           where=f.file_line((outs or [0])[0]))


def buffered_sinks_flushed(ctx, prog, rule, paths=None, label="blob-path"):
    """bytes handed to a buffering wrapper (BufWriter / LineWriter) have not reached the caller's writer: wherever the
    blob path builds one, every successful return passes a flush of it whose result is checked (dropping the wrapper
    swallows the error of the final write)"""
    n = 0
    for path in (paths or ("e57_reader::E57Reader::<T>::blob", BR)):
        f = prog.fn(path)
        ctx.fn_seen(f)
        R = Resolver(f)
        for bi, t in f.calls(lambda c, t: ("BufWriter" in c or "LineWriter" in c) and c.rsplit("::", 1)[-1] in ("new", "with_capacity")):
            n += 1
            flushes = []
            for b2, t2 in f.calls(lambda c, t: c.rsplit("::", 1)[-1] in ("flush", "into_inner") and ("Write" in c or "BufWriter" in c or "LineWriter" in c)):
                recv = R.operand(t2["args"][0])
                if any(x[0] == "call" and len(x) > 3 and x[3] == bi for x in leaves(recv)) and (branch_of_call(f, b2) is not None or not t2["dest"]["proj"] and t2["dest"]["local"] == 0):
                    flushes.append(b2)
            ok = bool(flushes) and f.ok_reachable(removed=flushes, start=f.cfg().get(bi, [])) is None
            ctx.ob(rule, "buffered-sink-flushed/%s" % short(path), ok, "%s wraps the output in %s: %s" % (short(path), short(callee_of(t)), "every successful return passes a checked flush of it" if ok else "a successful return is reachable without a checked flush (the tail of the blob may never reach the caller's writer)"), where=f.file_line(bi))
    ctx.ob(rule, "buffered-sinks/%s" % label, True, "%d buffering wrappers on the %s, each judged by buffered-sink-flushed" % (n, label), nontrivial=False)
    return n


def read_protocol(ctx, prog, rule):
    buffered_sinks_flushed(ctx, prog, rule)
    f = prog.fn(BR)
    S = Steps(ctx, f, rule)
    R = Resolver(f)
    S.step("seek", calls_where(f, lambda c, t, R: c == "paged_reader::PagedReader::<T>::seek_physical" and self_field(R.operand(t["args"][1])) == "offset"), what="reader.seek_physical(self.offset)")
    S.step("header", calls_where(f, lambda c, t, R: c == "blob::BlobSectionHeader::from_reader"))
    S.step("take", calls_where(f, lambda c, t, R: c.endswith("Read::take") and self_field(R.operand(t["args"][1])) == "length" and strip(R.operand(t["args"][0])) == ("param", 2)), what="reader.take(self.length)")

    def is_take(x):
        x = strip(x)
        return x[0] == "call" and x[1].endswith("Read::take")

    def buf_id(x):
        """identity of a local byte buffer: its constructor call (callee, block)"""
        x = strip(x)
        while x[0] == "cast":
            x = strip(x[2])
        if x[0] == "call" and (x[1].endswith("Vec::<T>::new") or x[1].endswith("::with_capacity")):
            return (x[1], x[3])
        return None

    # the transfer is either streaming: io::copy(take, writer), or buffered: take.read_to_end(&mut buf) followed by
    # writer.write_all(&buf) of the same buffer
    fills = {}
    for bi, t in f.calls(lambda c, t: c.endswith("Read::read_to_end")):
        if is_take(R.operand(t["args"][0])) and buf_id(R.operand(t["args"][1])):
            fills[buf_id(R.operand(t["args"][1]))] = bi

    def copy_limited(c, t, R):
        if c.endswith("io::copy"):
            return is_take(R.operand(t["args"][0])) and strip(R.operand(t["args"][1])) == ("param", 3)
        if c.endswith("Write::write_all"):
            return strip(R.operand(t["args"][0])) == ("param", 3) and buf_id(R.operand(t["args"][1])) in fills
        return False
    S.step("copy", calls_where(f, copy_limited), what="io::copy(&mut limited, writer) or read_to_end(&mut buf) + writer.write_all(&buf)")
    empty = _empty_shortcut(ctx, f, R, rule)
    for n in ("seek", "header"):
        S.must_pass(n)
    for n in ("take", "copy"):
        S.must_pass(n, exempt=empty)
    # nothing else repositions or consumes the reader between the seek and the bounded copy
    uses = calls_where(f, lambda c, t, R: any(strip(R.operand(a)) == ("param", 2) for a in t["args"]))
    allowed = set(S.steps.get("seek", [])) | set(S.steps.get("header", [])) | set(S.steps.get("take", []))
    extra = [b for b in uses if b not in allowed]
    ctx.ob(rule, "reader-uses/%s" % short(f.path), not extra and len(S.steps.get("seek", [])) == 1,
           "the page reader is passed to seek_physical(self.offset) once, to the header parser and to take(self.length) and to nothing else (other uses: %s)"
           % [short(callee_of(f.blocks[b]["term"])) for b in extra], where=f.file_line(extra[0]) if extra else None)
    S.before("seek", "header")
    S.before("header", "take")
    S.before("take", "copy")
    for n in ("seek", "header"):
        for b in S.steps.get(n, []):
            ctx.ob(rule, "checked/%s/%s" % (short(f.path), n), branch_of_call(f, b) is not None, "result of step %s is propagated with ?" % n, where=f.file_line(b))
    # the count is compared with self.length before Ok
    ok = False
    for bi in f.cfg():
        t = f.blocks[bi]["term"]
        if t["k"] != "switch":
            continue
        dl = op_place(t["discr"])
        d = strip(R.place(dl)) if dl else None
        if d and d[0] == "binop" and d[1] in ("Ne", "Eq", "Lt"):
            a, b = strip(d[2]), strip(d[3])
            for x, y in ((a, b), (b, a)):
                x = strip_casts(x)
                counted = x[0] == "call" and (x[1].endswith("io::copy") or (x[1].endswith("Read::read_to_end") and x[3] in fills.values())
                                              or (x[1].endswith("::len") and buf_id(x[2][0]) in fills))
                if counted and self_field(y) == "length":
                    e = switch_edges(f, bi)
                    bad = e["otherwise"] if d[1] in ("Ne", "Lt") else e.get("0")
                    ok = f.ok_reachable(start=[bad]) is None and f.ok_reachable(removed=[bi] + list(empty)) is None
    ctx.ob(rule, "count-checked/%s" % short(f.path), ok, "every successful return of Blob::read passes the comparison copied == self.length, whose unequal branch fails")
    # nothing but the limited copy writes to the output
    outs = calls_where(f, lambda c, t, R: any(strip(R.operand(a)) == ("param", 3) for a in t["args"]))
    ctx.ob(rule, "single-output/%s" % short(f.path), outs == S.steps.get("copy", []), "the caller's writer is only passed to the bounded io::copy (%d uses)" % len(outs))
    # header id check
    g = prog.fn("blob::BlobSectionHeader::from_array")
    ctx.fn_seen(g)
    Rg = Resolver(g)
    okid = False
    for bi in g.cfg():
        t = g.blocks[bi]["term"]
        if t["k"] == "switch":
            dl = op_place(t["discr"])
            d = strip(Rg.place(dl)) if dl else None
            if d and d[0] == "binop" and d[1] in ("Ne", "Eq") and const_val(d[3]) == 0:
                x = strip(d[2])
                if x[0] == "index" and const_val(x[2]) == 0:
                    e = switch_edges(g, bi)
                    bad = e["otherwise"] if d[1] == "Ne" else e.get("0")
                    okid = g.ok_reachable(start=[bad]) is None
    ctx.ob(rule, "section-id/BlobSectionHeader::from_array", okid, "a blob section header whose first byte is not 0 is rejected")


ADD_FNS = {
    "add_visual_reference": ("images::VisualReferenceImage", None),
    "add_pinhole": ("images::PinholeImage", "Pinhole"),
    "add_spherical": ("images::SphericalImage", "Spherical"),
    "add_cylindrical": ("images::CylindricalImage", "Cylindrical"),
}


def image_siblings(ctx, prog, rule):
    n = 0
    for name, (adt, variant) in ADD_FNS.items():
        f = prog.fn("image_writer::ImageWriter::<'a, T>::" + name)
        ctx.fn_seen(f)
        R = Resolver(f)
        n += 1
        found = False
        for bi in f.cfg():
            for si, st in enumerate(f.blocks[bi]["stmts"]):
                rv = st["rv"]
                if not is_variant_agg(rv, adt, adt.split("::")[-1]):
                    continue
                found = True
                vals = {k: strip(R.operand(o)) for k, o in zip(rv["kind"]["fields"], rv["ops"])}
                blob = vals["blob"]
                okb = False
                if blob[0] == "agg" and blob[1][0] == "adt":
                    bv = {k: strip(x) for k, x in zip(blob[1][3], blob[2])}
                    d = bv["data"]
                    okb = d[0] == "call" and d[1] == BW and self_field(d[2][0]) == "writer" and strip_casts(d[2][1]) == ("param", 3) and strip(bv["format"]) == ("param", 2)
                ctx.ob(rule, "image-blob/%s" % name, okb, "%s.blob <- %s (must be ImageBlob{data: Blob::write(self.writer, <image param>), format: <format param>})" % (adt.split("::")[-1], tree_str(blob)), where=f.file_line(bi, si))
                okp = vals["properties"] == ("param", 4)
                ctx.ob(rule, "image-properties/%s" % name, okp, "properties <- %s (must be the properties parameter)" % tree_str(vals["properties"]), where=f.file_line(bi, si))
                m = vals["mask"]
                alts = m[1] if m[0] == "phi" else (m,)
                has_none = any(a[0] == "agg" and a[1][2] == "None" for a in alts)
                has_some = False
                for a in alts:
                    if a[0] == "agg" and a[1][2] == "Some":
                        x = strip(a[2][0])
                        has_some = x[0] == "call" and x[1] == BW and self_field(x[2][0]) == "writer" and x[2][1][0] in ("ok",) and strip(x[2][1]) == ("param", 5) or \
                            (x[0] == "call" and x[1] == BW and ("param", 5) in leaves(x[2][1]) and ("param", 3) not in leaves(x[2][1]))
                ctx.ob(rule, "image-mask/%s" % name, has_none and has_some, "mask <- %s (must be Some(Blob::write(self.writer, <mask param>)) under Some(mask), else None)" % tree_str(m)[:200], where=f.file_line(bi, si))
        ctx.ob(rule, "image-struct/%s" % name, found, "%s builds a %s" % (name, adt), nontrivial=False)
        # the caller's readers reach Blob::write untouched: nothing else reads from them first (bytes consumed for a
        # signature check are missing from the stored blob)
        touched = []
        for bi, t in f.calls():
            c = callee_of(t)
            if c == BW or not t["args"]:
                continue
            last = c.rsplit("::", 1)[-1]
            if not ("io::Read" in c or "Read>::" in c or last in ("read", "read_exact", "read_to_end", "read_to_string", "read_vectored", "bytes", "take", "chain", "copy")):
                continue
            if any(x in (("param", 3), ("param", 5)) for a in t["args"] for x in leaves(R.operand(a))):
                touched.append("%s at %s" % (short(c), f.file_line(bi)))
        ctx.ob(rule, "payload-untouched/%s" % name, not touched, "the image and mask readers are handed to Blob::write only (other consumers: %s)" % (touched or "none"))
        # stored into the right slot
        if variant is None:
            tgt = field_assignments(f, "images::Image", "visual_reference")
            ctx.ob(rule, "image-slot/%s" % name, len(tgt) == 1, "stored into image.visual_reference")
        else:
            tgt = field_assignments(f, "images::Image", "projection")
            ok = len(tgt) == 1
            if ok:
                t = strip(R.rvalue(tgt[0][3]))
                ok = t[0] == "agg" and t[1][2] == "Some" and strip(t[2][0])[0] == "agg" and strip(t[2][0])[1][2] == variant
            ctx.ob(rule, "image-slot/%s" % name, ok, "stored into image.projection as Projection::%s" % variant)
            # already-set guard
            okg = False
            for sw, some, none in option_tests(f, R, lambda x: self_field(x) == "image.projection"):
                okg = okg or f.ok_reachable(start=[some]) is None
            ctx.ob(rule, "image-already-set-guard/%s" % name, okg, "%s fails when a projection is already set" % name)
    ctx.floor(rule, "add_* sibling functions", n, 4)
    # finalize pushes the image built by this writer
    f = prog.fn("image_writer::ImageWriter::<'a, T>::finalize")
    ctx.fn_seen(f)
    R = Resolver(f)
    ok = False
    for bi, t in f.calls(lambda c, t: c.endswith("Vec::<T, A>::push")):
        ok = self_field(R.operand(t["args"][0])) == "images" and self_field(R.operand(t["args"][1])) == "image"
    ctx.ob(rule, "image-publish/finalize", ok, "ImageWriter::finalize pushes self.image onto the writer's image list")


def enum_tag_bijection(ctx, prog, rule):
    # writer: ImageBlob::xml_string match format -> tag
    f = prog.fn("images::ImageBlob::xml_string")
    ctx.fn_seen(f)
    R = Resolver(f)
    w = {}
    adt = prog.adt("images::ImageFormat")
    names = [v["name"] for v in adt["variants"]]
    for bi in f.cfg():
        t = f.blocks[bi]["term"]
        if t["k"] == "switch":
            dl = op_place(t["discr"])
            d = strip(R.place(dl)) if dl else None
            if d and d[0] == "discr" and self_field(d[1]) == "format":
                for v, tgt in t["targets"]:
                    # first call reached from that arm; the tag is a literal at the call or a literal the arm assigned
                    # (`let tag = match format { Png => "pngImage", .. }; data.xml_string(tag)`)
                    b = tgt
                    env = {}
                    for _ in range(6):
                        for st in f.blocks[b]["stmts"]:
                            if st["place"]["proj"]:
                                continue
                            rv = st["rv"]
                            if rv["k"] == "use" and rv["op"]["k"] == "const":
                                cv = strip(R.operand(rv["op"]))
                                env[st["place"]["local"]] = cv[2] if cv[0] == "const" else None
                            elif rv["k"] in ("use", "ref", "cast"):
                                pl_ = op_place(rv["op"]) if rv["k"] == "use" else (rv.get("place") if rv["k"] == "ref" else op_place(rv["a"]))
                                pl_ok = pl_ is not None and all(e["k"] == "deref" for e in pl_["proj"])
                                env[st["place"]["local"]] = env.get(pl_["local"]) if pl_ok and pl_["local"] in env else None
                                if not (pl_ok and pl_["local"] in env):
                                    env.pop(st["place"]["local"], None)
                            else:
                                env.pop(st["place"]["local"], None)
                        tt = f.blocks[b]["term"]
                        if tt["k"] == "call" and callee_of(tt) == "blob::Blob::xml_string":
                            tag = strip(R.operand(tt["args"][1]))
                            apl = op_place(tt["args"][1])
                            if apl is not None and apl["local"] in env and all(e["k"] == "deref" for e in apl["proj"]):
                                w[names[int(v)]] = env[apl["local"]]
                            else:
                                w[names[int(v)]] = tag[2] if tag[0] == "const" else None
                            break
                        if tt["k"] == "goto":
                            b = tt["target"]
                        else:
                            break
    # reader: from_rep_node: has_tag_name(tag) closure -> ImageFormat variant
    g = prog.fn("images::ImageBlob::from_rep_node")
    ctx.fn_seen(g)
    Rg = Resolver(g)
    r = {}
    import xml_rules
    for bi in g.cfg():
        for st in g.blocks[bi]["stmts"]:
            rv = st["rv"]
            if is_variant_agg(rv, "images::ImageBlob", "ImageBlob"):
                vals = dict(zip(rv["kind"]["fields"], rv["ops"]))
                fmt = strip(Rg.operand(vals["format"]))
                data = Rg.operand(vals["data"])
                # data = Blob::from_node(node found by a has_tag_name lookup); one literal per format, or one literal
                # fed by a match whose arms pair (node, format)
                fmts = list(fmt[1]) if fmt[0] == "phi" else [fmt]
                nodes = None
                d = strip(data)
                if d[0] == "call" and d[2]:
                    a0 = d[2][0]
                    a0s = strip(a0)
                    nodes = list(a0s[1]) if a0s[0] == "phi" else [a0]
                if nodes is None or len(nodes) != len(fmts):
                    nodes = [data] * len(fmts)
                for fa, na in zip(fmts, nodes):
                    fa = strip(fa)
                    tags = xml_rules.child_tags(prog, na)
                    if fa[0] == "agg" and len(tags) == 1:
                        r[fa[1][2]] = tags[0]
                    elif fa[0] == "const" and isinstance(fa[2], tuple) and fa[2] and fa[2][0] == "enum" and len(tags) == 1:
                        r[fa[2][1]] = tags[0]
    want = {"Png": "pngImage", "Jpeg": "jpegImage"}
    ctx.ob(rule, "format-tag/writer", w == want, "ImageBlob::xml_string: %s (expected %s)" % (w, want))
    ctx.ob(rule, "format-tag/reader", r == want, "ImageBlob::from_rep_node: %s (expected %s)" % (r, want))
    # mask tag on both sides of all four representations
    n = 0
    for rep in ("VisualReferenceImage", "PinholeImage", "SphericalImage", "CylindricalImage"):
        fw = prog.fn("images::%s::xml_string" % rep)
        fr = prog.fn("images::%s::from_node" % rep)
        ctx.fn_seen(fw)
        ctx.fn_seen(fr)
        Rw, Rr = Resolver(fw), Resolver(fr)
        okw = any(self_field(strip(Rw.operand(t["args"][0]))[1] if strip(Rw.operand(t["args"][0]))[0] == "ok" else strip(Rw.operand(t["args"][0]))) in ("mask", None) and strip(Rw.operand(t["args"][1])) == ("const", "&str", "imageMask")
                  for bi, t in fw.calls(lambda c, t: c == "blob::Blob::xml_string"))
        okr = any(strip(Rr.operand(t["args"][0])) == ("const", "&str", "imageMask") for bi, t in fr.calls(lambda c, t: c == "blob::Blob::from_parent_node"))
        n += 1
        ctx.ob(rule, "mask-tag/%s" % rep, okw and okr, "mask blob uses tag imageMask in xml_string (%s) and from_node (%s)" % (okw, okr))
        # the descriptor found is the descriptor reported: no filter on its length or offset in between (a mask of
        # length zero is a mask)
        verdict, desc = None, "no %s literal found" % rep
        for bi in fr.cfg():
            for st in fr.blocks[bi]["stmts"]:
                rv = st["rv"]
                if is_variant_agg(rv, "images::" + rep, rep) and "mask" in rv["kind"]["fields"]:
                    v = strip(Rr.operand(rv["ops"][rv["kind"]["fields"].index("mask")]))
                    desc = tree_str(strip_deep(v))[:120]
                    if v[0] == "call" and v[1] == "blob::Blob::from_parent_node":
                        verdict = True
                    elif any(x[0] == "call" and x[1].rsplit("::", 1)[-1].split("<")[0] in ("filter", "take_if", "and_then", "xor", "filter_map", "then", "then_some", "take") and "Option" in x[1] for x in leaves(v)):
                        verdict = False
        ctx.ob(rule, "mask-unfiltered/%s" % rep, verdict, "%s.mask is %s (must be the descriptor Blob::from_parent_node(\"imageMask\") found, unfiltered)" % (rep, desc))
    ctx.floor(rule, "representations with a mask tag", n, 4)
