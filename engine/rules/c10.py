"""C10 — writer API is total and never stores what it cannot represent (DESIGN §4 C10)."""
from mirlib import *
import panic_rules
import bound_rules
import validation_rules
import xml_rules
import bounds_rules
import pcw_rules
import header_rules
import blob_rules

TECHNIQUE = "panic-site inventory and interval discharge with writer roots; assume-prune decision table of add_point over (data type, value variant) with range-comparison must-pass; all-or-nothing / state-range tables of the prototype validators; validation-dominates-construction order; writer loop progress incl. the drain loop's >= 1 points per packet invariant; XML-name strength of validate_name"
EXPLANATION = (
    "Decides, with the public writer entry points as roots, that every panic source is discharged or reviewed (as C08); "
    "that add_point rejects a wrong arity first, accepts a value exactly when its variant equals the prototype's data type, "
    "compares integer and scaled-integer values with the record's minimum and maximum on every accepting path, and stores "
    "and updates bounds only after the whole point was validated; that the prototype validators count each coordinate / "
    "colour name once and reject partial groups and wrong state ranges, and run (with the extension-name validation) before "
    "anything is written; that every writer loop makes progress, in particular that max_points_per_packet >= 1 so that "
    "finalize's drain loop ends; and whether validate_name implies XML-name validity (it does not for a leading digit or "
    "dash: listed known finding). Each Is<X>Invalid flag is rejected without its value record <X> and accepted with it. Caller strings pass the escaping gate of C04-R5 (a string altered by double escaping is a value stored unfaithfully). Not decided: that accepted input always reads back (C01/C04/C06 clauses).")


def run(ctx):
    ctx.rule("R1", "inventory of panic sources reachable from the writer API")
    ctx.rule("R2", "each source is discharged by intervals / guards / field invariants, or matches a reviewed provenance signature")
    ctx.rule("R4", "add_point: arity guard, type table (accepted exactly on the diagonal), range comparisons on every accepting path, store after validation")
    ctx.rule("R5", "prototype validators: all-or-nothing groups, state ranges, validation before construction / registration")
    ctx.rule("R6", "writer loops make progress; max_points_per_packet >= 1; allocation sizes are lengths of in-memory data")
    ctx.rule("R7", "names reach XML only through a validator that implies XML-name validity")
    ctx.rule("R8", "caller strings are stored faithfully: CDATA split for element text, single-pass &,<,\" escaping for attribute values (shared with C04-R5)")
    ctx.rule("R9", "when finalize succeeded the file opens: header written after the XML was flushed, success is the result of the final flush (shared with C15-R1 / C16-R3)")
    for cfg in ["lib", "lib_crc32c"]:
        prog, info = load_program(cfg, "e57")
        ctx.configs[cfg] = info
        ctx.cfg = cfg
        und, sites = panic_rules.panic_freedom(ctx, prog, "R1", "R2", "writer", cfg)
        ctx.floor("R1", "panic sources reachable from the writer API", len(sites), 90, semantic=False)
        ctx.call(validation_rules.add_point_validation, prog, "R4")
        ctx.call(bounds_rules.validation_before_update, prog, "R4")
        ctx.call(validation_rules.prototype_validation, prog, "R5")
        ctx.call(validation_rules.flag_value_pairs, prog, "R5")
        ctx.call(bound_rules.loop_progress, prog, "R6", "writer", floor=8)
        ctx.call(bound_rules.allocation_sizes, prog, "R6", "writer")
        ctx.call(bound_rules.equal_length_classes, prog, "R6")
        ctx.call(pcw_rules.packet_capacity_units, prog, "R6")
        if cfg == "lib":
            ctx.call(xml_rules.xml_name_start, prog, "R7")
            ctx.call(xml_rules.escaping_gate, prog, "R8")
        ctx.call(header_rules.publication_order, prog, "R9")
        ctx.call(blob_rules.image_siblings, prog, "R9")
        ctx.call(blob_rules.write_protocol, prog, "R9")
    ctx.cfg = None
