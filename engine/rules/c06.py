"""C06 — blobs and image payloads round-trip byte-exactly (DESIGN §4 C06)."""
from mirlib import *
import blob_rules
import page_rules
import cache_rules

TECHNIQUE = "MIR protocol order + dataflow of Blob::write (offset/length provenance), seek-first / bounded-copy / count-checked shape of Blob::read, sibling comparison of the four ImageWriter::add_* functions, enum<->tag bijection tables"
EXPLANATION = (
    "Decides that Blob::write takes the start position, writes a zero-length header, copies the payload with io::copy, "
    "takes the end position, stores the copied count in the header, seeks to the start, rewrites the header, seeks to the "
    "end and aligns — each step once, on every successful path, in this order — and returns Blob{offset: start, length: "
    "count}; that Blob::read seeks to self.offset first, validates the section header, copies through take(self.length) "
    "into the caller's writer only, and returns Ok only after comparing the copied count with self.length; that the four "
    "add_* functions store Blob::write(writer, image) / Blob::write(writer, mask) / format / properties into the matching "
    "representation and slot; and that ImageFormat<->tag and the imageMask tag agree between writer and reader. Also the page reader's cache typestate "
    "(C07-R1..R4) and the writer's reload-after-advance rule, because blob bytes travel through both. Not "
    "decided: byte equality for every length and position (page-layer behaviour, see C11).")


def run(ctx):
    ctx.rule("R1", "Blob::write: start position -> header(0) -> io::copy -> end position -> length stored -> seek(start) -> header -> seek(end) -> align; returns Blob{start, count}")
    ctx.rule("R2", "Blob::read: seek_physical(self.offset) first, header id checked, copy bounded by take(self.length) into the caller's writer only, copied count compared with self.length before Ok")
    ctx.rule("R3", "add_visual_reference/pinhole/spherical/cylindrical: data <- Blob::write(writer, image), mask <- Blob::write(writer, mask) under Some, format/properties stored unchanged, right projection variant, already-set guard")
    ctx.rule("R4", "ImageFormat::{Png,Jpeg} <-> pngImage/jpegImage and the imageMask tag agree in xml_string and from_node of all representations")
    ctx.rule("R5", "the page reload behind the header patch (PagedWriter::read_current_page) loops over short reads and zero-fills (shared with C11-R6/C16-R2)")
    ctx.rule("R6", "the page reader serves blob bytes only from a verified page: cache typestate of PagedReader (shared with C07-R1..R4)")
    for cfg in (["lib"] if ctx.tier == "quick" else ["lib", "lib_crc32c"]):
        prog, info = load_program(cfg, "e57")
        ctx.configs[cfg] = info
        ctx.cfg = cfg
        ctx.call(blob_rules.write_protocol, prog, "R1")
        ctx.call(blob_rules.read_protocol, prog, "R2")
        ctx.call(blob_rules.image_siblings, prog, "R3")
        ctx.call(blob_rules.enum_tag_bijection, prog, "R4")
        ctx.call(page_rules.read_current_page_shape, prog, "R5")
        ctx.call(page_rules.reload_after_advance, prog, "R5")
        ctx.call(cache_rules.who_may_write, prog, cache_rules.PR, rule="R6")
        ctx.call(cache_rules.invalidate_on_clobber, prog, cache_rules.PR, rule="R6")
        ctx.call(cache_rules.validate_before_publish, prog, cache_rules.PR, "table" if cfg == "lib" else "crate", rule="R6")
        ctx.call(cache_rules.serve_only_verified, prog, cache_rules.PR, rule="R6")
    ctx.cfg = None
