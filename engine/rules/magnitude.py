"""Magnitude classes (A5b): a provenance typing of unsigned 64-bit quantities that cannot come near 2^63 in any
feasible run, whatever the input says:

  small   constants below 2^32 and values with an inferred interval below 2^40
  acc     accumulators: a field / loop variable that starts small and only grows by adding small or mem values
          (a counter of points, pages, bits consumed; a running sum of buffer sizes)
  mem     lengths and element counts of in-memory collections (Vec::len, slice::len, VecDeque::len, count(), and local
          functions returning such values), bounded by the address space (< 2^48)
  dev     device positions and byte counts that were actually transferred (Seek::seek, stream_position, io::copy),
          bounded by the device size (< 2^63, see intervals.DEVICE_POSITION_CALLS)

Closed under +, -, /, %, >>, &, min, casts, and under * with a small factor.  Anything that derives from bytes of the
file (from_le_bytes, str::parse, XML attributes), from API arguments or from unknown callees has no class.  An
`Overflow(Add)` / `Overflow(Mul)` assertion on a 64-bit type whose operands all have a class cannot fire: the sum of
feasibly many such quantities stays below 2^63 (stated as an assumption in the evidence)."""
from mirlib import *

ORDER = {"small": 0, "acc": 1, "mem": 2, "dev": 3}
MEM_CALLS = ("::len", "::count", "::capacity")
DEV_CALLS = ("Seek::seek", "Seek::stream_position", "io::copy", "Seek::stream_len")


def _join(a, b):
    if a is None or b is None:
        return None
    return a if ORDER[a] >= ORDER[b] else b


class Magnitude:
    def __init__(self, prog, iv):
        self.prog, self.iv = prog, iv
        self._field = {}
        self._ret = {}
        self._param = {}

    # -- trees -----------------------------------------------------------------------------
    def tree(self, f, t, depth=0, self_ref=None):
        """class of the value tree t inside function f; self_ref = a sub-tree that stands for the accumulator itself"""
        if depth > 30:
            return None
        if self_ref is not None and t == self_ref:
            return "acc"
        k = t[0]
        if k in ("ok", "partial", "ref"):
            return self.tree(f, t[1], depth + 1, self_ref)
        if k == "const":
            v = t[2]
            return "small" if isinstance(v, int) and v < (1 << 32) else None
        if k == "cast":
            return self.tree(f, t[2], depth + 1, self_ref)
        if k == "unop":
            return None
        if k == "binop":
            op = t[1].replace("WithOverflow", "")
            a, b = self.tree(f, t[2], depth + 1, self_ref), self.tree(f, t[3], depth + 1, self_ref)
            if op == "Add":
                return _join(a, b)
            if op in ("Sub", "Div", "Rem", "Shr", "BitAnd"):
                if op == "Rem" and b == "small":
                    return "small"
                if op == "BitAnd":
                    return a if b is None else (b if a is None else (a if ORDER[a] <= ORDER[b] else b))
                return a
            if op == "Mul":
                if a == "small" and b is not None:
                    return b
                if b == "small" and a is not None:
                    return a
                return None
            return None
        if k == "field":
            return self.field(f, t)
        if k == "phi":
            res = "small"
            for a in t[1]:
                c = self.tree(f, a, depth + 1, self_ref)
                if c is None:
                    return None
                res = _join(res, c)
            return res
        if k == "local":
            return self.loop_var(f, t[1], depth)
        if k == "param":
            return self.param(f, t[1], depth)
        if k == "call":
            c = t[1]
            st = strip(t)
            if st is not t and st[0] != "call":
                return self.tree(f, st, depth + 1, self_ref)
            if st is not t:
                t, c = st, st[1]
            last = c.rsplit("::", 1)[-1]
            if any(c.endswith(x) for x in MEM_CALLS):
                return "mem"
            if any(c.endswith(x) for x in DEV_CALLS):
                return "dev"
            if last == "min" and len(t[2]) == 2:
                a, b = self.tree(f, t[2][0], depth + 1, self_ref), self.tree(f, t[2][1], depth + 1, self_ref)
                if a is None:
                    return b
                if b is None:
                    return a
                return a if ORDER[a] <= ORDER[b] else b
            if last == "max" and len(t[2]) == 2:
                return _join(self.tree(f, t[2][0], depth + 1, self_ref), self.tree(f, t[2][1], depth + 1, self_ref))
            if last in ("saturating_sub", "checked_sub", "wrapping_sub", "abs_diff") and t[2]:
                return self.tree(f, t[2][0], depth + 1, self_ref)
            if last in ("ilog2", "leading_zeros", "trailing_zeros", "count_ones"):
                return "small"
            if last in ("sum", "max", "min") and len(t[2]) == 1 and "Iterator" in c:
                # the sum / an extreme of the items of an iterator: the class of the items (a sum accumulates)
                ic = self._iter_items(f, t[2][0], depth + 1)
                return _join(ic, "acc") if (ic is not None and last == "sum") else ic
            if last == "next" and t[2]:
                # induction variable of `for i in lo..hi`: below hi
                for x in leaves(t[2][0]):
                    if x[0] == "agg" and x[1][0] == "adt" and x[1][2] in ("Range", "RangeInclusive") and len(x[2]) >= 2:
                        return _join(self.tree(f, x[2][0], depth + 1, self_ref), self.tree(f, x[2][1], depth + 1, self_ref))
                return None
            g = self.prog.fns.get(c)
            if g is not None:
                return self.fn_return(g, depth)
            return None
        if k == "index":
            return None
        return None

    def _iter_items(self, f, it, depth):
        """class of the items an iterator expression yields (None when unknown)"""
        if depth > 20:
            return None
        x = strip(it)            # iter()/into_iter()/by_ref are transparent
        if x[0] != "call":
            # iterating a local collection: the class of what was collected into it
            return None
        last = x[1].rsplit("::", 1)[-1]
        if last in ("collect", "copied", "cloned", "rev", "skip", "take", "filter", "peekable", "fuse", "chain") and x[2]:
            return self._iter_items(f, x[2][0], depth + 1)
        if last in ("map", "filter_map") and len(x[2]) == 2:
            cl = strip(x[2][1])
            if cl[0] == "const" and isinstance(cl[2], tuple) and cl[2] and cl[2][0] == "fn":
                return "mem" if any(str(cl[2][1]).endswith(s_) for s_ in MEM_CALLS) else None
            if cl[0] == "agg" and cl[1][0] == "closure" and cl[1][1] in self.prog.fns:
                g = self.prog.fns[cl[1][1]]
                rt = Resolver(g, max_depth=24).local(0)
                alts = rt[1] if rt[0] == "phi" else (rt,)
                res = "small"
                for a in alts:
                    a = strip(a)
                    if a[0] == "agg" and a[1][0] == "adt" and a[1][1].endswith("option::Option"):
                        if a[1][2] != "Some":
                            continue
                        a = a[2][0]
                    c_ = self.tree(g, strip_deep(a), depth + 1)
                    if c_ is None:
                        return None
                    res = _join(res, c_)
                return res
        return None

    # -- summaries -------------------------------------------------------------------------
    def fn_return(self, g, depth=0):
        if g.path in self._ret:
            return self._ret[g.path]
        self._ret[g.path] = None
        res = None
        if depth < 6:
            v = self.iv.fn_return(g, 0, frozenset()) if hasattr(self.iv, "fn_return") else None
            if v is not None and 0 <= v[0] and v[1] < (1 << 40):
                res = "small"
            else:
                pay = self.iv.ok_payload_interval(g) if "Result<" in g.ret_ty() else None
                if pay is not None and 0 <= pay[0] and pay[1] < (1 << 40):
                    res = "small"
                else:
                    t = Resolver(g, max_depth=24).local(0)
                    t = strip(t)
                    if t[0] == "agg" and t[1][0] == "adt" and t[1][2] in ("Ok", "Some") and t[2]:
                        t = t[2][0]
                    res = self.tree(g, t, depth + 1)
        self._ret[g.path] = res
        return res

    def param(self, f, j, depth):
        key = (f.path, j)
        if key in self._param:
            return self._param[key]
        self._param[key] = None
        res = None
        ty = f.locals[j]["ty"] if j < len(f.locals) else ""
        if f.public or f.trait or depth > 6:
            res = None
        else:
            sites = []
            for p, g in self.prog.fns.items():
                for bi, t in g.calls(lambda c, t: c == f.path):
                    if j - 1 < len(t["args"]):
                        v = self.iv.operand(g, t["args"][j - 1], bi)
                        if v is not None and 0 <= v[0] and v[1] < (1 << 40):
                            sites.append("small")
                        else:
                            sites.append(self.tree(g, strip_deep(Resolver(g, max_depth=24).operand(t["args"][j - 1])), depth + 1))
            if sites and all(s is not None for s in sites):
                res = "small"
                for s in sites:
                    res = _join(res, s)
        self._param[key] = res
        return res

    def field(self, f, t):
        """class of self.<field chain>: interval invariant, else accumulation summary over every store in the crate"""
        chain, b = [t[2]], t[1]
        while b[0] == "field":
            chain.append(b[2])
            b = b[1]
        if strip(b)[0] != "param":
            return None
        chain.reverse()
        ty = f.locals[strip(b)[1]]["ty"].replace("&mut ", "").replace("&", "").strip()
        adt = ty.split("<")[0]
        for name in chain[:-1]:
            a = self.prog.adts.get(adt)
            fty = next((x["ty"] for v in (a["variants"] if a else []) for x in v["fields"] if x["name"] == name), None)
            if fty is None:
                return None
            adt = fty.split("<")[0]
        name = chain[-1]
        if len(chain) >= 2:
            r = self._nested_field(f, strip(b)[1], chain, adt, name)
            if r is not None:
                return r
        key = (adt, name)
        if key in self._field:
            return self._field[key]
        self._field[key] = None
        a = self.prog.adts.get(adt)
        fty = next((x["ty"] for v in (a["variants"] if a else []) for x in v["fields"] if x["name"] == name), None)
        res = None
        if a is not None and fty in ("u64", "usize", "u32", "u16", "u8"):
            inv = self.iv.field_invariant(adt, name, fty)
            if inv is not None and 0 <= inv[0] and inv[1] < (1 << 40):
                res = "small"
            elif not (a.get("exported") and any(x["name"] == name and x.get("pub") for v in a["variants"] for x in v["fields"])):
                res = self._accumulator_field(adt, name)
        self._field[key] = res
        return res

    def _nested_field(self, f, pj, chain, inner_adt, name):
        """owner.<holder>.<name>: an embedded struct instance.  Only the stores that go through this holder count: direct
        stores `self.holder.name = v`, and whole-holder stores `holder: X` whose X is a struct literal or a local
        constructor returning one (Default::default)."""
        oty = f.locals[pj]["ty"].replace("&mut ", "").replace("&", "").strip()
        owner = oty.split("<")[0]
        holder = chain[-2]
        key = (owner, tuple(chain))
        if key in self._field:
            return self._field[key]
        self._field[key] = None
        if len(chain) != 2:
            return None
        oa = self.prog.adts.get(owner)
        if oa is None or (oa.get("exported") and any(x["name"] == holder and x.get("pub") for v in oa["variants"] for x in v["fields"])):
            return None
        res, seen = "small", 0

        def lit_field(g, t, depth=0):
            """class of field `name` of the struct value t"""
            t = strip(t)
            if t[0] == "agg" and t[1][0] == "adt" and t[1][1] == inner_adt and name in t[1][3]:
                return self.tree(g, strip_deep(t[2][t[1][3].index(name)]))
            if t[0] == "call" and t[1] in self.prog.fns and depth < 3:
                h = self.prog.fns[t[1]]
                return lit_field(h, Resolver(h, max_depth=24).local(0), depth + 1)
            if t[0] == "phi":
                r = "small"
                for a in t[1]:
                    c = lit_field(g, a, depth)
                    if c is None:
                        return None
                    r = _join(r, c)
                return r
            return None
        for p, g in self.prog.fns.items():
            R = None
            # stores through the holder
            for n_, ds in g.defs().items():
                for kind, payload, bi, si, place in ds:
                    if bi not in g.cfg() or not place["proj"]:
                        continue
                    fl = [e for e in place["proj"] if e["k"] == "field"]
                    if len(fl) >= 2 and fl[-1]["name"] == name and fl[-1].get("adt") == inner_adt and fl[-2]["name"] == holder and fl[-2].get("adt") == owner:
                        R = R or Resolver(g, max_depth=24)
                        t = strip_deep(R.rvalue(payload)) if kind == "stmt" else strip_deep(R._call(payload, bi, 0, frozenset()))
                        c = self._acc_tree(g, t, inner_adt, name)
                        if c is None:
                            return None
                        res, seen = _join(res, c), seen + 1
                    elif fl and fl[-1]["name"] == holder and fl[-1].get("adt") == owner and place["proj"][-1] is fl[-1]:
                        R = R or Resolver(g, max_depth=24)
                        t = R.rvalue(payload) if kind == "stmt" else R._call(payload, bi, 0, frozenset())
                        c = lit_field(g, t)
                        if c is None:
                            return None
                        res, seen = _join(res, c), seen + 1
            for bi in g.cfg():
                for st in g.blocks[bi]["stmts"]:
                    rv = st["rv"]
                    if rv["k"] == "aggregate" and rv["kind"].get("agg") == "adt" and rv["kind"]["adt"] == owner and holder in rv["kind"]["fields"]:
                        R = R or Resolver(g, max_depth=24)
                        c = lit_field(g, R.operand(rv["ops"][rv["kind"]["fields"].index(holder)]))
                        if c is None:
                            return None
                        res, seen = _join(res, c), seen + 1
        out = _join(res, "acc") if seen else None
        self._field[key] = out
        return out

    def _accumulator_field(self, adt, name):
        """every store into adt.name anywhere is a small/mem/dev value or `old + such a value` / `old - x` / `old % k`"""
        res = "small"
        seen = 0
        for p, g in self.prog.fns.items():
            R = None
            stores = []
            for bi, si, kind, payload in field_assignments(g, adt, name):
                stores.append((kind, payload, bi))
            for bi in g.cfg():
                for st in g.blocks[bi]["stmts"]:
                    rv = st["rv"]
                    if rv["k"] == "aggregate" and rv["kind"].get("agg") == "adt" and rv["kind"]["adt"] == adt and name in rv["kind"]["fields"]:
                        stores.append(("op", rv["ops"][rv["kind"]["fields"].index(name)], bi))
            for kind, payload, bi in stores:
                R = R or Resolver(g, max_depth=24)
                if kind == "op":
                    t = strip_deep(R.operand(payload))
                elif kind == "stmt":
                    t = strip_deep(R.rvalue(payload))
                else:
                    t = strip_deep(R._call(payload, bi, 0, frozenset()))
                seen += 1
                c = self._acc_tree(g, t, adt, name)
                if c is None:
                    return None
                res = _join(res, c)
        return _join(res, "acc") if seen else None

    def _acc_tree(self, g, t, adt, name):
        """class of a stored value where reads of the same field count as the accumulator"""
        def is_self(x):
            return x[0] == "field" and x[2] == name and strip(x[1])[0] in ("param", "field", "local")

        def walk(x, depth=0):
            if depth > 30:
                return None
            if is_self(x):
                return "acc"
            k = x[0]
            if k == "cast":
                return walk(x[2], depth + 1)
            if k == "binop":
                op = x[1].replace("WithOverflow", "")
                a, b = walk(x[2], depth + 1), walk(x[3], depth + 1)
                if op == "Add":
                    return _join(a, b)
                if op in ("Sub", "Div", "Rem", "Shr", "BitAnd"):
                    return "small" if (op == "Rem" and b == "small") else a
                if op == "Mul":
                    if a == "small" and b not in (None, "acc"):
                        return b
                    if b == "small" and a not in (None, "acc"):
                        return a
                    return None
                return None
            if k == "phi":
                r = "small"
                for a in x[1]:
                    c = walk(a, depth + 1)
                    if c is None:
                        return None
                    r = _join(r, c)
                return r
            return self.tree(g, x, depth + 1)
        return walk(t)

    def loop_var(self, f, n, depth):
        """an unresolved local inside a tree: a loop-carried variable.  class = join of its definitions, where uses of
        itself may only be added to / subtracted from"""
        if depth > 8:
            return None
        ds = f.whole_defs(n)
        if not ds or f.defs().get(n) and len(f.defs()[n]) != len(ds):
            return None
        R = Resolver(f, max_depth=24)
        res = "small"
        me = ("local", n)
        for kind, payload, bi, si, place in ds:
            t = strip_deep(R.rvalue(payload)) if kind == "stmt" else strip_deep(R._call(payload, bi, 0, frozenset()))

            def walk(x, d=0):
                if d > 30:
                    return None
                if x == me:
                    return "acc"
                k = x[0]
                if k == "cast":
                    return walk(x[2], d + 1)
                if k in ("ok", "partial"):
                    return walk(x[1], d + 1)
                if k == "binop":
                    op = x[1].replace("WithOverflow", "")
                    a, b = walk(x[2], d + 1), walk(x[3], d + 1)
                    if op == "Add":
                        return _join(a, b)
                    if op in ("Sub", "Div", "Rem", "Shr", "BitAnd"):
                        return "small" if (op == "Rem" and b == "small") else a
                    if op == "Mul":
                        if a == "small" and b not in (None, "acc"):
                            return b
                        if b == "small" and a not in (None, "acc"):
                            return a
                    return None
                if k == "phi":
                    r = "small"
                    for a in x[1]:
                        c = walk(a, d + 1)
                        if c is None:
                            return None
                        r = _join(r, c)
                    return r
                if k == "local":
                    return "acc" if x[1] == n else via_local(x[1], d)
                if k == "field" and x[1][0] == "local" and x[2] == "0":
                    return via_local(x[1][1], d)
                return self.tree(f, x, depth + 1)

            def via_local(m, d):
                """a temporary inside the cycle (the checked-arithmetic tuple): evaluate its operands directly"""
                dm = f.whole_defs(m)
                if len(dm) != 1 or dm[0][0] != "stmt" or dm[0][1]["k"] != "binop" or d > 30:
                    return None
                rv = dm[0][1]
                op = rv["op"].replace("WithOverflow", "")

                def opc(o):
                    pl = op_place(o)
                    if pl is not None and not pl["proj"] and pl["local"] == n:
                        return "acc"
                    return walk(strip_deep(R.operand(o)), d + 1)
                a, b = opc(rv["a"]), opc(rv["b"])
                if op == "Add":
                    return _join(a, b)
                if op in ("Sub", "Div", "Rem", "Shr", "BitAnd"):
                    return "small" if (op == "Rem" and b == "small") else a
                return None
            c = walk(t)
            if c is None:
                return None
            res = _join(res, c)
        return res
