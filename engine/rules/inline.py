"""MIR-level inlining of helper functions that the rules do not know (A10).

Rules are anchored on the functions of the reference tree (spec/known_functions.json).  A refactoring that moves part
of an anchored function into a new private helper (or a directly called closure) must not change any verdict, so
before any rule runs every call to a local function that is *not* in the known list is replaced by the callee's body:

  * parameters become fresh locals assigned from the arguments (closure calls: environment + spread tuple),
  * the callee's return place is the call's destination, so `_0 = Ok(v)` / `_0 = Err(e)` keep their class,
  * `helper(..)?` is threaded: every return site of the helper gets its own copy of the caller's
    [converter ->] Try::branch -> switch chain, with the edge its class cannot take removed (an Err return never
    continues, an Ok return never breaks).  Without this the rejecting branches of an extracted check would seem to
    reach the success path.

Helpers all of whose call sites were inlined (and whose address is not taken) are removed from the program, so that
who-may-write / who-may-call tables and the panic inventory attribute their code to the callers.  Inlining preserves
semantics; it only changes the shape the rules look at.  Recursive helpers and helpers above a size bound are left
alone (the rules then see an opaque local call, as before)."""
import copy
import json
import os

MAX_CALLEE_BLOCKS = 400
MAX_ROUNDS = 6
CONVERTERS = ("read_err", "write_err", "invalid_err", "internal_err", "context", "with_context")


def _callee(term):
    c = term["callee"]
    return c.get("resolved") or c.get("path") or "<indirect>"


def _succs(term):
    k = term["k"]
    if k == "goto":
        return [term["target"]]
    if k == "switch":
        return [b for _, b in term["targets"]] + [term["otherwise"]]
    if k == "call":
        return [term["target"]] if term["target"] >= 0 else []
    if k in ("assert", "drop"):
        return [term["target"]]
    return []


def _map_place(pl, lm):
    proj = []
    for e in pl["proj"]:
        if e["k"] == "index":
            e = dict(e)
            e["local"] = lm(e["local"])
        proj.append(e)
    return {"local": lm(pl["local"]), "proj": proj}


def _map_op(o, lm):
    if o.get("k") in ("copy", "move"):
        n = dict(o)
        n["place"] = _map_place(o["place"], lm)
        return n
    return o


def _map_rv(rv, lm):
    k = rv["k"]
    n = dict(rv)
    if k in ("ref", "discr"):
        n["place"] = _map_place(rv["place"], lm)
    elif k == "use":
        n["op"] = _map_op(rv["op"], lm)
    elif k == "aggregate":
        n["ops"] = [_map_op(o, lm) for o in rv["ops"]]
    elif k in ("cast", "unop", "repeat"):
        n["a"] = _map_op(rv["a"], lm)
    elif k == "binop":
        n["a"] = _map_op(rv["a"], lm)
        n["b"] = _map_op(rv["b"], lm)
    else:
        for key, v in rv.items():
            if isinstance(v, dict) and "k" in v:
                n[key] = _map_op(v, lm)
    return n


def _map_term(t, lm, bm):
    k = t["k"]
    n = dict(t)
    if k == "goto":
        n["target"] = bm(t["target"])
    elif k == "switch":
        n["discr"] = _map_op(t["discr"], lm)
        n["targets"] = [[v, bm(b)] for v, b in t["targets"]]
        n["otherwise"] = bm(t["otherwise"])
    elif k == "call":
        n["args"] = [_map_op(a, lm) for a in t["args"]]
        if "indirect" in t["callee"]:
            n["callee"] = {"indirect": _map_op(t["callee"]["indirect"], lm)}
        n["dest"] = _map_place(t["dest"], lm)
        n["target"] = bm(t["target"]) if t["target"] >= 0 else t["target"]
    elif k == "assert":
        n["cond"] = _map_op(t["cond"], lm)
        n["ops"] = [_map_op(o, lm) for o in t["ops"]]
        n["target"] = bm(t["target"])
    elif k == "drop":
        n["place"] = _map_place(t["place"], lm)
        n["target"] = bm(t["target"])
    return n


def _class_of_def(kind, payload, prog=None):
    """ok | err | unknown for an assignment to the return place"""
    if kind == "call":
        c = _callee(payload)
        if c.endswith("::from_residual") or (prog is not None and prog.is_always_err(c)):
            return "err"
        return "unknown"
    rv = payload
    if rv["k"] == "aggregate" and rv["kind"].get("agg") == "adt":
        adt, var = rv["kind"]["adt"], rv["kind"]["variant"]
        if adt.endswith("result::Result"):
            return "ok" if var == "Ok" else "err"
        if adt.endswith("option::Option"):
            return "ok" if var == "Some" else "err"
    return "unknown"


RESULT, OPTION = "std::result::Result", "std::option::Option"

# combinator -> (enum, {variant: action}); actions: ("wrap", V) = V(f(payload)), "call" = f(payload) as it is,
# ("keep", V) = V(payload), "payload" = the payload itself, ("unit", V) = the payload-less variant V,
# ("wrapcall0", V) = V(f()), "call0" = f()
COMBINATORS = {
    "result::Result::<T, E>::map": (RESULT, {"Ok": ("wrap", RESULT, "Ok"), "Err": ("keep", RESULT, "Err")}),
    "result::Result::<T, E>::map_err": (RESULT, {"Ok": ("keep", RESULT, "Ok"), "Err": ("wrap", RESULT, "Err")}),
    "result::Result::<T, E>::and_then": (RESULT, {"Ok": ("call",), "Err": ("keep", RESULT, "Err")}),
    "result::Result::<T, E>::unwrap_or_else": (RESULT, {"Ok": ("payload",), "Err": ("call",)}),
    "option::Option::<T>::map": (OPTION, {"Some": ("wrap", OPTION, "Some"), "None": ("unit", OPTION, "None")}),
    "option::Option::<T>::and_then": (OPTION, {"Some": ("call",), "None": ("unit", OPTION, "None")}),
    "option::Option::<T>::unwrap_or_else": (OPTION, {"Some": ("payload",), "None": ("call0",)}),
    "option::Option::<T>::ok_or_else": (OPTION, {"Some": ("keep", RESULT, "Ok"), "None": ("wrapcall0", RESULT, "Err")}),
    "option::Option::<T>::or_else": (OPTION, {"Some": ("keep", OPTION, "Some"), "None": ("call0",)}),
    "result::Result::<T, E>::or_else": (RESULT, {"Ok": ("keep", RESULT, "Ok"), "Err": ("call",)}),
    "bool::<impl bool>::then": ("bool", {"true": ("wrapcall0", OPTION, "Some"), "false": ("unit", OPTION, "None")}),
    "option::Option::<T>::map_or": (OPTION, {"Some": ("call",), "None": ("default",)}),
    "option::Option::<T>::is_some_and": (OPTION, {"Some": ("call",), "None": ("false",)}),
    "option::Option::<T>::is_none_or": (OPTION, {"Some": ("call",), "None": ("true",)}),
    "result::Result::<T, E>::is_ok_and": (RESULT, {"Ok": ("call",), "Err": ("false",)}),
    "result::Result::<T, E>::map_or": (RESULT, {"Ok": ("call",), "Err": ("default",)}),
}
VIDX = {(RESULT, "Ok"): 0, (RESULT, "Err"): 1, (OPTION, "None"): 0, (OPTION, "Some"): 1}


def _closure_def(blocks, op):
    """def path of the closure (or fn item) an operand denotes"""
    if op.get("k") == "const" and "fn" in op:
        return ("fn", op.get("fn_resolved") or op["fn"])
    if op.get("k") not in ("copy", "move") or op["place"]["proj"]:
        return None
    n = op["place"]["local"]
    found = None
    for b in blocks:
        if b["cleanup"]:
            continue
        for st in b["stmts"]:
            if st["place"]["local"] == n:
                rv = st["rv"]
                if not st["place"]["proj"] and rv["k"] == "aggregate" and rv["kind"].get("agg") == "closure" and found is None:
                    found = ("closure", rv["kind"]["def"])
                else:
                    return None
        t = b["term"]
        if t["k"] == "call" and t["dest"]["local"] == n:
            return None
    return found


def expand_combinators(prog, d):
    """rewrites r.map(f) / o.and_then(f) / ... into the match they stand for, with a direct call of the closure (which
    the inliner then splices in).  returns True when something changed."""
    blocks, locs = d["blocks"], d["locals"]
    changed = False
    for bi in range(len(blocks)):
        b = blocks[bi]
        if b["cleanup"]:
            continue
        t = b["term"]
        if t["k"] != "call" or t["target"] < 0 or len(t["args"]) not in (2, 3):
            continue
        c = _callee(t)
        key = next((k for k in COMBINATORS if c.endswith(k)), None)
        if key is None:
            continue
        has_default = any(a[0] == "default" for a in COMBINATORS[key][1].values())
        if (len(t["args"]) == 3) != has_default:
            continue
        recv, fop = t["args"][0], t["args"][-1]
        default_op = t["args"][1] if has_default else None
        if recv.get("k") not in ("copy", "move"):
            continue
        fdef = _closure_def(blocks, fop)
        if fdef is None or (fdef[0] == "closure" and fdef[1] not in prog.fns):
            continue
        enum, acts = COMBINATORS[key]
        line = t.get("span", {}).get("l0", 0)
        span = t.get("span", {"file": "", "l0": line, "l1": line, "exp": False})
        dest, target = t["dest"], t["target"]

        def new_local(ty, name=""):
            locs.append({"ty": ty, "name": name})
            return len(locs) - 1
        # hold the receiver in a plain local
        rl = new_local("?", "")
        b["stmts"].append({"place": {"local": rl, "proj": []}, "rv": {"k": "use", "op": recv}, "line": line})
        if enum == "bool":
            dl = rl
        else:
            dl = new_local("isize")
            b["stmts"].append({"place": {"local": dl, "proj": []}, "rv": {"k": "discr", "place": {"local": rl, "proj": []}}, "line": line})
        arms = {}
        for variant, act in acts.items():
            nb = {"cleanup": False, "stmts": [], "term": {"k": "goto", "target": target}, "expanded": key}
            blocks.append(nb)
            arms[variant] = len(blocks) - 1
            has_payload = variant in ("Ok", "Err", "Some")
            pay = None
            if has_payload:
                pay = {"local": rl, "proj": [{"k": "downcast", "variant": variant, "vidx": VIDX[(enum, variant)]}, {"k": "field", "idx": 0, "name": "0", "adt": enum, "ty": "?"}]}

            def agg(en, var, ops):
                return {"k": "aggregate", "kind": {"agg": "adt", "adt": en, "variant": var, "vidx": VIDX[(en, var)], "fields": ["0"] if ops else []}, "ops": ops}

            def call_f(args_ops, then_stmt, direct=False):
                """call the closure / fn with the given operands; result local returned; the arm block is split.
                direct: the call's result is the combinator's result (the inliner can then thread a following `?`)"""
                if direct and not dest["proj"]:
                    if fdef[0] == "closure":
                        tup = new_local("(?,)")
                        nb["stmts"].append({"place": {"local": tup, "proj": []}, "rv": {"k": "aggregate", "kind": {"agg": "tuple"}, "ops": args_ops}, "line": line})
                        cargs = [fop, {"k": "move", "place": {"local": tup, "proj": []}}]
                    else:
                        cargs = args_ops
                    nb["term"] = {"k": "call", "callee": {"path": fdef[1], "resolved": fdef[1], "is_resolved": True, "local": True, "crate": "", "args": []},
                                  "args": cargs, "dest": dest, "target": target, "span": span}
                    return
                res = new_local("?")
                if fdef[0] == "closure":
                    tup = new_local("(?,)")
                    nb["stmts"].append({"place": {"local": tup, "proj": []}, "rv": {"k": "aggregate", "kind": {"agg": "tuple"}, "ops": args_ops}, "line": line})
                    cargs = [fop, {"k": "move", "place": {"local": tup, "proj": []}}]
                else:
                    cargs = args_ops
                cont = {"cleanup": False, "stmts": [], "term": {"k": "goto", "target": target}, "expanded": key}
                blocks.append(cont)
                nb["term"] = {"k": "call", "callee": {"path": fdef[1], "resolved": fdef[1], "is_resolved": True, "local": True, "crate": "", "args": []},
                              "args": cargs, "dest": {"local": res, "proj": []}, "target": len(blocks) - 1, "span": span}
                cont["stmts"].append({"place": dest, "rv": then_stmt(res), "line": line})
            kind = act[0]
            if kind == "wrap":
                call_f([{"k": "move", "place": pay}], lambda r, act=act: agg(act[1], act[2], [{"k": "move", "place": {"local": r, "proj": []}}]))
            elif kind == "call":
                call_f([{"k": "move", "place": pay}], lambda r: {"k": "use", "op": {"k": "move", "place": {"local": r, "proj": []}}}, direct=True)
            elif kind == "call0":
                call_f([], lambda r: {"k": "use", "op": {"k": "move", "place": {"local": r, "proj": []}}}, direct=True)
            elif kind == "wrapcall0":
                call_f([], lambda r, act=act: agg(act[1], act[2], [{"k": "move", "place": {"local": r, "proj": []}}]))
            elif kind == "keep":
                nb["stmts"].append({"place": dest, "rv": agg(act[1], act[2], [{"k": "move", "place": pay}]), "line": line})
            elif kind == "payload":
                nb["stmts"].append({"place": dest, "rv": {"k": "use", "op": {"k": "move", "place": pay}}, "line": line})
            elif kind == "unit":
                nb["stmts"].append({"place": dest, "rv": agg(act[1], act[2], []), "line": line})
            elif kind == "default":
                nb["stmts"].append({"place": dest, "rv": {"k": "use", "op": default_op}, "line": line})
            elif kind in ("true", "false"):
                nb["stmts"].append({"place": dest, "rv": {"k": "use", "op": {"k": "const", "ty": "bool", "bits": "1" if kind == "true" else "0", "size": 1, "dbg": kind}}, "line": line})
        # a following `?`: arms whose class is known get their own copy of the branch/switch chain
        chain = Inliner._try_chain(None, blocks, target, dest["local"]) if not dest["proj"] else None
        if chain is not None:
            chain_blocks, cont_b, brk_b = chain
            for variant, act in acts.items():
                cls = None
                if act[0] in ("wrap", "keep", "wrapcall0") and act[2] in ("Ok", "Some"):
                    cls = "ok"
                elif act[0] in ("keep", "unit", "wrap", "wrapcall0") and act[2] in ("Err", "None"):
                    cls = "err"
                if cls is None:
                    continue
                # the last block of this arm is the one that jumps to `target`
                last = arms[variant]
                seen_ = set()
                while blocks[last]["term"]["k"] == "call" and last not in seen_:
                    seen_.add(last)
                    last = blocks[last]["term"]["target"]
                if blocks[last]["term"] != {"k": "goto", "target": target}:
                    continue
                cstart = len(blocks)
                for k_, n_ in enumerate(chain_blocks):
                    nb2 = copy.deepcopy(blocks[n_])
                    if k_ + 1 < len(chain_blocks):
                        nb2["term"]["target"] = cstart + k_ + 1
                    else:
                        nb2["term"] = {"k": "goto", "target": cont_b if cls == "ok" else brk_b}
                    nb2["threaded"] = cls
                    blocks.append(nb2)
                blocks[last]["term"] = {"k": "goto", "target": cstart}
        variants = list(acts)
        if enum == "bool":
            b["term"] = {"k": "switch", "discr": {"k": "copy", "place": {"local": dl, "proj": []}}, "targets": [["0", arms["false"]]], "otherwise": arms["true"], "span": span}
        else:
            targets = [[str(VIDX[(enum, v)]), arms[v]] for v in variants]
            dead = {"cleanup": False, "stmts": [], "term": {"k": "unreachable"}}
            blocks.append(dead)
            b["term"] = {"k": "switch", "discr": {"k": "move", "place": {"local": dl, "proj": []}}, "targets": targets, "otherwise": len(blocks) - 1, "span": span}
        changed = True
    return changed


def _try_chain_impl(blocks, start, dest_local):
    """[converter calls ->] Try::branch(move v) -> switch on its discriminant, starting at block `start`, fed by the
    local dest_local.  returns (chain block ids, continue target, break target) or None"""
    chain, cur, val = [], start, dest_local
    for _ in range(4):
        b = blocks[cur]
        if b["cleanup"] or b["stmts"]:
            return None
        t = b["term"]
        if t["k"] != "call" or not t["args"] or t["target"] < 0:
            return None
        a0 = t["args"][0]
        if a0.get("k") not in ("move", "copy") or a0["place"]["proj"] or a0["place"]["local"] != val or t["dest"]["proj"]:
            return None
        c = _callee(t)
        chain.append(cur)
        if c.rsplit("::", 1)[-1] in CONVERTERS:
            val = t["dest"]["local"]
            cur = t["target"]
            continue
        if c.endswith("::branch"):
            sw = blocks[t["target"]]
            if sw["cleanup"] or sw["term"]["k"] != "switch" or len(sw["stmts"]) != 1:
                return None
            st = sw["stmts"][0]
            if st["rv"]["k"] != "discr" or st["rv"]["place"]["local"] != t["dest"]["local"] or st["rv"]["place"]["proj"]:
                return None
            e = {v: tgt for v, tgt in sw["term"]["targets"]}
            cont = e.get("0")
            brk = e.get("1", sw["term"]["otherwise"])
            if cont is None:
                return None
            chain.append(t["target"])
            return chain, cont, brk
        return None
    return None


class Inliner:
    def __init__(self, program, known_fns, known_direct_closures=()):
        self.prog = program
        self.known = set(known_fns)
        self.known_closures = set(known_direct_closures)
        self.inlined_calls = 0
        self.expand = True
        self.expanded = 0
        self.removed = []
        self.log = []

    # -- which callees ---------------------------------------------------------------------
    def _candidate(self, caller_path, term):
        c = _callee(term)
        g = self.prog.fns.get(c)
        if g is None or c == caller_path:
            return None
        if g.kind == "Closure":
            if c in self.known_closures:
                return None
        elif c in self.known:
            return None
        if g.trait:                       # trait impl methods are API (Read/Write/Iterator/Drop/Display impls)
            return None
        if len(g.blocks) > MAX_CALLEE_BLOCKS:
            return None
        if c in self._recursive:
            return None
        return g

    def _find_recursive(self):
        # callees that can reach themselves through unknown functions only
        graph = {}
        for p, f in self.prog.fns.items():
            outs = set()
            for b in f.blocks:
                if b["cleanup"]:
                    continue
                t = b["term"]
                if t["k"] == "call":
                    outs.add(_callee(t))
            graph[p] = outs
        rec = set()
        for p in graph:
            seen, st = set(), list(graph[p])
            while st:
                n = st.pop()
                if n == p:
                    rec.add(p)
                    break
                if n in seen or n not in graph:
                    continue
                seen.add(n)
                st.extend(graph[n])
        return rec

    # -- driver ------------------------------------------------------------------------------
    def run(self):
        from mirlib import Fn
        self._recursive = self._find_recursive()
        for _ in range(MAX_ROUNDS):
            changed = False
            for p in sorted(self.prog.fns):
                f = self.prog.fns[p]
                if self.expand and any(b["term"]["k"] == "call" and not b["cleanup"] and any(_callee(b["term"]).endswith(k) for k in COMBINATORS) for b in f.blocks):
                    d2 = dict(f.d)
                    d2["blocks"] = copy.deepcopy(f.blocks)
                    d2["locals"] = list(f.locals)
                    if expand_combinators(self.prog, d2):
                        f = Fn(d2, f.crate)
                        f.program = self.prog
                        self.prog.fns[p] = f
                        self.expanded += 1
                        changed = True
                new_d = self._inline_in(f)
                if new_d is not None:
                    nf = Fn(new_d, f.crate)
                    nf.program = self.prog
                    self.prog.fns[p] = nf
                    changed = True
            if not changed:
                break
        self._devirtualise()
        self.prog._cg = None
        self.prog._always_err = {}
        # remove helpers that are no longer called (never known, never public API of a known type, address not taken)
        called, taken = set(), set()
        for p, f in self.prog.fns.items():
            for b in f.blocks:
                if b["cleanup"]:
                    continue
                t = b["term"]
                if t["k"] == "call":
                    called.add(_callee(t))
                    for o in t["args"]:
                        if o.get("k") == "const" and "fn" in o:
                            taken.add(o["fn"])
                for st in b["stmts"]:
                    rv = st["rv"]
                    if rv["k"] == "aggregate" and rv["kind"].get("agg") == "closure":
                        taken.add(rv["kind"]["def"])
                    for o in rv.get("ops", []) if rv["k"] == "aggregate" else []:
                        if o.get("k") == "const" and "fn" in o:
                            taken.add(o["fn"])
                    if rv["k"] == "use" and rv["op"].get("k") == "const" and "fn" in rv["op"]:
                        taken.add(rv["op"]["fn"])
        for p in sorted(self._was_inlined):
            f = self.prog.fns.get(p)
            if f is None or p in called or f.trait or f.public:
                continue
            if f.kind == "Closure":
                if p in self._closures_passed_on():
                    continue            # still handed to an iterator adapter or another callee
            elif p in taken:
                continue
            del self.prog.fns[p]
            self.removed.append(p)
        self.prog._cg = None
        return self

    _was_inlined = set()

    def _devirtualise(self):
        """a call through a local that only ever holds one fn item (a constructor passed as `wrap: fn(i64) -> T` to a
        helper that was inlined) becomes a direct call of that item"""
        from mirlib import Fn
        for p in sorted(self.prog.fns):
            f = self.prog.fns[p]
            todo = []
            for bi, b in enumerate(f.blocks):
                t = b["term"]
                if b["cleanup"] or t["k"] != "call" or "indirect" not in t["callee"]:
                    continue
                op = t["callee"]["indirect"]
                for _ in range(6):
                    if op.get("k") == "const":
                        break
                    if op.get("k") not in ("copy", "move") or op["place"]["proj"]:
                        op = None
                        break
                    ds = f.whole_defs(op["place"]["local"])
                    if len(ds) != 1 or len(f.defs().get(op["place"]["local"], [])) != 1 or ds[0][0] != "stmt" or ds[0][1]["k"] not in ("use", "cast"):
                        op = None
                        break
                    op = ds[0][1]["op"] if ds[0][1]["k"] == "use" else ds[0][1]["a"]
                if op is not None and op.get("k") == "const" and "fn" in op:
                    todo.append((bi, op))
            if not todo:
                continue
            d = dict(f.d)
            d["blocks"] = copy.deepcopy(f.blocks)
            for bi, op in todo:
                path = op.get("fn_resolved") or op["fn"]
                d["blocks"][bi]["term"]["callee"] = {"path": op["fn"], "resolved": path, "is_resolved": True, "local": path in self.prog.fns, "crate": "", "args": [], "devirtualised": True}
            nf = Fn(d, f.crate)
            nf.program = self.prog
            self.prog.fns[p] = nf

    def _closures_passed_on(self):
        """closures whose value still reaches a call argument somewhere (adapters, callbacks)"""
        out = set()
        for q, f in self.prog.fns.items():
            derived = {}
            for b in f.blocks:
                if b["cleanup"]:
                    continue
                for st in b["stmts"]:
                    rv = st["rv"]
                    if rv["k"] == "aggregate" and rv["kind"].get("agg") == "closure" and not st["place"]["proj"]:
                        derived[st["place"]["local"]] = rv["kind"]["def"]
            if not derived:
                continue
            for _ in range(4):
                for b in f.blocks:
                    if b["cleanup"]:
                        continue
                    for st in b["stmts"]:
                        rv = st["rv"]
                        src = None
                        if rv["k"] == "use" and rv["op"].get("k") in ("copy", "move") and not rv["op"]["place"]["proj"]:
                            src = rv["op"]["place"]["local"]
                        elif rv["k"] == "ref" and all(e["k"] == "deref" for e in rv["place"]["proj"]):
                            src = rv["place"]["local"]
                        elif rv["k"] == "cast" and rv["a"].get("k") in ("copy", "move") and not rv["a"]["place"]["proj"]:
                            src = rv["a"]["place"]["local"]
                        if src in derived and not st["place"]["proj"]:
                            derived.setdefault(st["place"]["local"], derived[src])
            for b in f.blocks:
                if b["cleanup"]:
                    continue
                t = b["term"]
                if t["k"] == "call":
                    for a in t["args"]:
                        if a.get("k") in ("copy", "move") and a["place"]["local"] in derived and not a["place"]["proj"]:
                            out.add(derived[a["place"]["local"]])
        return out

    def _inline_in(self, f):
        sites = []
        for bi, b in enumerate(f.blocks):
            if b["cleanup"]:
                continue
            t = b["term"]
            if t["k"] != "call" or t["target"] < 0:
                continue
            g = self._candidate(f.path, t)
            if g is not None:
                sites.append((bi, g))
        if not sites:
            return None
        d = dict(f.d)
        d["blocks"] = copy.deepcopy(f.blocks)
        d["locals"] = list(f.locals)
        for bi, g in sites:
            self._inline_site(d, bi, g)
            self.inlined_calls += 1
            self._was_inlined = self._was_inlined | {g.path}
            self.log.append((f.path, g.path))
        self._mark_dead(d)
        return d

    @staticmethod
    def _mark_dead(d):
        blocks = d["blocks"]
        seen, st = set(), [0]
        while st:
            n = st.pop()
            if n in seen:
                continue
            seen.add(n)
            for s in _succs(blocks[n]["term"]):
                if not blocks[s]["cleanup"]:
                    st.append(s)
        for i, b in enumerate(blocks):
            if i not in seen and not b["cleanup"]:
                b["cleanup"] = True
                b["dead"] = True

    # -- one call site -----------------------------------------------------------------------
    def _try_chain(self, blocks, start, dest_local):
        return _try_chain_impl(blocks, start, dest_local)

    def _unused(self, blocks, start, dest_local):
        """[converter calls ->] Try::branch(move v) -> switch on its discriminant, starting at block `start`, fed by the
        local dest_local.  returns (chain block ids, continue target, break target) or None"""
        chain, cur, val = [], start, dest_local
        for _ in range(4):
            b = blocks[cur]
            if b["cleanup"] or b["stmts"]:
                return None
            t = b["term"]
            if t["k"] != "call" or not t["args"] or t["target"] < 0:
                return None
            a0 = t["args"][0]
            if a0.get("k") not in ("move", "copy") or a0["place"]["proj"] or a0["place"]["local"] != val or t["dest"]["proj"]:
                return None
            c = _callee(t)
            chain.append(cur)
            if c.rsplit("::", 1)[-1] in CONVERTERS:
                val = t["dest"]["local"]
                cur = t["target"]
                continue
            if c.endswith("::branch"):
                sw = blocks[t["target"]]
                if sw["cleanup"] or sw["term"]["k"] != "switch" or len(sw["stmts"]) != 1:
                    return None
                st = sw["stmts"][0]
                if st["rv"]["k"] != "discr" or st["rv"]["place"]["local"] != t["dest"]["local"] or st["rv"]["place"]["proj"]:
                    return None
                e = {v: tgt for v, tgt in sw["term"]["targets"]}
                cont = e.get("0")
                brk = e.get("1", sw["term"]["otherwise"])
                if cont is None:
                    return None
                chain.append(t["target"])
                return chain, cont, brk
            return None
        return None

    def _inline_site(self, d, bi, g):
        blocks, locs = d["blocks"], d["locals"]
        call = blocks[bi]["term"]
        dest = call["dest"]
        target = call["target"]
        loff = len(locs)
        # locals: callee local 0 is the destination when that is a plain local
        direct_ret = not dest["proj"]
        for l in g.locals:
            locs.append(dict(l))

        def lm(n):
            if n == 0 and direct_ret:
                return dest["local"]
            return loff + n
        gb = copy.deepcopy(g.blocks)
        # normalise: an assignment to the return place ends its block
        i = 0
        while i < len(gb):
            b = gb[i]
            if not b["cleanup"]:
                for si, st in enumerate(b["stmts"]):
                    if st["place"]["local"] == 0 and not st["place"]["proj"] and (si + 1 < len(b["stmts"]) or b["term"]["k"] != "goto"):
                        rest = {"cleanup": False, "stmts": b["stmts"][si + 1:], "term": b["term"]}
                        gb.append(rest)
                        b["stmts"] = b["stmts"][:si + 1]
                        b["term"] = {"k": "goto", "target": len(gb) - 1}
                        break
            i += 1
        # return sites and their classes
        sites = []
        partial_ret = False
        for i, b in enumerate(gb):
            if b["cleanup"]:
                continue
            for st in b["stmts"]:
                if st["place"]["local"] == 0:
                    if st["place"]["proj"]:
                        partial_ret = True
                    else:
                        sites.append((i, _class_of_def("stmt", st["rv"], self.prog)))
            t = b["term"]
            if t["k"] == "call" and t["dest"]["local"] == 0:
                if t["dest"]["proj"]:
                    partial_ret = True
                else:
                    sites.append((i, _class_of_def("call", t, self.prog)))
        chain = self._try_chain(blocks, target, dest["local"]) if direct_ret else None
        thread = chain is not None and not partial_ret and any(c != "unknown" for _, c in sites)
        tails = {}
        if thread:
            site_blocks = {i for i, _ in sites}
            for i, cls in sites:
                tail, st = set(), list(_succs(gb[i]["term"]))
                ok = True
                while st:
                    n = st.pop()
                    if n in tail or gb[n]["cleanup"]:
                        continue
                    if n in site_blocks or len(tail) > 60:
                        ok = False
                        break
                    tail.add(n)
                    st.extend(_succs(gb[n]["term"]))
                if not ok:
                    thread = False
                    break
                tails[i] = tail
        boff = len(blocks)

        def bm(n):
            return boff + n
        ret_stmt = None
        if not direct_ret:
            ret_stmt = {"place": dest, "rv": {"k": "use", "op": {"k": "move", "place": {"local": loff, "proj": []}}}, "line": blocks[bi]["stmts"][-1]["line"] if blocks[bi]["stmts"] else g.span["l0"]}
        # main copy
        for i, b in enumerate(gb):
            nb = {"cleanup": b["cleanup"], "stmts": [{"place": _map_place(st["place"], lm), "rv": _map_rv(st["rv"], lm), "line": st.get("line", 0)} for st in b["stmts"]],
                  "term": _map_term(b["term"], lm, bm)}
            if b["term"]["k"] == "return":
                if ret_stmt is not None:
                    nb["stmts"].append(copy.deepcopy(ret_stmt))
                nb["term"] = {"k": "goto", "target": target}
            nb["inlined_from"] = g.path
            blocks.append(nb)
        if thread:
            chain_blocks, cont, brk = chain
            for i, cls in sites:
                # clone the tail of this return site
                tail = sorted(tails[i])
                tmap = {n: len(blocks) + k for k, n in enumerate(tail)}
                # clone of the caller's ?-chain for this site
                cstart = len(blocks) + len(tail)
                cmap = {n: cstart + k for k, n in enumerate(chain_blocks)}

                def tbm(n, tmap=tmap):
                    return tmap.get(n, boff + n)
                for n in tail:
                    b = gb[n]
                    nb = {"cleanup": False, "stmts": [{"place": _map_place(st["place"], lm), "rv": _map_rv(st["rv"], lm), "line": st.get("line", 0)} for st in b["stmts"]],
                          "term": _map_term(b["term"], lm, tbm), "inlined_from": g.path}
                    if b["term"]["k"] == "return":
                        nb["term"] = {"k": "goto", "target": cstart}
                    blocks.append(nb)
                for k, n in enumerate(chain_blocks):
                    nb = copy.deepcopy(blocks[n])
                    t = nb["term"]
                    if k + 1 < len(chain_blocks):
                        t["target"] = cmap[chain_blocks[k + 1]]
                    else:
                        # the switch: keep only the edge this class can take
                        if cls == "ok":
                            nb["term"] = {"k": "goto", "target": cont}
                        elif cls == "err":
                            nb["term"] = {"k": "goto", "target": brk}
                    nb["threaded"] = cls
                    blocks.append(nb)
                # retarget the site's own successor edges into its tail clone
                sb = blocks[boff + i]
                sb["term"] = _map_term(gb[i]["term"], lm, tbm)
                if gb[i]["term"]["k"] == "return":
                    sb["term"] = {"k": "goto", "target": cstart}
        # the call block: bind the parameters and jump to the callee's entry
        line = call.get("span", {}).get("l0", 0)
        args = call["args"]
        stmts = blocks[bi]["stmts"]
        if g.kind == "Closure" and len(args) == 2 and g.argc >= 1:
            stmts.append({"place": {"local": loff + 1, "proj": []}, "rv": {"k": "use", "op": args[0]}, "line": line})
            tup = args[1]
            for j in range(g.argc - 1):
                if tup.get("k") in ("copy", "move"):
                    pl = {"local": tup["place"]["local"], "proj": list(tup["place"]["proj"]) + [{"k": "field", "idx": j, "name": "", "adt": "tuple", "ty": g.locals[2 + j]["ty"]}]}
                    op = {"k": tup["k"], "place": pl}
                else:
                    op = tup
                stmts.append({"place": {"local": loff + 2 + j, "proj": []}, "rv": {"k": "use", "op": op}, "line": line})
        else:
            for j, a in enumerate(args[:g.argc]):
                stmts.append({"place": {"local": loff + 1 + j, "proj": []}, "rv": {"k": "use", "op": a}, "line": line})
        blocks[bi]["term"] = {"k": "goto", "target": boff}


def known_functions(cfg, crate):
    from facts import VERIF
    p = os.path.join(VERIF, "spec", "known_functions.json")
    if not os.path.exists(p):
        return None
    d = json.load(open(p))
    e = d.get("%s/%s" % (cfg, crate))
    return e
