"""MIR-level inlining of helper functions that the rules do not know (A10).

Rules are anchored on the functions of the reference tree (spec/known_functions.json).  A refactoring that moves part
of an anchored function into a new private helper (or a directly called closure) must not change any verdict, so
before any rule runs every call to a local function that is *not* in the known list is replaced by the callee's body:

  * parameters become fresh locals assigned from the arguments (closure calls: environment + spread tuple),
  * the callee's return place is the call's destination, so `_0 = Ok(v)` / `_0 = Err(e)` keep their class,
  * `helper(..)?` is threaded: every return site of the helper gets its own copy of the caller's
    [converter ->] Try::branch -> switch chain, with the edge its class cannot take removed (an Err return never
    continues, an Ok return never breaks).  Without this the rejecting branches of an extracted check would seem to
    reach the success path.

Helpers all of whose call sites were inlined (and whose address is not taken) are removed from the program, so that
who-may-write / who-may-call tables and the panic inventory attribute their code to the callers.  Inlining preserves
semantics; it only changes the shape the rules look at.  Recursive helpers and helpers above a size bound are left
alone (the rules then see an opaque local call, as before)."""
import copy
import re
import json
import os

MAX_CALLEE_BLOCKS = 400
MAX_ROUNDS = 6
LOWER_NEXT = True
CONVERTERS = ("read_err", "write_err", "invalid_err", "internal_err", "context", "with_context")


def _callee(term):
    c = term["callee"]
    return c.get("resolved") or c.get("path") or "<indirect>"


def _succs(term):
    k = term["k"]
    if k == "goto":
        return [term["target"]]
    if k == "switch":
        return [b for _, b in term["targets"]] + [term["otherwise"]]
    if k == "call":
        return [term["target"]] if term["target"] >= 0 else []
    if k in ("assert", "drop"):
        return [term["target"]]
    return []


def _map_place(pl, lm):
    proj = []
    for e in pl["proj"]:
        if e["k"] == "index":
            e = dict(e)
            e["local"] = lm(e["local"])
        proj.append(e)
    return {"local": lm(pl["local"]), "proj": proj}


def _map_op(o, lm):
    if o.get("k") in ("copy", "move"):
        n = dict(o)
        n["place"] = _map_place(o["place"], lm)
        return n
    return o


def _map_rv(rv, lm):
    k = rv["k"]
    n = dict(rv)
    if k in ("ref", "discr"):
        n["place"] = _map_place(rv["place"], lm)
    elif k == "use":
        n["op"] = _map_op(rv["op"], lm)
    elif k == "aggregate":
        n["ops"] = [_map_op(o, lm) for o in rv["ops"]]
    elif k in ("cast", "unop", "repeat"):
        n["a"] = _map_op(rv["a"], lm)
    elif k == "binop":
        n["a"] = _map_op(rv["a"], lm)
        n["b"] = _map_op(rv["b"], lm)
    else:
        for key, v in rv.items():
            if isinstance(v, dict) and "k" in v:
                n[key] = _map_op(v, lm)
    return n


def _map_term(t, lm, bm):
    k = t["k"]
    n = dict(t)
    if k == "goto":
        n["target"] = bm(t["target"])
    elif k == "switch":
        n["discr"] = _map_op(t["discr"], lm)
        n["targets"] = [[v, bm(b)] for v, b in t["targets"]]
        n["otherwise"] = bm(t["otherwise"])
    elif k == "call":
        n["args"] = [_map_op(a, lm) for a in t["args"]]
        if "indirect" in t["callee"]:
            n["callee"] = {"indirect": _map_op(t["callee"]["indirect"], lm)}
        n["dest"] = _map_place(t["dest"], lm)
        n["target"] = bm(t["target"]) if t["target"] >= 0 else t["target"]
    elif k == "assert":
        n["cond"] = _map_op(t["cond"], lm)
        n["ops"] = [_map_op(o, lm) for o in t["ops"]]
        n["target"] = bm(t["target"])
    elif k == "drop":
        n["place"] = _map_place(t["place"], lm)
        n["target"] = bm(t["target"])
    return n


def _class_of_def(kind, payload, prog=None):
    """ok | err | unknown for an assignment to the return place"""
    if kind == "call":
        c = _callee(payload)
        if c.endswith("::from_residual") or (prog is not None and prog.is_always_err(c)):
            return "err"
        return "unknown"
    rv = payload
    if rv["k"] == "aggregate" and rv["kind"].get("agg") == "adt":
        adt, var = rv["kind"]["adt"], rv["kind"]["variant"]
        if adt.endswith("result::Result"):
            return "ok" if var == "Ok" else "err"
        if adt.endswith("option::Option"):
            return "ok" if var == "Some" else "err"
    return "unknown"


RESULT, OPTION = "std::result::Result", "std::option::Option"

# combinator -> (enum, {variant: action}); actions: ("wrap", V) = V(f(payload)), "call" = f(payload) as it is,
# ("keep", V) = V(payload), "payload" = the payload itself, ("unit", V) = the payload-less variant V,
# ("wrapcall0", V) = V(f()), "call0" = f()
COMBINATORS = {
    "result::Result::<T, E>::map": (RESULT, {"Ok": ("wrap", RESULT, "Ok"), "Err": ("keep", RESULT, "Err")}),
    "result::Result::<T, E>::map_err": (RESULT, {"Ok": ("keep", RESULT, "Ok"), "Err": ("wrap", RESULT, "Err")}),
    "result::Result::<T, E>::and_then": (RESULT, {"Ok": ("call",), "Err": ("keep", RESULT, "Err")}),
    "result::Result::<T, E>::unwrap_or_else": (RESULT, {"Ok": ("payload",), "Err": ("call",)}),
    "option::Option::<T>::map": (OPTION, {"Some": ("wrap", OPTION, "Some"), "None": ("unit", OPTION, "None")}),
    "option::Option::<T>::and_then": (OPTION, {"Some": ("call",), "None": ("unit", OPTION, "None")}),
    "option::Option::<T>::unwrap_or_else": (OPTION, {"Some": ("payload",), "None": ("call0",)}),
    "option::Option::<T>::ok_or_else": (OPTION, {"Some": ("keep", RESULT, "Ok"), "None": ("wrapcall0", RESULT, "Err")}),
    "option::Option::<T>::or_else": (OPTION, {"Some": ("keep", OPTION, "Some"), "None": ("call0",)}),
    "result::Result::<T, E>::or_else": (RESULT, {"Ok": ("keep", RESULT, "Ok"), "Err": ("call",)}),
    "bool::<impl bool>::then": ("bool", {"true": ("wrapcall0", OPTION, "Some"), "false": ("unit", OPTION, "None")}),
    "bool::<impl bool>::then_some": ("bool", {"true": ("wrapval", OPTION, "Some"), "false": ("unit", OPTION, "None")}),
    "option::Option::<T>::map_or": (OPTION, {"Some": ("call",), "None": ("default",)}),
    "option::Option::<T>::map_or_else": (OPTION, {"Some": ("call",), "None": ("call0@1",)}),
    "result::Result::<T, E>::map_or_else": (RESULT, {"Ok": ("call",), "Err": ("call@1",)}),
    "option::Option::<T>::is_some_and": (OPTION, {"Some": ("call",), "None": ("false",)}),
    "option::Option::<T>::is_none_or": (OPTION, {"Some": ("call",), "None": ("true",)}),
    "result::Result::<T, E>::is_ok_and": (RESULT, {"Ok": ("call",), "Err": ("false",)}),
    "result::Result::<T, E>::map_or": (RESULT, {"Ok": ("call",), "Err": ("default",)}),
}
VIDX = {(RESULT, "Ok"): 0, (RESULT, "Err"): 1, (OPTION, "None"): 0, (OPTION, "Some"): 1}


def _closure_def(blocks, op, hops=0):
    """def path of the closure (or fn item) an operand denotes (through moves of the closure value)"""
    if op.get("k") == "const" and "fn" in op:
        return ("fn", op.get("fn_resolved") or op["fn"])
    if op.get("k") not in ("copy", "move") or op["place"]["proj"] or hops > 6:
        return None
    n = op["place"]["local"]
    found = None
    for b in blocks:
        if b["cleanup"]:
            continue
        for st in b["stmts"]:
            if st["place"]["local"] == n:
                rv = st["rv"]
                if st["place"]["proj"] or found is not None:
                    return None
                if rv["k"] == "aggregate" and rv["kind"].get("agg") == "closure":
                    found = ("closure", rv["kind"]["def"])
                elif rv["k"] == "use" and rv["op"].get("k") in ("copy", "move", "const"):
                    found = _closure_def(blocks, rv["op"], hops + 1)
                    if found is None:
                        return None
                else:
                    return None
        t = b["term"]
        if t["k"] == "call" and t["dest"]["local"] == n:
            return None
    return found


def _variant_ctor(prog, fdef):
    """(adt, variant, variant index, field names) when the fn item is a tuple-variant constructor"""
    path = fdef[1]
    std = {"std::result::Result::Ok": (RESULT, "Ok", 0), "std::result::Result::Err": (RESULT, "Err", 1), "std::option::Option::Some": (OPTION, "Some", 1),
           "core::result::Result::Ok": (RESULT, "Ok", 0), "core::result::Result::Err": (RESULT, "Err", 1), "core::option::Option::Some": (OPTION, "Some", 1)}
    if path in std:
        en, var, vi = std[path]
        return en, var, vi, ["0"]
    if "::" in path:
        adt, var = path.rsplit("::", 1)
        a = getattr(prog, "adts", {}).get(adt)
        if a is not None:
            for vi, v in enumerate(a["variants"]):
                if v["name"] == var and v["fields"] and all(str(x["name"]).isdigit() for x in v["fields"]):
                    return adt, var, vi, [str(x["name"]) for x in v["fields"]]
        elif path not in getattr(prog, "fns", {}) and re.match(r"^(?:.*::)?[A-Z]\w*::[A-Z][a-z]\w*$", path):
            # tuple-variant constructor of an enum of another crate (`e57::RecordValue::Single`): no ADT facts here, the
            # naming convention Type::Variant identifies it
            return adt, var, -1, ["0"]
    return None


def expand_structural(prog, d):
    """`Option<Result<T, E>>::transpose()` and `Option<Option<T>>::flatten()` are pure re-arrangements of variants:

        transpose: None => Ok(None), Some(Ok(v)) => Ok(Some(v)), Some(Err(e)) => Err(e)
        flatten:   None => None,     Some(x) => x

    spelled out as the switches they perform, with a following `?` threaded per arm."""
    blocks, locs = d["blocks"], d["locals"]
    changed = False
    for bi in range(len(blocks)):
        b = blocks[bi]
        if b["cleanup"] or b.get("structural_expanded"):
            continue
        t = b["term"]
        if t["k"] != "call" or t["target"] < 0 or len(t["args"]) != 1 or t["dest"]["proj"]:
            continue
        c = _callee(t)
        which = "transpose" if c.endswith("Option::<std::result::Result<T, E>>::transpose") else ("flatten" if c.endswith("Option::<std::option::Option<T>>::flatten") else None)
        if which is None:
            continue
        recv = t["args"][0]
        if recv.get("k") not in ("copy", "move"):
            continue
        line = t.get("span", {}).get("l0", 0)
        span = t.get("span", {"file": "", "l0": line, "l1": line, "exp": False})
        dest, target = t["dest"], t["target"]

        def new_local(ty, name=""):
            locs.append({"ty": ty, "name": name})
            return len(locs) - 1

        def new_block(stmts=None, term=None):
            blocks.append({"cleanup": False, "stmts": stmts or [], "term": term or {"k": "goto", "target": target}, "expanded": which})
            return len(blocks) - 1

        def agg(en, var, ops):
            return {"k": "aggregate", "kind": {"agg": "adt", "adt": en, "variant": var, "vidx": VIDX[(en, var)], "fields": ["0"] if ops else []}, "ops": ops}

        def mv(n):
            return {"k": "move", "place": {"local": n, "proj": []}}

        def payload(n, en, var):
            return {"k": "move", "place": {"local": n, "proj": [{"k": "downcast", "variant": var, "vidx": VIDX[(en, var)]}, {"k": "field", "idx": 0, "name": "0", "adt": en, "ty": "?"}]}}
        rty = locs[recv["place"]["local"]]["ty"] if not recv["place"]["proj"] and recv["place"]["local"] < len(locs) else "?"
        rl = new_local(rty)
        b["stmts"].append({"place": {"local": rl, "proj": []}, "rv": {"k": "use", "op": recv}, "line": line})
        dl = new_local("isize")
        b["stmts"].append({"place": {"local": dl, "proj": []}, "rv": {"k": "discr", "place": {"local": rl, "proj": []}}, "line": line})
        dead = new_block(term={"k": "unreachable"})
        exits = []
        if which == "flatten":
            none_b = new_block([{"place": dest, "rv": agg(OPTION, "None", []), "line": line}])
            some_b = new_block([{"place": dest, "rv": {"k": "use", "op": payload(rl, OPTION, "Some")}, "line": line}])
        else:
            nl = new_local("std::option::Option<?>")
            none_b = new_block([{"place": {"local": nl, "proj": []}, "rv": agg(OPTION, "None", []), "line": line}, {"place": dest, "rv": agg(RESULT, "Ok", [mv(nl)]), "line": line}])
            inner = new_local("std::result::Result<?, ?>")
            d2 = new_local("isize")
            sl = new_local("std::option::Option<?>")
            ok_b = new_block([{"place": {"local": sl, "proj": []}, "rv": agg(OPTION, "Some", [payload(inner, RESULT, "Ok")]), "line": line}, {"place": dest, "rv": agg(RESULT, "Ok", [mv(sl)]), "line": line}])
            err_b = new_block([{"place": dest, "rv": agg(RESULT, "Err", [payload(inner, RESULT, "Err")]), "line": line}])
            dead2 = new_block(term={"k": "unreachable"})
            some_b = new_block([{"place": {"local": inner, "proj": []}, "rv": {"k": "use", "op": payload(rl, OPTION, "Some")}, "line": line},
                                {"place": {"local": d2, "proj": []}, "rv": {"k": "discr", "place": {"local": inner, "proj": []}}, "line": line}],
                               {"k": "switch", "discr": mv(d2), "targets": [["0", ok_b], ["1", err_b]], "otherwise": dead2, "span": span})
            exits = [(none_b, "ok"), (ok_b, "ok"), (err_b, "err")]
        b["term"] = {"k": "switch", "discr": mv(dl), "targets": [["0", none_b], ["1", some_b]], "otherwise": dead, "span": span}
        b["structural_expanded"] = True
        chain = _try_chain_impl(blocks, target, dest["local"])
        if chain is not None and exits:
            chain_blocks, cont_t, brk_t = chain
            for last_b, cls in exits:
                cstart = len(blocks)
                for k_, n_ in enumerate(chain_blocks):
                    nb2 = copy.deepcopy(blocks[n_])
                    if k_ + 1 < len(chain_blocks):
                        nb2["term"]["target"] = cstart + k_ + 1
                    else:
                        nb2["term"] = {"k": "goto", "target": cont_t if cls == "ok" else brk_t}
                    nb2["threaded"] = cls
                    blocks.append(nb2)
                blocks[last_b]["term"] = {"k": "goto", "target": cstart}
        changed = True
    return changed


def expand_literal_converters(prog, d):
    """`x.invalid_err(msg)` / `read_err` / .. on a value that is only ever assigned Some/None/Ok/Err literals in this
    function (`cond.then_some(v).invalid_err(..)`): the success variant becomes `Ok(payload)` directly, the other one
    calls the converter on a fresh literal of that variant, which the exit classification knows to be an error."""
    blocks, locs = d["blocks"], d["locals"]
    changed = False
    for bi in range(len(blocks)):
        b = blocks[bi]
        if b["cleanup"] or b.get("converter_expanded"):
            continue
        t = b["term"]
        if t["k"] != "call" or t["target"] < 0 or not t["args"] or t["dest"]["proj"]:
            continue
        c = _callee(t)
        if c.rsplit("::", 1)[-1] not in CONVERTERS or "Converter" not in c:
            continue
        recv = t["args"][0]
        if recv.get("k") not in ("copy", "move") or recv["place"]["proj"]:
            continue
        # all definitions of the receiver (through one level of moves) are Option / Result literals
        n = recv["place"]["local"]
        ds = _def_sites(blocks, n)
        if len(ds) == 1 and ds[0][1] == "stmt" and ds[0][2]["rv"]["k"] == "use" and ds[0][2]["rv"]["op"].get("k") in ("copy", "move") and not ds[0][2]["rv"]["op"]["place"]["proj"]:
            ds = _def_sites(blocks, ds[0][2]["rv"]["op"]["place"]["local"])
        if len(ds) < 2:
            continue
        enum = None
        for _, kind, payload in ds:
            rv = payload["rv"] if kind == "stmt" else None
            if rv is None or rv["k"] != "aggregate" or rv["kind"].get("agg") != "adt":
                enum = None
                break
            e = RESULT if rv["kind"]["adt"].endswith("result::Result") else (OPTION if rv["kind"]["adt"].endswith("option::Option") else None)
            if e is None or (enum is not None and e != enum):
                enum = None
                break
            enum = e
        if enum is None:
            continue
        line = t.get("span", {}).get("l0", 0)
        span = t.get("span", {"file": "", "l0": line, "l1": line, "exp": False})
        dest, target = t["dest"], t["target"]

        def new_local(ty, name=""):
            locs.append({"ty": ty, "name": name})
            return len(locs) - 1
        rl = new_local(locs[n]["ty"] if n < len(locs) else "?")
        b["stmts"].append({"place": {"local": rl, "proj": []}, "rv": {"k": "use", "op": recv}, "line": line})
        dl = new_local("isize")
        b["stmts"].append({"place": {"local": dl, "proj": []}, "rv": {"k": "discr", "place": {"local": rl, "proj": []}}, "line": line})
        okv, badv = ("Ok", "Err") if enum == RESULT else ("Some", "None")

        def pay(var):
            return {"local": rl, "proj": [{"k": "downcast", "variant": var, "vidx": VIDX[(enum, var)]}, {"k": "field", "idx": 0, "name": "0", "adt": enum, "ty": "?"}]}
        ok_b = {"cleanup": False, "stmts": [{"place": dest, "rv": {"k": "aggregate", "kind": {"agg": "adt", "adt": RESULT, "variant": "Ok", "vidx": 0, "fields": ["0"]}, "ops": [{"k": "move", "place": pay(okv)}]}, "line": line}],
                "term": {"k": "goto", "target": target}, "expanded": "converter"}
        blocks.append(ok_b)
        ok_i = len(blocks) - 1
        lit = new_local(locs[n]["ty"] if n < len(locs) else "?")
        ops = [{"k": "move", "place": pay("Err")}] if enum == RESULT else []
        bad_t = copy.deepcopy(t)
        bad_t["args"][0] = {"k": "move", "place": {"local": lit, "proj": []}}
        bad_b = {"cleanup": False, "stmts": [{"place": {"local": lit, "proj": []}, "rv": {"k": "aggregate", "kind": {"agg": "adt", "adt": enum, "variant": badv, "vidx": VIDX[(enum, badv)], "fields": ["0"] if ops else []}, "ops": ops}, "line": line}],
                 "term": bad_t, "expanded": "converter", "converter_expanded": True}
        blocks.append(bad_b)
        bad_i = len(blocks) - 1
        dead = {"cleanup": False, "stmts": [], "term": {"k": "unreachable"}}
        blocks.append(dead)
        b["term"] = {"k": "switch", "discr": {"k": "move", "place": {"local": dl, "proj": []}}, "targets": [[str(VIDX[(enum, okv)]), ok_i], [str(VIDX[(enum, badv)]), bad_i]], "otherwise": len(blocks) - 1, "span": span}
        b["converter_expanded"] = True
        changed = True
    return changed


def expand_combinators(prog, d):
    """rewrites r.map(f) / o.and_then(f) / ... into the match they stand for, with a direct call of the closure (which
    the inliner then splices in).  returns True when something changed."""
    blocks, locs = d["blocks"], d["locals"]
    changed = False
    for bi in range(len(blocks)):
        b = blocks[bi]
        if b["cleanup"]:
            continue
        t = b["term"]
        if t["k"] != "call" or t["target"] < 0 or len(t["args"]) not in (2, 3):
            continue
        c = _callee(t)
        key = next((k for k in COMBINATORS if c.endswith(k)), None)
        if key is None:
            continue
        has_default = any(a[0] == "default" or a[0].endswith("@1") for a in COMBINATORS[key][1].values())
        if (len(t["args"]) == 3) != has_default:
            continue
        recv, fop = t["args"][0], t["args"][-1]
        default_op = t["args"][1] if has_default else None
        if recv.get("k") not in ("copy", "move"):
            continue
        eager = all(a[0] in ("wrapval", "unit", "keep", "payload") for a in COMBINATORS[key][1].values())
        fdef = _closure_def(blocks, fop) if not eager else ("value", None)
        if fdef is None or (fdef[0] == "closure" and fdef[1] not in prog.fns):
            continue
        fdef1, fop1 = fdef, fop
        enum, acts = COMBINATORS[key]
        fdef2 = None
        if any(a[0].endswith("@1") for a in acts.values()):
            fdef2 = _closure_def(blocks, default_op)
            if fdef2 is None or (fdef2[0] == "closure" and fdef2[1] not in prog.fns):
                continue
        line = t.get("span", {}).get("l0", 0)
        span = t.get("span", {"file": "", "l0": line, "l1": line, "exp": False})
        dest, target = t["dest"], t["target"]

        def new_local(ty, name=""):
            locs.append({"ty": ty, "name": name})
            return len(locs) - 1
        # hold the receiver in a plain local
        rty = locs[recv["place"]["local"]]["ty"] if not recv["place"]["proj"] and recv["place"]["local"] < len(locs) else "?"
        rl = new_local(rty, "")
        b["stmts"].append({"place": {"local": rl, "proj": []}, "rv": {"k": "use", "op": recv}, "line": line})
        if enum == "bool":
            dl = rl
        else:
            dl = new_local("isize")
            b["stmts"].append({"place": {"local": dl, "proj": []}, "rv": {"k": "discr", "place": {"local": rl, "proj": []}}, "line": line})
        arms = {}
        for variant, act in acts.items():
            nb = {"cleanup": False, "stmts": [], "term": {"k": "goto", "target": target}, "expanded": key}
            blocks.append(nb)
            arms[variant] = len(blocks) - 1
            has_payload = variant in ("Ok", "Err", "Some")
            pay = None
            if has_payload:
                pay = {"local": rl, "proj": [{"k": "downcast", "variant": variant, "vidx": VIDX[(enum, variant)]}, {"k": "field", "idx": 0, "name": "0", "adt": enum, "ty": "?"}]}

            def agg(en, var, ops):
                return {"k": "aggregate", "kind": {"agg": "adt", "adt": en, "variant": var, "vidx": VIDX[(en, var)], "fields": ["0"] if ops else []}, "ops": ops}

            def call_f(args_ops, then_stmt, direct=False, second=False):
                """call the closure / fn with the given operands; result local returned; the arm block is split.
                direct: the call's result is the combinator's result (the inliner can then thread a following `?`)"""
                fdef, fop = (fdef2, default_op) if second else (fdef1, fop1)
                ctor = _variant_ctor(prog, fdef) if fdef[0] == "fn" else None
                if ctor is not None:
                    # `.map(Ok)` / `.map(RecordValue::Integer)`: the constructor is a literal of that variant
                    en, var, vidx, fields = ctor
                    lit = {"k": "aggregate", "kind": {"agg": "adt", "adt": en, "variant": var, "vidx": vidx, "fields": fields[:len(args_ops)] or ["0"]}, "ops": args_ops}
                    if direct and not dest["proj"]:
                        nb["stmts"].append({"place": dest, "rv": lit, "line": line})
                        return
                    res = new_local("?")
                    nb["stmts"].append({"place": {"local": res, "proj": []}, "rv": lit, "line": line})
                    nb["stmts"].append({"place": dest, "rv": then_stmt(res), "line": line})
                    return
                if direct and not dest["proj"]:
                    if fdef[0] == "closure":
                        tup = new_local("(?,)")
                        nb["stmts"].append({"place": {"local": tup, "proj": []}, "rv": {"k": "aggregate", "kind": {"agg": "tuple"}, "ops": args_ops}, "line": line})
                        cargs = [fop, {"k": "move", "place": {"local": tup, "proj": []}}]
                    else:
                        cargs = args_ops
                    nb["term"] = {"k": "call", "callee": {"path": fdef[1], "resolved": fdef[1], "is_resolved": True, "local": fdef[1] in prog.fns, "crate": "", "args": []},
                                  "args": cargs, "dest": dest, "target": target, "span": span}
                    return
                res = new_local("?")
                if fdef[0] == "closure":
                    tup = new_local("(?,)")
                    nb["stmts"].append({"place": {"local": tup, "proj": []}, "rv": {"k": "aggregate", "kind": {"agg": "tuple"}, "ops": args_ops}, "line": line})
                    cargs = [fop, {"k": "move", "place": {"local": tup, "proj": []}}]
                else:
                    cargs = args_ops
                cont = {"cleanup": False, "stmts": [], "term": {"k": "goto", "target": target}, "expanded": key}
                blocks.append(cont)
                nb["term"] = {"k": "call", "callee": {"path": fdef[1], "resolved": fdef[1], "is_resolved": True, "local": fdef[1] in prog.fns, "crate": "", "args": []},
                              "args": cargs, "dest": {"local": res, "proj": []}, "target": len(blocks) - 1, "span": span}
                cont["stmts"].append({"place": dest, "rv": then_stmt(res), "line": line})
            kind = act[0]
            if kind == "wrap":
                call_f([{"k": "move", "place": pay}], lambda r, act=act: agg(act[1], act[2], [{"k": "move", "place": {"local": r, "proj": []}}]))
            elif kind == "call":
                call_f([{"k": "move", "place": pay}], lambda r: {"k": "use", "op": {"k": "move", "place": {"local": r, "proj": []}}}, direct=True)
            elif kind == "call0":
                call_f([], lambda r: {"k": "use", "op": {"k": "move", "place": {"local": r, "proj": []}}}, direct=True)
            elif kind == "call0@1":
                call_f([], lambda r: {"k": "use", "op": {"k": "move", "place": {"local": r, "proj": []}}}, direct=True, second=True)
            elif kind == "call@1":
                call_f([{"k": "move", "place": pay}], lambda r: {"k": "use", "op": {"k": "move", "place": {"local": r, "proj": []}}}, direct=True, second=True)
            elif kind == "wrapcall0":
                call_f([], lambda r, act=act: agg(act[1], act[2], [{"k": "move", "place": {"local": r, "proj": []}}]))
            elif kind == "wrapval":
                nb["stmts"].append({"place": dest, "rv": agg(act[1], act[2], [fop]), "line": line})
            elif kind == "keep":
                nb["stmts"].append({"place": dest, "rv": agg(act[1], act[2], [{"k": "move", "place": pay}]), "line": line})
            elif kind == "payload":
                nb["stmts"].append({"place": dest, "rv": {"k": "use", "op": {"k": "move", "place": pay}}, "line": line})
            elif kind == "unit":
                nb["stmts"].append({"place": dest, "rv": agg(act[1], act[2], []), "line": line})
            elif kind == "default":
                nb["stmts"].append({"place": dest, "rv": {"k": "use", "op": default_op}, "line": line})
            elif kind in ("true", "false"):
                nb["stmts"].append({"place": dest, "rv": {"k": "use", "op": {"k": "const", "ty": "bool", "bits": "1" if kind == "true" else "0", "size": 1, "dbg": kind}}, "line": line})
        # a following `?`: arms whose class is known get their own copy of the branch/switch chain
        chain = Inliner._try_chain(None, blocks, target, dest["local"]) if not dest["proj"] else None
        if chain is not None:
            chain_blocks, cont_b, brk_b = chain
            for variant, act in acts.items():
                cls = None
                if act[0] in ("wrap", "keep", "wrapcall0", "wrapval") and act[2] in ("Ok", "Some"):
                    cls = "ok"
                elif act[0] in ("keep", "unit", "wrap", "wrapcall0") and act[2] in ("Err", "None"):
                    cls = "err"
                if cls is None:
                    continue
                # the last block of this arm is the one that jumps to `target`
                last = arms[variant]
                seen_ = set()
                while blocks[last]["term"]["k"] == "call" and last not in seen_:
                    seen_.add(last)
                    last = blocks[last]["term"]["target"]
                if blocks[last]["term"] != {"k": "goto", "target": target}:
                    continue
                cstart = len(blocks)
                for k_, n_ in enumerate(chain_blocks):
                    nb2 = copy.deepcopy(blocks[n_])
                    if k_ + 1 < len(chain_blocks):
                        nb2["term"]["target"] = cstart + k_ + 1
                    else:
                        nb2["term"] = {"k": "goto", "target": cont_b if cls == "ok" else brk_b}
                    nb2["threaded"] = cls
                    blocks.append(nb2)
                blocks[last]["term"] = {"k": "goto", "target": cstart}
        variants = list(acts)
        if enum == "bool":
            b["term"] = {"k": "switch", "discr": {"k": "copy", "place": {"local": dl, "proj": []}}, "targets": [["0", arms["false"]]], "otherwise": arms["true"], "span": span}
        else:
            targets = [[str(VIDX[(enum, v)]), arms[v]] for v in variants]
            dead = {"cleanup": False, "stmts": [], "term": {"k": "unreachable"}}
            blocks.append(dead)
            b["term"] = {"k": "switch", "discr": {"k": "move", "place": {"local": dl, "proj": []}}, "targets": targets, "otherwise": len(blocks) - 1, "span": span}
        changed = True
    return changed


def _subst_const_params(gb, cmap):
    """replace operands that are a const generic parameter by its value, and the parameter inside type strings"""
    pat = re.compile(r"\b(%s)\b" % "|".join(re.escape(k) for k in cmap))

    def fix_op(o):
        if isinstance(o, dict) and o.get("k") == "const" and "bits" not in o and o.get("dbg") in cmap:
            v = cmap[o["dbg"]]
            o.update({"bits": str(v), "size": 8, "dbg": "%d_%s" % (v, o.get("ty", "usize"))})

    def walk(x):
        if isinstance(x, dict):
            fix_op(x)
            for k, v in list(x.items()):
                if k == "args" and isinstance(v, list) and all(isinstance(a, str) for a in v):
                    x[k] = [pat.sub(lambda m: str(cmap[m.group(1)]), a) if ";" in a else a for a in v]
                elif k == "n" and isinstance(v, str) and v.strip() in cmap:
                    x[k] = "%d_usize" % cmap[v.strip()]
                else:
                    walk(v)
        elif isinstance(x, list):
            for y in x:
                walk(y)
    for b in gb:
        walk(b)


def thread_known_discriminants(prog, d, max_new=400):
    """jump threading: a block that has just assigned `x = Ok(..)` / `Err(..)` / `Some(..)` / `None` (or the result of
    an always-failing constructor) and then reaches, through empty blocks, a `switch discriminant(x)` takes the edge
    of that variant.  The switch block is copied for that predecessor with the switch replaced by a goto, so chained
    combinators / matches (`a.and_then(..).map(..)`) do not mix their outcomes.  Semantics preserving."""
    blocks = d["blocks"]
    changed = False
    added = 0
    progress = True
    while progress and added < max_new:
        progress = False
        # switch blocks: only statement(s) are `dd = discriminant(x)` (x unprojected) and the switch is on dd
        sw = {}
        for si, b in enumerate(blocks):
            if b["cleanup"] or b["term"]["k"] != "switch" or not b["stmts"] or len(b["stmts"]) > 8:
                continue
            st = b["stmts"][-1]
            if st["rv"]["k"] != "discr" or st["rv"]["place"]["proj"] or st["place"]["proj"]:
                continue
            dop = b["term"]["discr"]
            if dop.get("k") not in ("copy", "move") or dop["place"]["proj"] or dop["place"]["local"] != st["place"]["local"]:
                continue
            # the tested value may be a copy made in this block (`c = move x; dd = discriminant(c)`)
            x = st["rv"]["place"]["local"]
            for st2 in reversed(b["stmts"][:-1]):
                if st2["place"]["local"] == x and not st2["place"]["proj"] and st2["rv"]["k"] == "use" and st2["rv"]["op"].get("k") in ("copy", "move") and not st2["rv"]["op"]["place"]["proj"]:
                    x = st2["rv"]["op"]["place"]["local"]
            if any(st2["place"]["local"] == x for st2 in b["stmts"]):
                continue
            sw[si] = x
        # switches directly on a flag: `let invalid = a || b || c; if invalid { .. }` assigns constants to the flag
        flag_sw = {}
        for si, b in enumerate(blocks):
            if b["cleanup"] or b["term"]["k"] != "switch" or si in sw or len(b["stmts"]) > 4:
                continue
            dop = b["term"]["discr"]
            if dop.get("k") not in ("copy", "move") or dop["place"]["proj"]:
                continue
            x = dop["place"]["local"]
            for st2 in reversed(b["stmts"]):
                if st2["place"]["local"] == x and not st2["place"]["proj"] and st2["rv"]["k"] == "use" and st2["rv"]["op"].get("k") in ("copy", "move") and not st2["rv"]["op"]["place"]["proj"]:
                    x = st2["rv"]["op"]["place"]["local"]
            if any(st2["place"]["local"] == x for st2 in b["stmts"]):
                continue
            flag_sw[si] = x
        if not sw and not flag_sw:
            break
        for bi in range(len(blocks)):
            b = blocks[bi]
            if b["cleanup"] or bi in flag_sw or b["term"]["k"] != "goto" or added >= max_new:
                continue
            nxt, hops = b["term"]["target"], 0
            while nxt not in flag_sw and hops < 6 and not blocks[nxt]["cleanup"] and not blocks[nxt]["stmts"] and blocks[nxt]["term"]["k"] == "goto":
                nxt = blocks[nxt]["term"]["target"]
                hops += 1
            if nxt not in flag_sw:
                continue
            x = flag_sw[nxt]
            val = None
            for st in reversed(b["stmts"]):
                if st["place"]["local"] == x:
                    rv = st["rv"]
                    if not st["place"]["proj"] and rv["k"] == "use" and rv["op"].get("k") == "const" and "bits" in rv["op"]:
                        val = int(rv["op"]["bits"])
                    break
            if val is None:
                continue
            sb = blocks[nxt]
            tgt = None
            for v, tb in sb["term"]["targets"]:
                if str(v) == str(val):
                    tgt = tb
            if tgt is None:
                tgt = sb["term"]["otherwise"]
            blocks.append({"cleanup": False, "stmts": copy.deepcopy(sb["stmts"]), "term": {"k": "goto", "target": tgt}, "threaded": "flag"})
            b["term"] = {"k": "goto", "target": len(blocks) - 1}
            added += 1
            changed = progress = True
        if not sw:
            continue
        for bi in range(len(blocks)):
            b = blocks[bi]
            if b["cleanup"] or bi in sw:
                continue
            t = b["term"]
            if t["k"] == "goto":
                nxt, via_call = t["target"], False
            elif t["k"] == "call" and t["target"] >= 0 and not t["dest"]["proj"]:
                nxt, via_call = t["target"], True
            else:
                continue
            # follow goto blocks: empty ones, and ones whose statements do not touch the tested local (they are copied
            # into the threaded block)
            hops = 0
            mid = []
            while nxt not in sw and hops < 6 and not blocks[nxt]["cleanup"] and blocks[nxt]["term"]["k"] == "goto" and len(blocks[nxt]["stmts"]) <= 4:
                mid.extend(blocks[nxt]["stmts"])
                nxt = blocks[nxt]["term"]["target"]
                hops += 1
            if nxt not in sw:
                continue
            x = sw[nxt]
            if any(st_["place"]["local"] == x or (st_["rv"]["k"] == "ref" and st_["rv"].get("mut") and st_["rv"]["place"]["local"] == x) for st_ in mid):
                continue
            vidx = None
            if via_call:
                if t["dest"]["local"] != x:
                    continue
                c = _callee(t)
                ty = d["locals"][x]["ty"] if x < len(d["locals"]) else ""
                if ty.startswith("std::result::Result<") and (c.endswith("::from_residual") or prog.is_always_err(c)):
                    vidx = 1
                elif ty.startswith("std::option::Option<") and c.endswith("::from_residual"):
                    vidx = 0
            else:
                for st in reversed(b["stmts"]):
                    if st["place"]["local"] == x:
                        rv = st["rv"]
                        if not st["place"]["proj"] and rv["k"] == "aggregate" and rv["kind"].get("agg") == "adt" and (
                                rv["kind"]["adt"].endswith("result::Result") or rv["kind"]["adt"].endswith("option::Option")):
                            vidx = rv["kind"]["vidx"]
                        break
            if vidx is None:
                continue
            sb = blocks[nxt]
            tgt = None
            for v, tb in sb["term"]["targets"]:
                if str(v) == str(vidx):
                    tgt = tb
            if tgt is None:
                tgt = sb["term"]["otherwise"]
            nb = {"cleanup": False, "stmts": copy.deepcopy(mid) + copy.deepcopy(sb["stmts"]), "term": {"k": "goto", "target": tgt}, "threaded": "discr"}
            blocks.append(nb)
            if via_call:
                t["target"] = len(blocks) - 1
            else:
                b["term"] = {"k": "goto", "target": len(blocks) - 1}
            added += 1
            changed = progress = True
    return changed


LAZY_ADAPTERS = ("map", "filter", "filter_map", "from_fn", "inspect")


def _def_sites(blocks, n):
    """(block index, kind, payload) of every whole definition of local n outside cleanup blocks"""
    out = []
    for bi, b in enumerate(blocks):
        if b["cleanup"]:
            continue
        for st in b["stmts"]:
            if st["place"]["local"] == n and not st["place"]["proj"]:
                out.append((bi, "stmt", st))
        t = b["term"]
        if t["k"] == "call" and t["dest"]["local"] == n and not t["dest"]["proj"]:
            out.append((bi, "call", t))
    return out


def lower_lazy_next(prog, d, max_sites=40):
    """`it.next()` on an iterator that was built as `inner.map(f)`, `inner.filter(p)`, `inner.filter_map(f)`,
    `inner.inspect(f)` or `iter::from_fn(g)` with a closure / fn item is rewritten into what it does:

        map:        match inner.next() { None => None, Some(v) => Some(f(v)) }
        filter:     loop { match inner.next() { None => break None, Some(v) => if p(&v) { break Some(v) } } }
        filter_map: loop { match inner.next() { None => break None, Some(v) => if let Some(w) = f(v) { break Some(w) } } }
        from_fn:    g()

    with direct calls of the closures (which the inliner then splices in), so an explicit loop over an adapter chain and
    an explicit loop with the closure bodies written out look the same to the rules.  The inner iterator and the closure
    are kept in fresh locals at the place where the adapter is built.  Semantics preserving."""
    blocks, locs = d["blocks"], d["locals"]
    changed = False
    sites = 0
    for bi in range(len(blocks)):
        b = blocks[bi]
        if b["cleanup"] or b.get("next_lowered") or sites >= max_sites:
            continue
        t = b["term"]
        if t["k"] != "call" or t["target"] < 0 or len(t["args"]) != 1 or t["dest"]["proj"]:
            continue
        c = _callee(t)
        if not c.endswith("::next") or c in prog.fns:
            continue
        # the iterator local behind `&mut it` (through reborrows and moves)
        op = t["args"][0]
        it = None
        for _ in range(8):
            if op.get("k") not in ("copy", "move") or any(e["k"] != "deref" for e in op["place"]["proj"]):
                break
            n = op["place"]["local"]
            ds = _def_sites(blocks, n)
            if len(ds) != 1:
                break
            kind, payload = ds[0][1], ds[0][2]
            if kind == "call":
                if _callee(payload).endswith("IntoIterator>::into_iter") and len(payload["args"]) == 1 and not payload["dest"]["proj"]:
                    # `for x in lazily_built_iterator`: into_iter() of an iterator is the iterator itself
                    op = payload["args"][0]
                    continue
                it = (n, ds[0][0], payload)
                break
            rv = payload["rv"]
            if rv["k"] == "ref" and not [e for e in rv["place"]["proj"] if e["k"] != "deref"]:
                op = {"k": "copy", "place": {"local": rv["place"]["local"], "proj": []}}
            elif rv["k"] == "use":
                op = rv["op"]
            else:
                break
        if it is None:
            continue
        it_local, cb, ct = it
        cc = _callee(ct)
        ad = cc.rsplit("::", 1)[-1]
        if ad not in LAZY_ADAPTERS or not ("Iterator" in cc or "iter::" in cc):
            continue
        want = 1 if ad == "from_fn" else 2
        if len(ct["args"]) != want:
            continue
        fop = ct["args"][-1]
        fdef = _closure_def(blocks, fop)
        if fdef is None or fdef[1] not in prog.fns:
            continue
        line = t.get("span", {}).get("l0", 0)
        span = t.get("span", {"file": "", "l0": line, "l1": line, "exp": False})

        def new_local(ty, name=""):
            locs.append({"ty": ty, "name": name})
            return len(locs) - 1

        def new_block(term=None):
            blocks.append({"cleanup": False, "stmts": [], "term": term or {"k": "goto", "target": t["target"]}, "expanded": "next:" + ad})
            return len(blocks) - 1

        def mv(n):
            return {"k": "move", "place": {"local": n, "proj": []}}

        def cp(n):
            return {"k": "copy", "place": {"local": n, "proj": []}}
        # keep the closure (and the inner iterator) where the adapter is built; once per adapter
        keep = blocks[cb].setdefault("kept_for_lowering", {})
        if "f" not in keep:
            kf = new_local("?", "kept_fn")
            blocks[cb]["stmts"].append({"place": {"local": kf, "proj": []}, "rv": {"k": "use", "op": fop}, "line": line})
            ct["args"][-1] = cp(kf)
            keep["f"] = kf
            if ad != "from_fn":
                ki = new_local(locs[ct["args"][0]["place"]["local"]]["ty"] if ct["args"][0].get("k") in ("copy", "move") and not ct["args"][0]["place"]["proj"] else "?", "kept_iter")
                blocks[cb]["stmts"].append({"place": {"local": ki, "proj": []}, "rv": {"k": "use", "op": ct["args"][0]}, "line": line})
                ct["args"][0] = cp(ki)
                keep["i"] = ki
        kf, ki = keep["f"], keep.get("i")
        dest, target = t["dest"], t["target"]
        is_closure = fdef[0] == "closure"

        def call_closure(blk, args_ops, dest_local, nxt):
            if is_closure:
                tup = new_local("(?,)")
                blocks[blk]["stmts"].append({"place": {"local": tup, "proj": []}, "rv": {"k": "aggregate", "kind": {"agg": "tuple"}, "ops": args_ops}, "line": line})
                cargs = [cp(kf), mv(tup)]
            else:
                cargs = args_ops
            blocks[blk]["term"] = {"k": "call", "callee": {"path": fdef[1], "resolved": fdef[1], "is_resolved": True, "local": fdef[1] in prog.fns, "crate": "", "args": []},
                                   "args": cargs, "dest": {"local": dest_local, "proj": []}, "target": nxt, "span": span}

        def agg(var, ops):
            return {"k": "aggregate", "kind": {"agg": "adt", "adt": OPTION, "variant": var, "vidx": VIDX[(OPTION, var)], "fields": ["0"] if ops else []}, "ops": ops}
        b["next_lowered"] = True
        if ad == "from_fn":
            # x = g()
            call_closure(bi, [], dest["local"], target)
            sites += 1
            changed = True
            continue
        # head: y = inner.next()
        y = new_local("std::option::Option<?>")
        r = new_local("&mut ?")
        head, mid, some_b, none_b = bi, new_block(), new_block(), new_block()
        b["stmts"].append({"place": {"local": r, "proj": []}, "rv": {"k": "ref", "place": {"local": ki, "proj": []}, "mut": True}, "line": line})
        inner_ty = locs[ki]["ty"]
        nxt = "<I as std::iter::Iterator>::next"
        nxt_local = False
        for q, g2 in prog.fns.items():
            if g2.trait and q.endswith("::next") and inner_ty and g2.self_ty.split("<")[0] == inner_ty.lstrip("&").replace("mut ", "").split("<")[0]:
                nxt, nxt_local = q, True
        if not nxt_local and inner_ty not in ("?", ""):
            nxt = "<%s as std::iter::Iterator>::next" % (inner_ty.lstrip("&").replace("mut ", ""))
        b["term"] = {"k": "call", "callee": {"path": nxt, "resolved": nxt, "is_resolved": True, "local": nxt_local, "crate": "" if nxt_local else "core", "args": [inner_ty] if inner_ty else []},
                     "args": [mv(r)], "dest": {"local": y, "proj": []}, "target": mid, "span": span}
        b["next_lowered"] = False          # the inner next() may itself be an adapter
        dl = new_local("isize")
        blocks[mid]["stmts"].append({"place": {"local": dl, "proj": []}, "rv": {"k": "discr", "place": {"local": y, "proj": []}}, "line": line})
        dead = new_block({"k": "unreachable"})
        blocks[mid]["term"] = {"k": "switch", "discr": mv(dl), "targets": [["0", none_b], ["1", some_b]], "otherwise": dead, "span": span}
        blocks[none_b]["stmts"].append({"place": dest, "rv": agg("None", []), "line": line})
        v = new_local("?", "item")
        pay = {"local": y, "proj": [{"k": "downcast", "variant": "Some", "vidx": 1}, {"k": "field", "idx": 0, "name": "0", "adt": OPTION, "ty": "?"}]}
        blocks[some_b]["stmts"].append({"place": {"local": v, "proj": []}, "rv": {"k": "use", "op": {"k": "move", "place": pay}}, "line": line})
        res = new_local("?", "mapped")
        after = new_block()
        if ad == "map":
            call_closure(some_b, [mv(v)], res, after)
            blocks[after]["stmts"].append({"place": dest, "rv": agg("Some", [mv(res)]), "line": line})
        elif ad == "inspect":
            rv_ = new_local("&?")
            blocks[some_b]["stmts"].append({"place": {"local": rv_, "proj": []}, "rv": {"k": "ref", "place": {"local": v, "proj": []}, "mut": False}, "line": line})
            call_closure(some_b, [mv(rv_)], res, after)
            blocks[after]["stmts"].append({"place": dest, "rv": agg("Some", [mv(v)]), "line": line})
        elif ad == "filter":
            rv_ = new_local("&?")
            blocks[some_b]["stmts"].append({"place": {"local": rv_, "proj": []}, "rv": {"k": "ref", "place": {"local": v, "proj": []}, "mut": False}, "line": line})
            call_closure(some_b, [mv(rv_)], res, after)
            keep_b = new_block()
            blocks[keep_b]["stmts"].append({"place": dest, "rv": agg("Some", [mv(v)]), "line": line})
            blocks[after]["term"] = {"k": "switch", "discr": mv(res), "targets": [["0", head]], "otherwise": keep_b, "span": span}
        elif ad == "filter_map":
            call_closure(some_b, [mv(v)], res, after)
            d2 = new_local("isize")
            blocks[after]["stmts"].append({"place": {"local": d2, "proj": []}, "rv": {"k": "discr", "place": {"local": res, "proj": []}}, "line": line})
            keep_b = new_block()
            w = {"local": res, "proj": [{"k": "downcast", "variant": "Some", "vidx": 1}, {"k": "field", "idx": 0, "name": "0", "adt": OPTION, "ty": "?"}]}
            blocks[keep_b]["stmts"].append({"place": dest, "rv": agg("Some", [{"k": "move", "place": w}]), "line": line})
            dead2 = new_block({"k": "unreachable"})
            blocks[after]["term"] = {"k": "switch", "discr": mv(d2), "targets": [["0", head], ["1", keep_b]], "otherwise": dead2, "span": span}
        sites += 1
        changed = True
    return changed


def fold_const_slice_len(d):
    """`CONST.len()` of an array constant (`const ZEROS: [u8; 4]`; `ZEROS.len()` unsizes a reference to it and calls
    <[T]>::len) is the array length N of its type: the call becomes the constant"""
    blocks, locs = d["blocks"], d["locals"]
    changed = False
    for b in blocks:
        if b["cleanup"]:
            continue
        t = b["term"]
        if t["k"] != "call" or t["target"] < 0 or len(t["args"]) != 1 or t["dest"]["proj"]:
            continue
        c = _callee(t)
        if not (c.endswith("<impl [T]>::len") or c.endswith("slice::len")):
            continue
        op = t["args"][0]
        n_len = None
        for _ in range(5):
            if op.get("k") == "const":
                m = re.search(r";\s*(\d+)\]", str(op.get("ty", "")))
                if m and ("bytes" in op or "str_array" in op or "enum_array" in op):
                    n_len = int(m.group(1))
                break
            if op.get("k") not in ("copy", "move") or [e for e in op["place"]["proj"] if e["k"] != "deref"]:
                break
            ds = _def_sites(blocks, op["place"]["local"])
            if len(ds) != 1 or ds[0][1] != "stmt":
                break
            rv = ds[0][2]["rv"]
            if rv["k"] == "use":
                op = rv["op"]
            elif rv["k"] == "cast":
                op = rv["a"]
            elif rv["k"] == "ref" and not [e for e in rv["place"]["proj"] if e["k"] != "deref"]:
                op = {"k": "copy", "place": {"local": rv["place"]["local"], "proj": []}}
            else:
                break
        if n_len is None:
            continue
        line = t.get("span", {}).get("l0", 0)
        b["stmts"].append({"place": t["dest"], "rv": {"k": "use", "op": {"k": "const", "ty": "usize", "bits": str(n_len), "size": 8, "dbg": "%d_usize" % n_len}}, "line": line})
        b["term"] = {"k": "goto", "target": t["target"]}
        changed = True
    return changed


def expand_array_map(prog, d):
    """`[a, b, c].map(f)` on an array literal is `[f(a), f(b), f(c)]`: spelled out with direct calls of f (a closure,
    a function, or a tuple-variant constructor, which becomes a literal)"""
    blocks, locs = d["blocks"], d["locals"]
    changed = False
    for bi in range(len(blocks)):
        b = blocks[bi]
        if b["cleanup"] or b.get("array_map_expanded"):
            continue
        t = b["term"]
        if t["k"] != "call" or t["target"] < 0 or len(t["args"]) != 2 or t["dest"]["proj"]:
            continue
        c = _callee(t)
        if not (c.endswith("::map") and "array" in c and "Iterator" not in c and "Option" not in c and "Result" not in c):
            continue
        aop = t["args"][0]
        if aop.get("k") not in ("copy", "move") or aop["place"]["proj"]:
            continue
        ds = _def_sites(blocks, aop["place"]["local"])
        if len(ds) != 1 or ds[0][1] != "stmt":
            continue
        rv = ds[0][2]["rv"] if isinstance(ds[0][2], dict) and "rv" in ds[0][2] else None
        if rv is None or rv["k"] != "aggregate" or rv["kind"].get("agg") != "array" or not rv["ops"]:
            continue
        fop = t["args"][1]
        fdef = _closure_def(blocks, fop)
        if fdef is None:
            continue
        ctor = _variant_ctor(prog, fdef) if fdef[0] == "fn" else None
        if ctor is None and fdef[1] not in prog.fns:
            continue
        span = t.get("span", {"file": "", "l0": 0, "l1": 0, "exp": False})
        line = span.get("l0", 0)
        dest, target = t["dest"], t["target"]
        ety = "?"
        if fdef[1] in prog.fns:
            ety = prog.fns[fdef[1]].locals[0]["ty"]
        results = []
        cur = b
        first = True
        for op in rv["ops"]:
            locs.append({"ty": ety, "name": ""})
            r = len(locs) - 1
            results.append(r)
            if ctor is not None:
                en, var, vidx, fields = ctor
                lit = {"k": "aggregate", "kind": {"agg": "adt", "adt": en, "variant": var, "vidx": vidx, "fields": fields[:1] or ["0"]}, "ops": [op]}
                cur["stmts"].append({"place": {"local": r, "proj": []}, "rv": lit, "line": line})
                continue
            if fdef[0] == "closure":
                locs.append({"ty": "(?,)", "name": ""})
                tup = len(locs) - 1
                cur["stmts"].append({"place": {"local": tup, "proj": []}, "rv": {"k": "aggregate", "kind": {"agg": "tuple"}, "ops": [op]}, "line": line})
                cargs = [{"k": "copy", "place": fop["place"]} if fop.get("k") in ("copy", "move") else fop, {"k": "move", "place": {"local": tup, "proj": []}}]
            else:
                cargs = [op]
            blocks.append({"cleanup": False, "stmts": [], "term": {"k": "goto", "target": target}, "expanded": "array:map"})
            nb = len(blocks) - 1
            cur["term"] = {"k": "call", "callee": {"path": fdef[1], "resolved": fdef[1], "is_resolved": True, "local": fdef[1] in prog.fns, "crate": "", "args": []},
                           "args": cargs, "dest": {"local": r, "proj": []}, "target": nb, "span": span}
            cur = blocks[nb]
        cur["stmts"].append({"place": dest, "rv": {"k": "aggregate", "kind": dict(rv["kind"]), "ops": [{"k": "move", "place": {"local": r, "proj": []}} for r in results]}, "line": line})
        if cur is b:
            b["term"] = {"k": "goto", "target": target}
        b["array_map_expanded"] = True
        changed = True
    return changed


def expand_array_from_fn(prog, d):
    """`std::array::from_fn::<T, N, F>(f)` is `let mut a = [_; N]; for i in 0..N { a[i] = f(i) }; a` (the initial
    contents are never read): spelled out with a direct call of f"""
    blocks, locs = d["blocks"], d["locals"]
    changed = False
    for bi in range(len(blocks)):
        b = blocks[bi]
        if b["cleanup"] or b.get("consumer_expanded"):
            continue
        t = b["term"]
        if t["k"] != "call" or t["target"] < 0 or len(t["args"]) != 1 or t["dest"]["proj"]:
            continue
        c = _callee(t)
        if not c.endswith("array::from_fn"):
            continue
        ga = t["callee"].get("args") or []
        if len(ga) < 2 or not re.match(r"^\d+", str(ga[1])):
            continue
        n = int(re.match(r"^(\d+)", str(ga[1])).group(1))
        fop = t["args"][0]
        fdef = _closure_def(blocks, fop)
        if fdef is None or fdef[1] not in prog.fns:
            continue
        line = t.get("span", {}).get("l0", 0)
        span = t.get("span", {"file": "", "l0": line, "l1": line, "exp": False})
        dest, target = t["dest"], t["target"]

        def new_local(ty, name=""):
            locs.append({"ty": ty, "name": name})
            return len(locs) - 1

        def new_block(term=None):
            blocks.append({"cleanup": False, "stmts": [], "term": term or {"k": "goto", "target": target}, "expanded": "consumer:from_fn"})
            return len(blocks) - 1

        def mv(x):
            return {"k": "move", "place": {"local": x, "proj": []}}

        def cp(x):
            return {"k": "copy", "place": {"local": x, "proj": []}}

        def const(v, ty="usize"):
            return {"k": "const", "ty": ty, "bits": str(v), "size": 8, "dbg": "%d_%s" % (v, ty)}
        ety = str(ga[0])
        zero = {"k": "const", "ty": ety, "bits": "0", "size": 8, "dbg": "0_%s" % ety} if re.match(r"^[iu](8|16|32|64|128|size)$", ety) else {"k": "const", "ty": ety, "dbg": "<uninit>"}
        b["stmts"].append({"place": dest, "rv": {"k": "repeat", "a": zero, "n": "%d_usize" % n}, "line": line})
        rng = new_local("std::ops::Range<usize>", "iter")
        b["stmts"].append({"place": {"local": rng, "proj": []}, "rv": {"k": "aggregate", "kind": {"agg": "adt", "adt": "std::ops::Range", "variant": "Range", "vidx": 0, "fields": ["start", "end"]}, "ops": [const(0), const(n)]}, "line": line})
        head, mid, body, after = new_block(), new_block(), new_block(), new_block()
        b["term"] = {"k": "goto", "target": head}
        b["consumer_expanded"] = True
        r = new_local("&mut std::ops::Range<usize>")
        x = new_local("std::option::Option<usize>")
        blocks[head]["stmts"].append({"place": {"local": r, "proj": []}, "rv": {"k": "ref", "place": {"local": rng, "proj": []}, "mut": True}, "line": line})
        nxt = "std::iter::range::<impl std::iter::Iterator for std::ops::Range<A>>::next"
        blocks[head]["term"] = {"k": "call", "callee": {"path": nxt, "resolved": nxt, "is_resolved": True, "local": False, "crate": "core", "args": ["usize"]},
                                "args": [mv(r)], "dest": {"local": x, "proj": []}, "target": mid, "span": span}
        dl = new_local("isize")
        blocks[mid]["stmts"].append({"place": {"local": dl, "proj": []}, "rv": {"k": "discr", "place": {"local": x, "proj": []}}, "line": line})
        dead = new_block({"k": "unreachable"})
        exit_b = new_block()
        blocks[mid]["term"] = {"k": "switch", "discr": mv(dl), "targets": [["0", exit_b], ["1", body]], "otherwise": dead, "span": span}
        i = new_local("usize", "i")
        blocks[body]["stmts"].append({"place": {"local": i, "proj": []}, "rv": {"k": "use", "op": {"k": "copy", "place": {"local": x, "proj": [
            {"k": "downcast", "variant": "Some", "vidx": 1}, {"k": "field", "idx": 0, "name": "0", "adt": OPTION, "ty": "usize"}]}}}, "line": line})
        v = new_local(ety, "entry")
        if fdef[0] == "closure":
            tup = new_local("(usize,)")
            blocks[body]["stmts"].append({"place": {"local": tup, "proj": []}, "rv": {"k": "aggregate", "kind": {"agg": "tuple"}, "ops": [cp(i)]}, "line": line})
            cargs = [fop, mv(tup)]
        else:
            cargs = [cp(i)]
        blocks[body]["term"] = {"k": "call", "callee": {"path": fdef[1], "resolved": fdef[1], "is_resolved": True, "local": fdef[1] in prog.fns, "crate": "", "args": []},
                                "args": cargs, "dest": {"local": v, "proj": []}, "target": after, "span": span}
        blocks[after]["stmts"].append({"place": {"local": dest["local"], "proj": [{"k": "index", "local": i}]}, "rv": {"k": "use", "op": mv(v)}, "line": line})
        blocks[after]["term"] = {"k": "goto", "target": head}
        changed = True
    return changed


def expand_collect_string(prog, d):
    """`let s: String = chain.collect()` over a lazy adapter yielding Strings is `let mut s = String::new(); s.extend(chain)`
    (then expanded further by expand_extend)"""
    blocks, locs = d["blocks"], d["locals"]
    changed = False
    for bi in range(len(blocks)):
        b = blocks[bi]
        if b["cleanup"] or b.get("collect_expanded"):
            continue
        t = b["term"]
        if t["k"] != "call" or t["target"] < 0 or len(t["args"]) != 1 or t["dest"]["proj"]:
            continue
        c = _callee(t)
        if not c.endswith("Iterator::collect") or locs[t["dest"]["local"]]["ty"] != "std::string::String":
            continue
        it_op = t["args"][0]
        if it_op.get("k") not in ("copy", "move") or it_op["place"]["proj"]:
            continue
        ds = _def_sites(blocks, it_op["place"]["local"])
        if len(ds) != 1 or ds[0][1] != "call":
            continue
        cc = _callee(ds[0][2])
        if cc.rsplit("::", 1)[-1] not in LAZY_ADAPTERS or _closure_def(blocks, ds[0][2]["args"][-1]) is None:
            continue
        clo = _closure_def(blocks, ds[0][2]["args"][-1])
        item_ty = None
        if clo is not None and clo[1] in prog.fns:
            item_ty = prog.fns[clo[1]].locals[0]["ty"]
        # map yields the closure result, filter_map / from_fn its Some payload
        if item_ty not in ("std::string::String", "std::option::Option<std::string::String>"):
            continue
        span = t.get("span", {"file": "", "l0": 0, "l1": 0, "exp": False})
        line = span.get("l0", 0)
        dest, target = t["dest"], t["target"]
        locs.append({"ty": "&mut std::string::String", "name": ""})
        r = len(locs) - 1
        locs.append({"ty": "()", "name": ""})
        u = len(locs) - 1
        ext = "<std::string::String as std::iter::Extend<std::string::String>>::extend"
        blocks.append({"cleanup": False, "stmts": [{"place": {"local": r, "proj": []}, "rv": {"k": "ref", "place": {"local": dest["local"], "proj": []}, "mut": True}, "line": line}],
                       "term": {"k": "call", "callee": {"path": ext, "resolved": ext, "is_resolved": True, "local": False, "crate": "alloc", "args": []},
                                "args": [{"k": "move", "place": {"local": r, "proj": []}}, it_op], "dest": {"local": u, "proj": []}, "target": target, "span": span},
                       "expanded": "collect:string"})
        nb = len(blocks) - 1
        new = "std::string::String::new"
        b["term"] = {"k": "call", "callee": {"path": new, "resolved": new, "is_resolved": True, "local": False, "crate": "alloc", "args": []},
                     "args": [], "dest": dest, "target": nb, "span": span}
        b["collect_expanded"] = True
        changed = True
    return changed


def expand_extend(prog, d):
    """`v.extend(chain)` where chain is a lazy adapter with a closure (map / filter / filter_map / from_fn) is the loop
    `for x in chain { v.push(x) }` (push_back for a VecDeque); next() of the chain is then lowered by lower_lazy_next"""
    blocks, locs = d["blocks"], d["locals"]
    changed = False
    for bi in range(len(blocks)):
        b = blocks[bi]
        if b["cleanup"] or b.get("consumer_expanded"):
            continue
        t = b["term"]
        if t["k"] != "call" or t["target"] < 0 or len(t["args"]) != 2:
            continue
        c = _callee(t)
        if not c.endswith("::extend") or "Extend" not in c:
            continue
        by_ref = False
        if "VecDeque" in c:
            push = "std::collections::VecDeque::<T, A>::push_back"
        elif "vec::Vec" in c:
            push = "std::vec::Vec::<T, A>::push"
        elif "string::String" in c and ("Extend<std::string::String>" in c or "Extend<&" in c or "Extend<String>" in c):
            push = "std::string::String::push_str"          # s.extend(strings) appends every item
            by_ref = "Extend<std::string::String>" in c or "Extend<String>" in c
        else:
            continue
        it_op = t["args"][1]
        if it_op.get("k") not in ("copy", "move") or it_op["place"]["proj"]:
            continue
        ds = _def_sites(blocks, it_op["place"]["local"])
        if len(ds) != 1 or ds[0][1] != "call":
            continue
        cc = _callee(ds[0][2])
        if cc.rsplit("::", 1)[-1] not in LAZY_ADAPTERS or _closure_def(blocks, ds[0][2]["args"][-1]) is None:
            continue
        line = t.get("span", {}).get("l0", 0)
        span = t.get("span", {"file": "", "l0": line, "l1": line, "exp": False})
        dest, target = t["dest"], t["target"]

        def new_local(ty, name=""):
            locs.append({"ty": ty, "name": name})
            return len(locs) - 1

        def new_block(term=None):
            blocks.append({"cleanup": False, "stmts": [], "term": term or {"k": "goto", "target": target}, "expanded": "consumer:extend"})
            return len(blocks) - 1

        def mv(n):
            return {"k": "move", "place": {"local": n, "proj": []}}
        coll = new_local("?", "coll")
        it = new_local(locs[it_op["place"]["local"]]["ty"], "iter")
        b["stmts"].append({"place": {"local": coll, "proj": []}, "rv": {"k": "use", "op": t["args"][0]}, "line": line})
        b["stmts"].append({"place": {"local": it, "proj": []}, "rv": {"k": "use", "op": it_op}, "line": line})
        head, mid, body, exit_b = new_block(), new_block(), new_block(), new_block()
        b["term"] = {"k": "goto", "target": head}
        b["consumer_expanded"] = True
        x = new_local("std::option::Option<?>")
        r = new_local("&mut ?")
        blocks[head]["stmts"].append({"place": {"local": r, "proj": []}, "rv": {"k": "ref", "place": {"local": it, "proj": []}, "mut": True}, "line": line})
        nxt = "<%s as std::iter::Iterator>::next" % locs[it]["ty"]
        blocks[head]["term"] = {"k": "call", "callee": {"path": nxt, "resolved": nxt, "is_resolved": True, "local": False, "crate": "core", "args": []},
                                "args": [mv(r)], "dest": {"local": x, "proj": []}, "target": mid, "span": span}
        dl = new_local("isize")
        blocks[mid]["stmts"].append({"place": {"local": dl, "proj": []}, "rv": {"k": "discr", "place": {"local": x, "proj": []}}, "line": line})
        dead = new_block({"k": "unreachable"})
        blocks[mid]["term"] = {"k": "switch", "discr": mv(dl), "targets": [["0", exit_b], ["1", body]], "otherwise": dead, "span": span}
        v = new_local("?", "item")
        blocks[body]["stmts"].append({"place": {"local": v, "proj": []}, "rv": {"k": "use", "op": {"k": "move", "place": {"local": x, "proj": [
            {"k": "downcast", "variant": "Some", "vidx": 1}, {"k": "field", "idx": 0, "name": "0", "adt": OPTION, "ty": "?"}]}}}, "line": line})
        cr = new_local("&mut ?")
        blocks[body]["stmts"].append({"place": {"local": cr, "proj": []}, "rv": {"k": "use", "op": {"k": "copy", "place": {"local": coll, "proj": []}}}, "line": line})
        unit = new_local("()")
        item_op = mv(v)
        if by_ref:
            vr = new_local("&std::string::String")
            blocks[body]["stmts"].append({"place": {"local": vr, "proj": []}, "rv": {"k": "ref", "place": {"local": v, "proj": []}, "mut": False}, "line": line})
            item_op = mv(vr)
        blocks[body]["term"] = {"k": "call", "callee": {"path": push, "resolved": push, "is_resolved": True, "local": False, "crate": "alloc", "args": []},
                                "args": [mv(cr), item_op], "dest": {"local": unit, "proj": []}, "target": head, "span": span}
        blocks[exit_b]["stmts"].append({"place": dest, "rv": {"k": "use", "op": {"k": "const", "ty": "()", "dbg": "()"}}, "line": line})
        changed = True
    return changed


CONSUMERS = ("for_each", "try_for_each", "fold", "try_fold")


def expand_consumers(prog, d):
    """rewrites `it.for_each(f)`, `it.try_for_each(f)`, `it.fold(init, f)`, `it.try_fold(init, f)` with a closure or fn
    item f into the loop they stand for:

        acc = init; loop { match it.next() { None => break, Some(v) => acc = f(acc, v) [?] } }

    with a direct call of f (which the inliner then splices in), so that rules see the same thing as for a `for`
    loop.  returns True when something changed."""
    blocks, locs = d["blocks"], d["locals"]
    changed = False
    for bi in range(len(blocks)):
        b = blocks[bi]
        if b["cleanup"] or b.get("consumer_expanded"):
            continue
        t = b["term"]
        if t["k"] != "call" or t["target"] < 0 or t["dest"]["proj"]:
            continue
        c = _callee(t)
        last = c.rsplit("::", 1)[-1]
        if last not in CONSUMERS or "Iterator" not in c:
            continue
        want_args = 2 if last in ("for_each", "try_for_each") else 3
        if len(t["args"]) != want_args:
            continue
        it_op, fop = t["args"][0], t["args"][-1]
        init_op = t["args"][1] if want_args == 3 else None
        if it_op.get("k") not in ("copy", "move"):
            continue
        fdef = _closure_def(blocks, fop)
        if fdef is None or (fdef[0] == "closure" and fdef[1] not in prog.fns) or (fdef[0] == "fn" and fdef[1] not in prog.fns):
            continue
        line = t.get("span", {}).get("l0", 0)
        span = t.get("span", {"file": "", "l0": line, "l1": line, "exp": False})
        dest, target = t["dest"], t["target"]
        is_try = last.startswith("try_")
        has_acc = last in ("fold", "try_fold")
        dest_ty = locs[dest["local"]]["ty"] if dest["local"] < len(locs) else "?"
        if dest_ty in ("?", "") and is_try and t["callee"].get("args"):
            dest_ty = str(t["callee"]["args"][-1])           # Iterator::try_for_each::<F, R>: R is the result type
        if is_try and not (dest_ty.startswith("std::result::Result<") or dest_ty.startswith("std::option::Option<")):
            continue
        enum = RESULT if dest_ty.startswith("std::result::Result<") else OPTION

        def new_local(ty, name=""):
            locs.append({"ty": ty, "name": name})
            return len(locs) - 1

        def new_block(term=None):
            blocks.append({"cleanup": False, "stmts": [], "term": term or {"k": "goto", "target": target}, "expanded": "consumer:" + last})
            return len(blocks) - 1

        def mv(n):
            return {"k": "move", "place": {"local": n, "proj": []}}
        it = new_local(locs[it_op["place"]["local"]]["ty"] if not it_op["place"]["proj"] and it_op["place"]["local"] < len(locs) else "?", "iter")
        b["stmts"].append({"place": {"local": it, "proj": []}, "rv": {"k": "use", "op": it_op}, "line": line})
        acc = None
        if has_acc:
            acc = new_local("?", "acc")
            b["stmts"].append({"place": {"local": acc, "proj": []}, "rv": {"k": "use", "op": init_op}, "line": line})
        head, mid, body, exit_b = new_block(), new_block(), new_block(), new_block()
        b["term"] = {"k": "goto", "target": head}
        b["consumer_expanded"] = True
        # head: x = next(&mut it)
        x = new_local("std::option::Option<?>")
        if is_try:
            # try_* take `&mut self`: the operand is already a reference to the iterator
            ref_op = {"k": "copy", "place": {"local": it, "proj": []}}
        else:
            r = new_local("&mut ?")
            blocks[head]["stmts"].append({"place": {"local": r, "proj": []}, "rv": {"k": "ref", "place": {"local": it, "proj": []}, "mut": True}, "line": line})
            ref_op = mv(r)
        # the iterator type decides which next() runs: a local Iterator impl is called directly, anything else is std's
        ity = ""
        if it_op["place"]["local"] < len(locs) and not it_op["place"]["proj"]:
            ity = locs[it_op["place"]["local"]]["ty"].lstrip("&").replace("mut ", "").strip()
        nxt = "<I as std::iter::Iterator>::next"
        nxt_local = False
        head_ty = ity.split("<")[0]
        for q, g2 in prog.fns.items():
            if g2.trait and q.endswith("::next") and head_ty and g2.self_ty.split("<")[0] == head_ty:
                nxt, nxt_local = q, True
        if not nxt_local and ity and ity != "?":
            nxt = "<%s as std::iter::Iterator>::next" % ity
        blocks[head]["term"] = {"k": "call", "callee": {"path": nxt, "resolved": nxt, "is_resolved": True, "local": nxt_local, "crate": "" if nxt_local else "core", "args": [ity] if ity else []},
                                "args": [ref_op], "dest": {"local": x, "proj": []}, "target": mid, "span": span}
        dl = new_local("isize")
        blocks[mid]["stmts"].append({"place": {"local": dl, "proj": []}, "rv": {"k": "discr", "place": {"local": x, "proj": []}}, "line": line})
        dead = new_block({"k": "unreachable"})
        blocks[mid]["term"] = {"k": "switch", "discr": mv(dl), "targets": [["0", exit_b], ["1", body]], "otherwise": dead, "span": span}
        # body: res = f([acc,] v)
        v = new_local("?", "item")
        blocks[body]["stmts"].append({"place": {"local": v, "proj": []}, "rv": {"k": "use", "op": {"k": "move", "place": {"local": x, "proj": [
            {"k": "downcast", "variant": "Some", "vidx": 1}, {"k": "field", "idx": 0, "name": "0", "adt": OPTION, "ty": "?"}]}}}, "line": line})
        args_ops = ([mv(acc)] if has_acc else []) + [mv(v)]
        if fdef[0] == "closure":
            tup = new_local("(?,)")
            blocks[body]["stmts"].append({"place": {"local": tup, "proj": []}, "rv": {"k": "aggregate", "kind": {"agg": "tuple"}, "ops": args_ops}, "line": line})
            cargs = [fop, mv(tup)]
        else:
            cargs = args_ops
        try:
            res_ty = prog.fns[fdef[1]].ret_ty()
        except Exception:
            res_ty = "?"
        res = new_local(res_ty or "?", "step")
        after = new_block()
        blocks[body]["term"] = {"k": "call", "callee": {"path": fdef[1], "resolved": fdef[1], "is_resolved": True, "local": fdef[1] in prog.fns, "crate": "", "args": []},
                                "args": cargs, "dest": {"local": res, "proj": []}, "target": after, "span": span}

        def agg(en, var, ops):
            return {"k": "aggregate", "kind": {"agg": "adt", "adt": en, "variant": var, "vidx": VIDX[(en, var)], "fields": ["0"] if ops else []}, "ops": ops}
        exits = []            # (block that jumps to `target`, class)
        if not is_try:
            if has_acc:
                blocks[after]["stmts"].append({"place": {"local": acc, "proj": []}, "rv": {"k": "use", "op": mv(res)}, "line": line})
            blocks[after]["term"] = {"k": "goto", "target": head}
            if has_acc:
                blocks[exit_b]["stmts"].append({"place": dest, "rv": {"k": "use", "op": mv(acc)}, "line": line})
            else:
                blocks[exit_b]["stmts"].append({"place": dest, "rv": {"k": "use", "op": {"k": "const", "ty": "()", "dbg": "()"}}, "line": line})
        else:
            # after: br = branch(res); switch: Continue -> [acc = payload] head, Break -> dest = from_residual(..)
            br = new_local("std::ops::ControlFlow<?, ?>")
            sw, cont_b, brk_b = new_block(), new_block(), new_block()
            blocks[after]["term"] = {"k": "call", "callee": {"path": "<R as std::ops::Try>::branch", "resolved": "<std::result::Result<T, E> as std::ops::Try>::branch" if enum == RESULT else "<std::option::Option<T> as std::ops::Try>::branch",
                                                              "is_resolved": True, "local": False, "crate": "core", "args": []},
                                     "args": [mv(res)], "dest": {"local": br, "proj": []}, "target": sw, "span": span}
            dd = new_local("isize")
            blocks[sw]["stmts"].append({"place": {"local": dd, "proj": []}, "rv": {"k": "discr", "place": {"local": br, "proj": []}}, "line": line})
            dead2 = new_block({"k": "unreachable"})
            blocks[sw]["term"] = {"k": "switch", "discr": mv(dd), "targets": [["0", cont_b], ["1", brk_b]], "otherwise": dead2, "span": span}
            if has_acc:
                blocks[cont_b]["stmts"].append({"place": {"local": acc, "proj": []}, "rv": {"k": "use", "op": {"k": "move", "place": {"local": br, "proj": [
                    {"k": "downcast", "variant": "Continue", "vidx": 0}, {"k": "field", "idx": 0, "name": "0", "adt": "std::ops::ControlFlow", "ty": "?"}]}}}, "line": line})
            blocks[cont_b]["term"] = {"k": "goto", "target": head}
            resid = new_local("?")
            blocks[brk_b]["stmts"].append({"place": {"local": resid, "proj": []}, "rv": {"k": "use", "op": {"k": "move", "place": {"local": br, "proj": [
                {"k": "downcast", "variant": "Break", "vidx": 1}, {"k": "field", "idx": 0, "name": "0", "adt": "std::ops::ControlFlow", "ty": "?"}]}}}, "line": line})
            fr = "<std::result::Result<T, F> as std::ops::FromResidual<std::result::Result<std::convert::Infallible, E>>>::from_residual" if enum == RESULT else "<std::option::Option<T> as std::ops::FromResidual<std::option::Option<std::convert::Infallible>>>::from_residual"
            blocks[brk_b]["term"] = {"k": "call", "callee": {"path": fr, "resolved": fr, "is_resolved": True, "local": False, "crate": "core", "args": []},
                                     "args": [mv(resid)], "dest": dest, "target": target, "span": span}
            okv = "Ok" if enum == RESULT else "Some"
            if has_acc:
                blocks[exit_b]["stmts"].append({"place": dest, "rv": agg(enum, okv, [mv(acc)]), "line": line})
            else:
                unit = new_local("()")
                blocks[exit_b]["stmts"].append({"place": {"local": unit, "proj": []}, "rv": {"k": "use", "op": {"k": "const", "ty": "()", "dbg": "()"}}, "line": line})
                blocks[exit_b]["stmts"].append({"place": dest, "rv": agg(enum, okv, [mv(unit)]), "line": line})
            # the break arm gets its own landing block so that a following `?` can be threaded
            land = new_block()
            blocks[brk_b]["term"]["target"] = land
            exits = [(exit_b, "ok"), (land, "err")]
        chain = _try_chain_impl(blocks, target, dest["local"])
        if chain is not None and exits:
            chain_blocks, cont_t, brk_t = chain
            for last_b, cls in exits:
                cstart = len(blocks)
                for k_, n_ in enumerate(chain_blocks):
                    nb2 = copy.deepcopy(blocks[n_])
                    if k_ + 1 < len(chain_blocks):
                        nb2["term"]["target"] = cstart + k_ + 1
                    else:
                        nb2["term"] = {"k": "goto", "target": cont_t if cls == "ok" else brk_t}
                    nb2["threaded"] = cls
                    blocks.append(nb2)
                blocks[last_b]["term"] = {"k": "goto", "target": cstart}
        changed = True
    return changed


def _try_chain_impl(blocks, start, dest_local):
    """[converter calls ->] Try::branch(move v) -> switch on its discriminant, starting at block `start`, fed by the
    local dest_local.  returns (chain block ids, continue target, break target) or None"""
    chain, cur, val = [], start, dest_local
    # empty pass-through blocks in front of the chain (the return block of an inlined closure)
    for _ in range(6):
        b0 = blocks[cur]
        if not b0["cleanup"] and not b0["stmts"] and b0["term"]["k"] == "goto":
            cur = b0["term"]["target"]
        else:
            break
    for _ in range(4):
        b = blocks[cur]
        if b["cleanup"] or b["stmts"]:
            return None
        t = b["term"]
        if t["k"] != "call" or not t["args"] or t["target"] < 0:
            return None
        a0 = t["args"][0]
        if a0.get("k") not in ("move", "copy") or a0["place"]["proj"] or a0["place"]["local"] != val or t["dest"]["proj"]:
            return None
        c = _callee(t)
        chain.append(cur)
        if c.rsplit("::", 1)[-1] in CONVERTERS:
            val = t["dest"]["local"]
            cur = t["target"]
            continue
        if c.endswith("::branch"):
            sw = blocks[t["target"]]
            if sw["cleanup"] or sw["term"]["k"] != "switch" or len(sw["stmts"]) != 1:
                return None
            st = sw["stmts"][0]
            if st["rv"]["k"] != "discr" or st["rv"]["place"]["local"] != t["dest"]["local"] or st["rv"]["place"]["proj"]:
                return None
            e = {v: tgt for v, tgt in sw["term"]["targets"]}
            cont = e.get("0")
            brk = e.get("1", sw["term"]["otherwise"])
            if cont is None:
                return None
            chain.append(t["target"])
            return chain, cont, brk
        return None
    return None


def _fn_item_generics(op):
    """generic arguments of a fn item constant, from its type `fn(A) -> R {path::<G1, G2>}`"""
    ty = str(op.get("ty", ""))
    m = re.search(r"\{.*::<(.*)>\}\s*$", ty)
    if not m:
        return []
    out, depth, cur = [], 0, ""
    for ch in m.group(1):
        if ch in "<([":
            depth += 1
        elif ch in ">)]":
            depth -= 1
        if ch == "," and depth == 0:
            out.append(cur.strip())
            cur = ""
        else:
            cur += ch
    if cur.strip():
        out.append(cur.strip())
    return out


def _follow_value(f, op):
    """the constant (fn item) a callable operand holds: through copies, moves, casts, reborrows and the slots of closure
    environments it was captured in (None when that is not a single chain)"""
    for _ in range(10):
        if op.get("k") == "const":
            return op
        if op.get("k") not in ("copy", "move"):
            return None
        pl = op["place"]
        fl = [e for e in pl["proj"] if e["k"] != "deref"]
        if len(fl) == 1 and fl[0]["k"] == "field" and str(fl[0].get("adt", "")).startswith("closure:"):
            env, found = pl["local"], None
            for _ in range(6):
                de = f.whole_defs(env)
                if len(de) != 1 or de[0][0] != "stmt":
                    break
                rve = de[0][1]
                if rve["k"] == "use" and rve["op"].get("k") in ("copy", "move") and not rve["op"]["place"]["proj"]:
                    env = rve["op"]["place"]["local"]
                    continue
                if rve["k"] == "ref" and not [e for e in rve["place"]["proj"] if e["k"] != "deref"]:
                    env = rve["place"]["local"]
                    continue
                if rve["k"] == "aggregate" and rve["kind"].get("agg") == "closure" and fl[0]["idx"] < len(rve["ops"]):
                    found = rve["ops"][fl[0]["idx"]]
                break
            if found is None:
                return None
            op = found
            continue
        if fl:
            return None
        ds = f.whole_defs(pl["local"])
        if len(ds) != 1 or ds[0][0] != "stmt":
            return None
        rv = ds[0][1]
        if rv["k"] == "use":
            op = rv["op"]
        elif rv["k"] == "cast":
            op = rv["a"]
        elif rv["k"] == "ref":
            op = {"k": "copy", "place": rv["place"]}
        else:
            return None
    return None


class Inliner:
    def __init__(self, program, known_fns, known_direct_closures=()):
        self.prog = program
        self.known = set(known_fns)
        self.known_closures = set(known_direct_closures)
        self.inlined_calls = 0
        self.expand = True
        self.expanded = 0
        self.removed = []
        self.log = []

    # -- which callees ---------------------------------------------------------------------
    def _candidate(self, caller_path, term):
        c = _callee(term)
        g = self.prog.fns.get(c)
        if g is None or c == caller_path:
            return None
        if g.kind == "Closure":
            if c in self.known_closures:
                return None
        elif c in self.known:
            return None
        if g.trait:                       # trait impl methods are API (Read/Write/Iterator/Drop/Display impls)
            return None
        if len(g.blocks) > MAX_CALLEE_BLOCKS:
            return None
        if c in self._recursive:
            return None
        return g

    def _find_recursive(self):
        # callees that can reach themselves through unknown functions only
        graph = {}
        for p, f in self.prog.fns.items():
            outs = set()
            for b in f.blocks:
                if b["cleanup"]:
                    continue
                t = b["term"]
                if t["k"] == "call":
                    outs.add(_callee(t))
            graph[p] = outs
        rec = set()
        for p in graph:
            seen, st = set(), list(graph[p])
            while st:
                n = st.pop()
                if n == p:
                    rec.add(p)
                    break
                if n in seen or n not in graph:
                    continue
                seen.add(n)
                st.extend(graph[n])
        return rec

    # -- driver ------------------------------------------------------------------------------
    def run(self):
        from mirlib import Fn
        self._recursive = self._find_recursive()
        for _outer in range(3):
            self._rounds()
            if not self._devirtualise_closure_params():
                break
        self._finish()
        return self

    def _devirtualise_closure_params(self):
        """`f(a, b)` on a generic parameter `f: impl FnOnce(A, B) -> R` is `FnOnce::call_once(f, (a, b))` in MIR.  After
        the helper that takes f was inlined, f is a local that holds one closure (or fn item): call that directly."""
        from mirlib import Fn
        any_change = False
        for p in sorted(self.prog.fns):
            f = self.prog.fns[p]
            todo = []
            for bi, b in enumerate(f.blocks):
                t = b["term"]
                if b["cleanup"] or t["k"] != "call" or len(t["args"]) != 2:
                    continue
                c = _callee(t)
                if c not in ("std::ops::FnOnce::call_once", "std::ops::FnMut::call_mut", "std::ops::Fn::call", "core::ops::function::FnOnce::call_once",
                             "core::ops::function::FnMut::call_mut", "core::ops::function::Fn::call"):
                    continue
                op = t["args"][0]
                target = None
                for _ in range(8):
                    if op.get("k") == "const" and "fn" in op:
                        target = ("fn", op.get("fn_resolved") or op["fn"])
                        break
                    if op.get("k") not in ("copy", "move") or any(e["k"] != "deref" for e in op["place"]["proj"]):
                        break
                    ds = f.whole_defs(op["place"]["local"])
                    if len(ds) != 1 or ds[0][0] != "stmt":
                        break
                    rv = ds[0][1]
                    if rv["k"] == "aggregate" and rv["kind"].get("agg") == "closure":
                        target = ("closure", rv["kind"]["def"])
                        break
                    src_pl = rv["op"]["place"] if rv["k"] == "use" and rv["op"].get("k") in ("copy", "move") else (rv["place"] if rv["k"] == "ref" else None)
                    fl = [e for e in src_pl["proj"] if e["k"] != "deref"] if src_pl is not None else []
                    if len(fl) == 1 and fl[0]["k"] == "field" and str(fl[0].get("adt", "")).startswith("closure:"):
                        # a captured callable: slot of the closure aggregate the environment was built as
                        env, found = src_pl["local"], None
                        for _ in range(6):
                            de = f.whole_defs(env)
                            if len(de) != 1 or de[0][0] != "stmt":
                                break
                            rve = de[0][1]
                            if rve["k"] == "use" and rve["op"].get("k") in ("copy", "move") and not rve["op"]["place"]["proj"]:
                                env = rve["op"]["place"]["local"]
                                continue
                            if rve["k"] == "ref" and not [e for e in rve["place"]["proj"] if e["k"] != "deref"]:
                                env = rve["place"]["local"]
                                continue
                            if rve["k"] == "aggregate" and rve["kind"].get("agg") == "closure" and fl[0]["idx"] < len(rve["ops"]):
                                found = rve["ops"][fl[0]["idx"]]
                            break
                        if found is None:
                            break
                        op = found
                        continue
                    if rv["k"] == "use":
                        op = rv["op"]
                    elif rv["k"] == "ref" and not [e for e in rv["place"]["proj"] if e["k"] != "deref"]:
                        op = {"k": "copy", "place": {"local": rv["place"]["local"], "proj": []}}
                    elif rv["k"] == "cast":
                        op = rv["a"]
                    else:
                        break
                if target is None:
                    continue
                if target[1] not in self.prog.fns and not (target[0] == "fn" and _variant_ctor(self.prog, target) is not None):
                    continue
                todo.append((bi, target))
            if not todo:
                continue
            d = dict(f.d)
            d["blocks"] = copy.deepcopy(f.blocks)
            for bi, (kind, path) in todo:
                t = d["blocks"][bi]["term"]
                if kind == "fn":
                    # spread the argument tuple
                    tup = t["args"][1]
                    ds = f.whole_defs(tup["place"]["local"]) if tup.get("k") in ("copy", "move") and not tup["place"]["proj"] else []
                    if len(ds) != 1 or ds[0][0] != "stmt" or ds[0][1]["k"] != "aggregate" or ds[0][1]["kind"].get("agg") != "tuple":
                        continue
                    ctor = _variant_ctor(self.prog, (kind, path))
                    if ctor is not None:
                        # `wrap(x)` with wrap = RecordValue::Integer: the variant literal
                        en, var, vidx, fields = ctor
                        ops = list(ds[0][1]["ops"])
                        d["blocks"][bi]["stmts"].append({"place": t["dest"], "rv": {"k": "aggregate", "kind": {"agg": "adt", "adt": en, "variant": var, "vidx": vidx, "fields": fields[:len(ops)]}, "ops": ops},
                                                         "line": t.get("span", {}).get("l0", 0)})
                        d["blocks"][bi]["term"] = {"k": "goto", "target": t["target"]}
                        any_change = True
                        continue
                    t["args"] = list(ds[0][1]["ops"])
                t["callee"] = {"path": path, "resolved": path, "is_resolved": True, "local": True, "crate": "", "args": [], "devirtualised": True}
                any_change = True
            nf = Fn(d, f.crate)
            nf.program = self.prog
            self.prog.fns[p] = nf
        return any_change

    def _rounds(self):
        from mirlib import Fn
        for _ in range(MAX_ROUNDS):
            changed = False
            for p in sorted(self.prog.fns):
                f = self.prog.fns[p]
                if self.expand and any(b["term"]["k"] == "call" and not b["cleanup"] and _callee(b["term"]).rsplit("::", 1)[-1] in CONSUMERS and "Iterator" in _callee(b["term"]) and not b.get("consumer_expanded") for b in f.blocks):
                    d2 = dict(f.d)
                    d2["blocks"] = copy.deepcopy(f.blocks)
                    d2["locals"] = list(f.locals)
                    if expand_consumers(self.prog, d2):
                        f = Fn(d2, f.crate)
                        f.program = self.prog
                        self.prog.fns[p] = f
                        self.expanded += 1
                        changed = True
                if self.expand and LOWER_NEXT and any(b["term"]["k"] == "call" and not b["cleanup"] and _callee(b["term"]).endswith("array::from_fn") and not b.get("consumer_expanded") for b in f.blocks):
                    d2 = dict(f.d)
                    d2["blocks"] = copy.deepcopy(f.blocks)
                    d2["locals"] = list(f.locals)
                    if expand_array_from_fn(self.prog, d2):
                        f = Fn(d2, f.crate)
                        f.program = self.prog
                        self.prog.fns[p] = f
                        self.expanded += 1
                        changed = True
                if self.expand and any(b["term"]["k"] == "call" and not b["cleanup"] and _callee(b["term"]).endswith("::map") and "array" in _callee(b["term"]) and not b.get("array_map_expanded") for b in f.blocks):
                    d2 = dict(f.d)
                    d2["blocks"] = copy.deepcopy(f.blocks)
                    d2["locals"] = list(f.locals)
                    if expand_array_map(self.prog, d2):
                        f = Fn(d2, f.crate)
                        f.program = self.prog
                        self.prog.fns[p] = f
                        self.expanded += 1
                        changed = True
                if self.expand and LOWER_NEXT and any(b["term"]["k"] == "call" and not b["cleanup"] and _callee(b["term"]).endswith("Iterator::collect") and not b.get("collect_expanded") for b in f.blocks):
                    d2 = dict(f.d)
                    d2["blocks"] = copy.deepcopy(f.blocks)
                    d2["locals"] = list(f.locals)
                    if expand_collect_string(self.prog, d2):
                        f = Fn(d2, f.crate)
                        f.program = self.prog
                        self.prog.fns[p] = f
                        self.expanded += 1
                        changed = True
                if self.expand and LOWER_NEXT and any(b["term"]["k"] == "call" and not b["cleanup"] and _callee(b["term"]).endswith("::extend") and not b.get("consumer_expanded") for b in f.blocks):
                    d2 = dict(f.d)
                    d2["blocks"] = copy.deepcopy(f.blocks)
                    d2["locals"] = list(f.locals)
                    if expand_extend(self.prog, d2):
                        f = Fn(d2, f.crate)
                        f.program = self.prog
                        self.prog.fns[p] = f
                        self.expanded += 1
                        changed = True
                if self.expand and LOWER_NEXT and any(b["term"]["k"] == "call" and not b["cleanup"] and _callee(b["term"]).endswith("::next") and not b.get("next_lowered") for b in f.blocks):
                    d2 = dict(f.d)
                    d2["blocks"] = copy.deepcopy(f.blocks)
                    d2["locals"] = list(f.locals)
                    if lower_lazy_next(self.prog, d2):
                        f = Fn(d2, f.crate)
                        f.program = self.prog
                        self.prog.fns[p] = f
                        self.expanded += 1
                        changed = True
                if self.expand and any(b["term"]["k"] == "call" and not b["cleanup"] and _callee(b["term"]).rsplit("::", 1)[-1] in ("transpose", "flatten") and "Option::<" in _callee(b["term"]) and not b.get("structural_expanded") for b in f.blocks):
                    d2 = dict(f.d)
                    d2["blocks"] = copy.deepcopy(f.blocks)
                    d2["locals"] = list(f.locals)
                    if expand_structural(self.prog, d2):
                        f = Fn(d2, f.crate)
                        f.program = self.prog
                        self.prog.fns[p] = f
                        self.expanded += 1
                        changed = True
                if self.expand and any(b["term"]["k"] == "call" and not b["cleanup"] and _callee(b["term"]).rsplit("::", 1)[-1] in CONVERTERS and not b.get("converter_expanded") for b in f.blocks):
                    d2 = dict(f.d)
                    d2["blocks"] = copy.deepcopy(f.blocks)
                    d2["locals"] = list(f.locals)
                    if expand_literal_converters(self.prog, d2):
                        f = Fn(d2, f.crate)
                        f.program = self.prog
                        self.prog.fns[p] = f
                        self.expanded += 1
                        changed = True
                if self.expand and any(b["term"]["k"] == "call" and not b["cleanup"] and any(_callee(b["term"]).endswith(k) for k in COMBINATORS) for b in f.blocks):
                    d2 = dict(f.d)
                    d2["blocks"] = copy.deepcopy(f.blocks)
                    d2["locals"] = list(f.locals)
                    if expand_combinators(self.prog, d2):
                        f = Fn(d2, f.crate)
                        f.program = self.prog
                        self.prog.fns[p] = f
                        self.expanded += 1
                        changed = True
                new_d = self._inline_in(f)
                if new_d is not None:
                    nf = Fn(new_d, f.crate)
                    nf.program = self.prog
                    self.prog.fns[p] = nf
                    changed = True
            if not changed:
                break

    def _finish(self):
        from mirlib import Fn
        self._devirtualise()
        self.prog._cg = None
        self.prog._always_err = {}
        for p in sorted(self.prog.fns):
            f = self.prog.fns[p]
            d2 = dict(f.d)
            d2["blocks"] = copy.deepcopy(f.blocks)
            folded = fold_const_slice_len(d2)
            if thread_known_discriminants(self.prog, d2) or folded:
                nf = Fn(d2, f.crate)
                nf.program = self.prog
                self.prog.fns[p] = nf
                self.threaded = getattr(self, "threaded", 0) + 1
        # remove helpers that are no longer called (never known, never public API of a known type, address not taken)
        called, taken = set(), set()
        for p, f in self.prog.fns.items():
            for b in f.blocks:
                if b["cleanup"]:
                    continue
                t = b["term"]
                if t["k"] == "call":
                    called.add(_callee(t))
                    for o in t["args"]:
                        if o.get("k") == "const" and "fn" in o:
                            taken.add(o["fn"])
                for st in b["stmts"]:
                    rv = st["rv"]
                    if rv["k"] == "aggregate" and rv["kind"].get("agg") == "closure":
                        taken.add(rv["kind"]["def"])
                    for o in rv.get("ops", []) if rv["k"] == "aggregate" else []:
                        if o.get("k") == "const" and "fn" in o:
                            taken.add(o["fn"])
                    if rv["k"] == "use" and rv["op"].get("k") == "const" and "fn" in rv["op"]:
                        taken.add(rv["op"]["fn"])
        for p in sorted(self._was_inlined):
            f = self.prog.fns.get(p)
            if f is None or p in called or f.trait or f.public:
                continue
            if f.kind == "Closure":
                if p in self._closures_passed_on():
                    continue            # still handed to an iterator adapter or another callee
            elif p in taken:
                continue
            del self.prog.fns[p]
            self.removed.append(p)
        self.prog._cg = None
        return self

    _was_inlined = set()

    def _devirtualise(self):
        """a call through a local that only ever holds one fn item (a constructor passed as `wrap: fn(i64) -> T` to a
        helper that was inlined) becomes a direct call of that item"""
        from mirlib import Fn
        for p in sorted(self.prog.fns):
            f = self.prog.fns[p]
            todo = []
            for bi, b in enumerate(f.blocks):
                t = b["term"]
                if b["cleanup"] or t["k"] != "call" or "indirect" not in t["callee"]:
                    continue
                op = _follow_value(f, t["callee"]["indirect"])
                if op is not None and op.get("k") == "const" and "fn" in op:
                    todo.append((bi, op))
            if not todo:
                continue
            d = dict(f.d)
            d["blocks"] = copy.deepcopy(f.blocks)
            for bi, op in todo:
                path = op.get("fn_resolved") or op["fn"]
                d["blocks"][bi]["term"]["callee"] = {"path": op["fn"], "resolved": path, "is_resolved": True, "local": path in self.prog.fns, "crate": "", "args": _fn_item_generics(op), "devirtualised": True}
            nf = Fn(d, f.crate)
            nf.program = self.prog
            self.prog.fns[p] = nf

    def _closures_passed_on(self):
        """closures whose value still reaches a call argument somewhere (adapters, callbacks)"""
        out = set()
        for q, f in self.prog.fns.items():
            derived = {}
            for b in f.blocks:
                if b["cleanup"]:
                    continue
                for st in b["stmts"]:
                    rv = st["rv"]
                    if rv["k"] == "aggregate" and rv["kind"].get("agg") == "closure" and not st["place"]["proj"]:
                        derived[st["place"]["local"]] = rv["kind"]["def"]
            if not derived:
                continue
            for _ in range(4):
                for b in f.blocks:
                    if b["cleanup"]:
                        continue
                    for st in b["stmts"]:
                        rv = st["rv"]
                        src = None
                        if rv["k"] == "use" and rv["op"].get("k") in ("copy", "move") and not rv["op"]["place"]["proj"]:
                            src = rv["op"]["place"]["local"]
                        elif rv["k"] == "ref" and all(e["k"] == "deref" for e in rv["place"]["proj"]):
                            src = rv["place"]["local"]
                        elif rv["k"] == "cast" and rv["a"].get("k") in ("copy", "move") and not rv["a"]["place"]["proj"]:
                            src = rv["a"]["place"]["local"]
                        if src in derived and not st["place"]["proj"]:
                            derived.setdefault(st["place"]["local"], derived[src])
            for b in f.blocks:
                if b["cleanup"]:
                    continue
                t = b["term"]
                if t["k"] == "call":
                    for a in t["args"]:
                        if a.get("k") in ("copy", "move") and a["place"]["local"] in derived and not a["place"]["proj"]:
                            out.add(derived[a["place"]["local"]])
        return out

    def _inline_in(self, f):
        sites = []
        for bi, b in enumerate(f.blocks):
            if b["cleanup"]:
                continue
            t = b["term"]
            if t["k"] != "call" or t["target"] < 0:
                continue
            g = self._candidate(f.path, t)
            if g is not None:
                sites.append((bi, g))
        if not sites:
            return None
        d = dict(f.d)
        d["blocks"] = copy.deepcopy(f.blocks)
        d["locals"] = list(f.locals)
        for bi, g in sites:
            self._inline_site(d, bi, g)
            self.inlined_calls += 1
            self._was_inlined = self._was_inlined | {g.path}
            self.log.append((f.path, g.path))
        self._mark_dead(d)
        return d

    @staticmethod
    def _mark_dead(d):
        blocks = d["blocks"]
        seen, st = set(), [0]
        while st:
            n = st.pop()
            if n in seen:
                continue
            seen.add(n)
            for s in _succs(blocks[n]["term"]):
                if not blocks[s]["cleanup"]:
                    st.append(s)
        for i, b in enumerate(blocks):
            if i not in seen and not b["cleanup"]:
                b["cleanup"] = True
                b["dead"] = True

    # -- one call site -----------------------------------------------------------------------
    def _try_chain(self, blocks, start, dest_local):
        return _try_chain_impl(blocks, start, dest_local)

    def _unused(self, blocks, start, dest_local):
        """[converter calls ->] Try::branch(move v) -> switch on its discriminant, starting at block `start`, fed by the
        local dest_local.  returns (chain block ids, continue target, break target) or None"""
        chain, cur, val = [], start, dest_local
        for _ in range(4):
            b = blocks[cur]
            if b["cleanup"] or b["stmts"]:
                return None
            t = b["term"]
            if t["k"] != "call" or not t["args"] or t["target"] < 0:
                return None
            a0 = t["args"][0]
            if a0.get("k") not in ("move", "copy") or a0["place"]["proj"] or a0["place"]["local"] != val or t["dest"]["proj"]:
                return None
            c = _callee(t)
            chain.append(cur)
            if c.rsplit("::", 1)[-1] in CONVERTERS:
                val = t["dest"]["local"]
                cur = t["target"]
                continue
            if c.endswith("::branch"):
                sw = blocks[t["target"]]
                if sw["cleanup"] or sw["term"]["k"] != "switch" or len(sw["stmts"]) != 1:
                    return None
                st = sw["stmts"][0]
                if st["rv"]["k"] != "discr" or st["rv"]["place"]["local"] != t["dest"]["local"] or st["rv"]["place"]["proj"]:
                    return None
                e = {v: tgt for v, tgt in sw["term"]["targets"]}
                cont = e.get("0")
                brk = e.get("1", sw["term"]["otherwise"])
                if cont is None:
                    return None
                chain.append(t["target"])
                return chain, cont, brk
            return None
        return None

    def _inline_site(self, d, bi, g):
        blocks, locs = d["blocks"], d["locals"]
        call = blocks[bi]["term"]
        dest = call["dest"]
        target = call["target"]
        loff = len(locs)
        # locals: callee local 0 is the destination when that is a plain local
        direct_ret = not dest["proj"]
        for l in g.locals:
            locs.append(dict(l))

        def lm(n):
            if n == 0 and direct_ret:
                return dest["local"]
            return loff + n
        gb = copy.deepcopy(g.blocks)
        # const generic parameters of the helper take the values of this call (`field::<8>(..)`: N = 8)
        gen = g.d.get("generics") or []
        gargs = call["callee"].get("args") or []
        cmap_ = {}
        if gen and len(gen) == len(gargs):
            for name, val in zip(gen, gargs):
                m = re.match(r"^(\d+)(?:_[iu](?:8|16|32|64|128|size))?$", str(val))
                if m and re.match(r"^[A-Z][A-Z0-9_]*$", name):
                    cmap_[name] = int(m.group(1))
        if cmap_:
            _subst_const_params(gb, cmap_)
        # type parameters of the helper inside the generic arguments of its own calls (`optional_attribute::<T>` called
        # from `optional_min_max::<i64>` is `optional_attribute::<i64>`)
        tmap_ = {}
        if gen and len(gen) == len(gargs):
            for name, val in zip(gen, gargs):
                if name not in cmap_ and re.match(r"^[A-Z][A-Za-z0-9]*$", name) and isinstance(val, str) and val and not val.startswith("'") and val != name:
                    tmap_[name] = val
        if tmap_:
            pat_ = re.compile(r"(?<![A-Za-z0-9_:])(%s)(?![A-Za-z0-9_])" % "|".join(re.escape(k) for k in tmap_))
            for b_ in gb:
                t_ = b_["term"]
                if t_["k"] == "call" and isinstance(t_["callee"].get("args"), list):
                    t_["callee"]["args"] = [pat_.sub(lambda m: tmap_[m.group(1)], a) if isinstance(a, str) else a for a in t_["callee"]["args"]]
        # normalise: an assignment to the return place ends its block
        i = 0
        while i < len(gb):
            b = gb[i]
            if not b["cleanup"]:
                for si, st in enumerate(b["stmts"]):
                    if st["place"]["local"] == 0 and not st["place"]["proj"] and (si + 1 < len(b["stmts"]) or b["term"]["k"] != "goto"):
                        rest = {"cleanup": False, "stmts": b["stmts"][si + 1:], "term": b["term"]}
                        gb.append(rest)
                        b["stmts"] = b["stmts"][:si + 1]
                        b["term"] = {"k": "goto", "target": len(gb) - 1}
                        break
            i += 1
        # return sites and their classes
        sites = []
        partial_ret = False
        for i, b in enumerate(gb):
            if b["cleanup"]:
                continue
            for st in b["stmts"]:
                if st["place"]["local"] == 0:
                    if st["place"]["proj"]:
                        partial_ret = True
                    else:
                        sites.append((i, _class_of_def("stmt", st["rv"], self.prog)))
            t = b["term"]
            if t["k"] == "call" and t["dest"]["local"] == 0:
                if t["dest"]["proj"]:
                    partial_ret = True
                else:
                    sites.append((i, _class_of_def("call", t, self.prog)))
        chain = self._try_chain(blocks, target, dest["local"]) if direct_ret else None
        thread = chain is not None and not partial_ret and any(c != "unknown" for _, c in sites)
        tails = {}
        if thread:
            site_blocks = {i for i, _ in sites}
            for i, cls in sites:
                tail, st = set(), list(_succs(gb[i]["term"]))
                ok = True
                while st:
                    n = st.pop()
                    if n in tail or gb[n]["cleanup"]:
                        continue
                    if n in site_blocks or len(tail) > 60:
                        ok = False
                        break
                    tail.add(n)
                    st.extend(_succs(gb[n]["term"]))
                if not ok:
                    thread = False
                    break
                tails[i] = tail
        boff = len(blocks)

        def bm(n):
            return boff + n
        ret_stmt = None
        if not direct_ret:
            ret_stmt = {"place": dest, "rv": {"k": "use", "op": {"k": "move", "place": {"local": loff, "proj": []}}}, "line": blocks[bi]["stmts"][-1]["line"] if blocks[bi]["stmts"] else g.span["l0"]}
        # main copy
        for i, b in enumerate(gb):
            nb = {"cleanup": b["cleanup"], "stmts": [{"place": _map_place(st["place"], lm), "rv": _map_rv(st["rv"], lm), "line": st.get("line", 0)} for st in b["stmts"]],
                  "term": _map_term(b["term"], lm, bm)}
            if b["term"]["k"] == "return":
                if ret_stmt is not None:
                    nb["stmts"].append(copy.deepcopy(ret_stmt))
                nb["term"] = {"k": "goto", "target": target}
            nb["inlined_from"] = g.path
            blocks.append(nb)
        if thread:
            chain_blocks, cont, brk = chain
            for i, cls in sites:
                # clone the tail of this return site
                tail = sorted(tails[i])
                tmap = {n: len(blocks) + k for k, n in enumerate(tail)}
                # clone of the caller's ?-chain for this site
                cstart = len(blocks) + len(tail)
                cmap = {n: cstart + k for k, n in enumerate(chain_blocks)}

                def tbm(n, tmap=tmap):
                    return tmap.get(n, boff + n)
                for n in tail:
                    b = gb[n]
                    nb = {"cleanup": False, "stmts": [{"place": _map_place(st["place"], lm), "rv": _map_rv(st["rv"], lm), "line": st.get("line", 0)} for st in b["stmts"]],
                          "term": _map_term(b["term"], lm, tbm), "inlined_from": g.path}
                    if b["term"]["k"] == "return":
                        nb["term"] = {"k": "goto", "target": cstart}
                    blocks.append(nb)
                for k, n in enumerate(chain_blocks):
                    nb = copy.deepcopy(blocks[n])
                    t = nb["term"]
                    if k + 1 < len(chain_blocks):
                        t["target"] = cmap[chain_blocks[k + 1]]
                    else:
                        # the switch: keep only the edge this class can take
                        if cls == "ok":
                            nb["term"] = {"k": "goto", "target": cont}
                        elif cls == "err":
                            nb["term"] = {"k": "goto", "target": brk}
                    nb["threaded"] = cls
                    blocks.append(nb)
                # retarget the site's own successor edges into its tail clone
                sb = blocks[boff + i]
                sb["term"] = _map_term(gb[i]["term"], lm, tbm)
                if gb[i]["term"]["k"] == "return":
                    sb["term"] = {"k": "goto", "target": cstart}
        # the call block: bind the parameters and jump to the callee's entry
        line = call.get("span", {}).get("l0", 0)
        args = call["args"]
        stmts = blocks[bi]["stmts"]
        if g.kind == "Closure" and len(args) == 2 and g.argc >= 1:
            stmts.append({"place": {"local": loff + 1, "proj": []}, "rv": {"k": "use", "op": args[0]}, "line": line})
            tup = args[1]
            for j in range(g.argc - 1):
                if tup.get("k") in ("copy", "move"):
                    pl = {"local": tup["place"]["local"], "proj": list(tup["place"]["proj"]) + [{"k": "field", "idx": j, "name": "", "adt": "tuple", "ty": g.locals[2 + j]["ty"]}]}
                    op = {"k": tup["k"], "place": pl}
                else:
                    op = tup
                stmts.append({"place": {"local": loff + 2 + j, "proj": []}, "rv": {"k": "use", "op": op}, "line": line})
        else:
            for j, a in enumerate(args[:g.argc]):
                stmts.append({"place": {"local": loff + 1 + j, "proj": []}, "rv": {"k": "use", "op": a}, "line": line})
        blocks[bi]["term"] = {"k": "goto", "target": boff}


def known_functions(cfg, crate):
    from facts import VERIF
    p = os.path.join(VERIF, "spec", "known_functions.json")
    if not os.path.exists(p):
        return None
    d = json.load(open(p))
    e = d.get("%s/%s" % (cfg, crate))
    return e
