"""Byte-buffer views with constant bounds, independent of how the slicing is spelled.

    buf[8..16]                      -> (buf, 8, 16)
    buf[pos..pos + 8] with pos = 8  -> (buf, 8, 16)        (constant folding after helper inlining)
    (&buf[1..])[0..2]               -> (buf, 1, 3)         (slice of a slice)
    buf.split_at(4).1[..2]          -> (buf, 4, 6)
and iteration over a literal table: a tree that mentions `next()` of an iterator over an array literal stands for one
instance per array element (`for (pos, value) in [(8, a), (16, b)] { buf[pos..pos + 8]... }`)."""
from mirlib import *
from cache_rules import slice_of


def const_eval(t):
    """integer value of a constant expression tree (None when it is not constant)"""
    if t is None:
        return None
    t = strip(t)
    while t[0] == "cast":
        t = strip(t[2])
    if t[0] == "const":
        return t[2] if isinstance(t[2], int) else None
    if t[0] == "binop":
        op = t[1].replace("WithOverflow", "")
        a, b = const_eval(t[2]), const_eval(t[3])
        if a is None or b is None:
            return None
        if op == "Add":
            return a + b
        if op == "Sub":
            return a - b
        if op == "Mul":
            return a * b
        if op == "Div" and b:
            return a // b
        if op == "Rem" and b:
            return a % b
    return None


CONTEXT_FN = [None]        # the function whose trees are being decoded (set by the layout rules): needed for cursors


def _chunk_cursor(x):
    """x = <ChunksExact>::next(it) with it = view.chunks_exact(k): when every next() on that iterator lies on one
    straight line (pairwise ordered by dominance, outside loops, nothing else consumes the iterator), the n-th call
    yields view[k*n .. k*n + k].  returns (view tree, k, n) or None"""
    fn = CONTEXT_FN[0]
    if fn is None or len(x) < 4 or x[3] is None or x[3] < 0 or not x[2]:
        return None
    src = strip(x[2][0])
    while src[0] in ("cast", "ref"):
        src = strip(src[2] if src[0] == "cast" else src[1])
    if not (src[0] == "call" and src[1].rsplit("::", 1)[-1] in ("chunks_exact",) and len(src[2]) == 2):
        return None
    k = const_eval(src[2][1])
    if not k:
        return None
    R = Resolver(fn, max_depth=24)
    nexts = []
    for bi, t in fn.calls():
        trees = [R.operand(a) for a in t["args"]]
        uses = any(y[0] == "call" and y[1] == src[1] and len(y) > 3 and y[3] == src[3] for tr in trees for y in leaves(tr))
        if not uses:
            continue
        last = callee_of(t).rsplit("::", 1)[-1]
        if last == "next" and len(t["args"]) == 1:
            nexts.append(bi)
        elif bi == src[3] or any(callee_of(t).endswith(sfx) for sfx in TRANSPARENT_SUFFIX) or last in CONVERTERS or last in ("branch", "from_le_bytes", "try_into"):
            continue
        else:
            # the items may flow on, the iterator itself must not: only flag calls that take the iterator (not an item)
            it_passed = any(strip(tr) == src or (strip(tr)[0] in ("ref", "cast") and src in leaves(tr) and not any(
                y[0] == "call" and y[1].rsplit("::", 1)[-1] == "next" for y in leaves(tr))) for tr in trees)
            if it_passed:
                return None
    if x[3] not in nexts:
        return None
    loops = natural_loops(fn)
    if any(b in body for b in nexts for body in loops.values()):
        return None
    for a in nexts:
        for b in nexts:
            if a != b and not (fn.dominates(a, b) or fn.dominates(b, a)):
                return None
    n = sum(1 for b in nexts if b != x[3] and fn.dominates(b, x[3]))
    return src[2][0], k, n


def byteview(t, depth=0):
    """(root tree, lo, hi) of a byte slice / array view with constant bounds; hi may be None (to the end)"""
    if depth > 8:
        return None
    x = strip(t)
    while x[0] == "cast":
        x = strip(x[2])
    if x[0] == "call" and x[1].rsplit("::", 1)[-1] == "next" and "ChunksExact" in x[1]:
        cur = _chunk_cursor(x)
        if cur is None:
            return None
        bv = byteview(cur[0], depth + 1)
        if bv is None:
            return None
        return (bv[0], bv[1] + cur[1] * cur[2], bv[1] + cur[1] * cur[2] + cur[1])
    sl = slice_of(x)
    if sl is None:
        return (x, 0, None)
    base, kind, lo, hi = sl
    bv = byteview(base, depth + 1)
    if bv is None:
        return None
    root, blo, bhi = bv
    lo_c = 0 if lo is None else const_eval(lo)
    hi_c = None if hi is None else const_eval(hi)
    if lo_c is None or (hi is not None and hi_c is None):
        return None
    new_lo = blo + lo_c
    new_hi = (blo + hi_c) if hi_c is not None else bhi
    return (root, new_lo, new_hi)


# -- literal tables -------------------------------------------------------------------------

def _enumerable(it, n=None, via_iter=False):
    """the items an iterator expression yields when they can be listed: the elements of an array literal, or the
    first n chunks of view.chunks_exact(k) (as constant-bounds slices of the view)"""
    # strip() looks through iter() / iter_mut() / into_iter(): remember that the value is iterated
    z0 = it
    for _ in range(6):
        if z0[0] in ("ok", "cast", "ref", "partial"):
            z0 = z0[2] if z0[0] == "cast" else z0[1]
        elif z0[0] == "call" and z0[2] and z0[1].rsplit("::", 1)[-1] in ("into_iter", "iter", "iter_mut"):
            via_iter = True
            z0 = z0[2][0]
        else:
            break
    y = strip(it)
    while y[0] == "cast":
        y = strip(y[2])
    if y[0] == "call" and y[1].rsplit("::", 1)[-1] in ("into_iter", "iter", "iter_mut") and y[2]:
        return _enumerable(y[2][0], n, True)
    if y[0] == "agg" and y[1][0] == "array" and y[2]:
        return list(y[2])
    if via_iter and n is not None and (y[0] in ("param", "field", "local") or (y[0] == "call" and y[1].rsplit("::", 1)[-1] == "default")):
        # iter() / iter_mut() over an array that is not a literal, zipped with a table of n entries: its first n elements
        return [("index", y, ("const", "usize", i)) for i in range(n)]
    if y[0] == "call" and y[1].rsplit("::", 1)[-1] in ("chunks_exact", "chunks_exact_mut") and len(y[2]) == 2 and n is not None:
        k = const_eval(y[2][1])
        if k:
            rng = lambda a, b: ("agg", ("adt", "std::ops::Range", "Range", ("start", "end")), (("const", "usize", a), ("const", "usize", b)))
            return [("call", "core::slice::index::<impl std::ops::Index<I> for [T]>::index", (y[2][0], rng(k * i, k * i + k)), -1, ()) for i in range(n)]
    return None


def _some_payload(e):
    """payload of an Option-valued tree when it is Some (None when it never is)"""
    e0 = strip(e)
    if e0[0] == "agg" and e0[1][0] == "adt" and e0[1][1].endswith("option::Option"):
        return e0[2][0] if e0[1][2] == "Some" and e0[2] else None
    if e0[0] == "phi":
        alts = [p for p in (_some_payload(a) for a in e0[1]) if p is not None]
        if not alts:
            return None
        return alts[0] if len(alts) == 1 else ("phi", tuple(alts))
    return ("ok", e)


def _table_item(t):
    """the sub-tree `ok(next(<iterator over an array literal>))` inside t, with the items it stands for (the array's
    elements, or (index, element) pairs under enumerate())"""
    for x in leaves(t):
        if x[0] == "ok" and x[1][0] == "call" and x[1][1].rsplit("::", 1)[-1] == "next" and x[1][2]:
            it = x[1][2][0]
            enumerated = False
            z = strip(it)
            while z[0] == "call" and z[1].rsplit("::", 1)[-1] in ("into_iter",) and z[2]:
                z = strip(z[2][0])
            if z[0] == "call" and z[1].rsplit("::", 1)[-1] == "zip" and len(z[2]) == 2:
                # a literal table zipped with the chunks of a view: pairs (chunk i, element i)
                a, b = _enumerable(z[2][0]), _enumerable(z[2][1])
                if a is None and b is not None:
                    a = _enumerable(z[2][0], len(b))
                elif b is None and a is not None:
                    b = _enumerable(z[2][1], len(a))
                if a is not None and b is not None:
                    return x, [("agg", ("tuple",), (p, q)) for p, q in zip(a, b)]
            flattened = False
            for y in leaves(it):
                if y[0] == "call" and y[1].rsplit("::", 1)[-1] == "flatten":
                    flattened = True
                if y[0] == "agg" and y[1][0] == "array" and y[2]:
                    items = list(y[2])
                    if flattened:
                        # [Some(a), None, opt].into_iter().flatten(): the payloads of the elements that are Some
                        items = [p_ for p_ in (_some_payload(e) for e in items) if p_ is not None]
                    if enumerated:
                        items = [("agg", ("tuple",), (("const", "usize", i), e)) for i, e in enumerate(items)]
                    return x, items
                if y[0] == "call" and y[1].rsplit("::", 1)[-1] == "enumerate":
                    enumerated = True
                if y[0] == "call" and y[1].rsplit("::", 1)[-1] in ("zip", "chain", "filter", "map", "rev", "skip", "step_by"):
                    break
    return None


def _subst(t, old, new):
    if t == old:
        return new
    if not isinstance(t, tuple):
        return t
    return tuple(_subst(a, old, new) if isinstance(a, tuple) else a for a in t)


def _simplify(t):
    """field k of a tuple / struct literal -> its operand (after substitution of a table element)"""
    if not isinstance(t, tuple) or not t:
        return t
    t = tuple(_simplify(a) if isinstance(a, tuple) else a for a in t)
    if t[0] == "field" and isinstance(t[1], tuple):
        b = t[1]
        while b[0] in ("ok",):
            b = b[1]
        if b[0] == "agg" and b[1][0] == "tuple" and str(t[2]).isdigit() and int(t[2]) < len(b[2]):
            return b[2][int(t[2])]
    return t


def table_instances(trees):
    """trees: list of trees of one statement.  If they iterate a literal table: one list of trees per element"""
    for t in trees:
        hit = _table_item(t)
        if hit:
            item, elems = hit
            return [[_simplify(_subst(x, item, e)) for x in trees] for e in elems]
    return [list(trees)]
