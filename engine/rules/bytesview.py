"""Byte-buffer views with constant bounds, independent of how the slicing is spelled.

    buf[8..16]                      -> (buf, 8, 16)
    buf[pos..pos + 8] with pos = 8  -> (buf, 8, 16)        (constant folding after helper inlining)
    (&buf[1..])[0..2]               -> (buf, 1, 3)         (slice of a slice)
    buf.split_at(4).1[..2]          -> (buf, 4, 6)
and iteration over a literal table: a tree that mentions `next()` of an iterator over an array literal stands for one
instance per array element (`for (pos, value) in [(8, a), (16, b)] { buf[pos..pos + 8]... }`)."""
from mirlib import *
from cache_rules import slice_of


def const_eval(t):
    """integer value of a constant expression tree (None when it is not constant)"""
    if t is None:
        return None
    t = strip(t)
    while t[0] == "cast":
        t = strip(t[2])
    if t[0] == "const":
        return t[2] if isinstance(t[2], int) else None
    if t[0] == "binop":
        op = t[1].replace("WithOverflow", "")
        a, b = const_eval(t[2]), const_eval(t[3])
        if a is None or b is None:
            return None
        if op == "Add":
            return a + b
        if op == "Sub":
            return a - b
        if op == "Mul":
            return a * b
        if op == "Div" and b:
            return a // b
        if op == "Rem" and b:
            return a % b
    return None


def byteview(t, depth=0):
    """(root tree, lo, hi) of a byte slice / array view with constant bounds; hi may be None (to the end)"""
    if depth > 8:
        return None
    x = strip(t)
    while x[0] == "cast":
        x = strip(x[2])
    sl = slice_of(x)
    if sl is None:
        return (x, 0, None)
    base, kind, lo, hi = sl
    bv = byteview(base, depth + 1)
    if bv is None:
        return None
    root, blo, bhi = bv
    lo_c = 0 if lo is None else const_eval(lo)
    hi_c = None if hi is None else const_eval(hi)
    if lo_c is None or (hi is not None and hi_c is None):
        return None
    new_lo = blo + lo_c
    new_hi = (blo + hi_c) if hi_c is not None else bhi
    return (root, new_lo, new_hi)


# -- literal tables -------------------------------------------------------------------------

def _table_item(t):
    """the sub-tree `ok(next(<iterator over an array literal>))` inside t, with the items it stands for (the array's
    elements, or (index, element) pairs under enumerate())"""
    for x in leaves(t):
        if x[0] == "ok" and x[1][0] == "call" and x[1][1].rsplit("::", 1)[-1] == "next" and x[1][2]:
            it = x[1][2][0]
            enumerated = False
            for y in leaves(it):
                if y[0] == "agg" and y[1][0] == "array" and y[2]:
                    items = list(y[2])
                    if enumerated:
                        items = [("agg", ("tuple",), (("const", "usize", i), e)) for i, e in enumerate(items)]
                    return x, items
                if y[0] == "call" and y[1].rsplit("::", 1)[-1] == "enumerate":
                    enumerated = True
                if y[0] == "call" and y[1].rsplit("::", 1)[-1] in ("zip", "chain", "filter", "map", "rev", "skip", "step_by"):
                    break
    return None


def _subst(t, old, new):
    if t == old:
        return new
    if not isinstance(t, tuple):
        return t
    return tuple(_subst(a, old, new) if isinstance(a, tuple) else a for a in t)


def _simplify(t):
    """field k of a tuple / struct literal -> its operand (after substitution of a table element)"""
    if not isinstance(t, tuple) or not t:
        return t
    t = tuple(_simplify(a) if isinstance(a, tuple) else a for a in t)
    if t[0] == "field" and isinstance(t[1], tuple):
        b = t[1]
        while b[0] in ("ok",):
            b = b[1]
        if b[0] == "agg" and b[1][0] == "tuple" and str(t[2]).isdigit() and int(t[2]) < len(b[2]):
            return b[2][int(t[2])]
    return t


def table_instances(trees):
    """trees: list of trees of one statement.  If they iterate a literal table: one list of trees per element"""
    for t in trees:
        hit = _table_item(t)
        if hit:
            item, elems = hit
            return [[_simplify(_subst(x, item, e)) for x in trees] for e in elems]
    return [list(trees)]
