"""C11 — page layer: file payload always equals the logical stream written (DESIGN §4 C11)."""
from mirlib import *
import page_rules
import cache_rules
import crc_rules
import header_rules

TECHNIQUE = "MIR dominance / must-pass-through rules of the page writer (seal-before-emit, flush-before-seek, reload-after-advance), expression-tree match of the logical<->physical formulas and align, explicit who-may-assign table of the page cursors, short-read loop shape, page constants agreement, reader cache typestate"
EXPLANATION = (
    "Decides for both crc32c configurations: every device write of the page buffer is dominated by storing "
    "to_be_bytes(crc(page_buffer[..1020])) into page_buffer[1020..] with the payload untouched in between; physical_seek and "
    "physical_size flush before touching the device cursor; physical_seek rejects targets beyond the end or inside a "
    "checksum before repositioning, positions the device at the page start, reloads the page and sets offset = pos % 1024; "
    "after emitting a full page write() resets offset, reloads the next page and restores the device position; flush writes "
    "the partial page, seeks back and forwards the device flush without changing offset; physical_position = "
    "stream_position + offset; reader seek_physical = pos - (pos/page_size)*4 guarded by the file size; both align "
    "formulas; the page cursors are assigned only by the functions whose arithmetic these rules verify; read_current_page "
    "loops over short reads and zero-fills; the constants 1024/1020/4 agree. Also the page reader's cache typestate (who-may-write, invalidate-on-clobber, validate-before-publish), and the shape of the built-in CRC-32C (table, step, and that every byte of the payload slice is folded). Not decided: equality of device payload and "
    "logical stream over arbitrary operation histories (state-space exploration is a different technique).")


def run(ctx):
    ctx.rule("R1", "every device write of page_buffer is preceded by sealing it with the big-endian CRC of its first 1020 bytes, payload untouched in between")
    ctx.rule("R2", "physical_seek / physical_size flush first; physical_seek rejects bad targets, seeks to the page start, reloads, seeks back, then sets offset = pos % 1024")
    ctx.rule("R3", "write(): copy n = min(len, 1020 - offset) bytes; at offset == 1020 seal+emit, take the device position, reset offset, reload the next page, restore the position; flush(): partial page written and device repositioned, offset unchanged")
    ctx.rule("R4", "formula trees: physical_position, seek_physical, PagedWriter::align, PagedReader::align")
    ctx.rule("R5", "page constants agree (1024 / 1020 / 4); the page cursors are assigned only inside the verified functions")
    ctx.rule("R6", "read_current_page loops over short reads until full or EOF and zero-fills the rest of the whole page buffer")
    ctx.rule("R7", "the page reader's cache typestate: who-may-write, invalidate-on-clobber, validate-before-publish (shared with C07-R1..R3)")
    ctx.rule("R8", "the built-in checksum is the table-driven CRC-32C over every byte of the slice it is given (shared with C07-R5)")
    ctx.rule("R9", "the page layer starts on an empty device (PagedWriter::new asks the device for its end), so old bytes never show up as page fill (shared with C15-R2)")
    for cfg in ["lib", "lib_crc32c"]:
        prog, info = load_program(cfg, "e57")
        ctx.configs[cfg] = info
        ctx.cfg = cfg
        ctx.call(page_rules.seal_before_emit, prog, "R1", "table" if cfg == "lib" else "crate")
        ctx.call(page_rules.flush_before_seek, prog, "R2")
        ctx.call(page_rules.reload_after_advance, prog, "R3")
        ctx.call(page_rules.flush_protocol, prog, "R3")
        ctx.call(page_rules.formulas, prog, "R4")
        ctx.call(page_rules.constants_agree, prog, "R5")
        ctx.call(page_rules.cursor_writers, prog, "R5")
        ctx.call(page_rules.read_current_page_shape, prog, "R6")
        if cfg == "lib":
            ctx.call(crc_rules.crc32c_shape, prog, "R8")
        ctx.call(header_rules.placeholder, prog, "R9")
        ctx.call(cache_rules.serve_only_verified, prog, cache_rules.PR, rule="R4")
        ctx.call(cache_rules.who_may_write, prog, cache_rules.PR, rule="R7")
        ctx.call(cache_rules.invalidate_on_clobber, prog, cache_rules.PR, rule="R7")
        ctx.call(cache_rules.validate_before_publish, prog, cache_rules.PR, "table" if cfg == "lib" else "crate", rule="R7")
    ctx.cfg = None
