"""C05 — simple reader equals the documented view of the raw data (DESIGN §4 C05)."""
from mirlib import *
import simple_rules
import pcw_rules
import norm_rules

TECHNIQUE = "expression trees / polynomial normal forms of the coordinate, pose and scaled-integer formulas compared with the documented ones; assume-prune decision tables over enum discriminants for the conversion guards and the invalid-state decoding; option-flag <-> stage control-dependence and per-point stage order; index wiring tables; yield-count typestate"
EXPLANATION = (
    "Decides that convert_to_cartesian/convert_to_spherical/prepare_transform/transform_point/to_f64 compute exactly the "
    "documented formulas (as multisets of factors / sums of monomials); that for every combination of Cartesian and "
    "spherical validity the conversion functions change exactly what is documented (valid spherical replaces any non-valid "
    "Cartesian, directions only replace invalid ones, the pose touches only valid Cartesian values, intensity becomes grey "
    "only without colour); that stored invalid-state values 0/1/2 (0/1) map to the documented variants, other values are an "
    "error and absent state attributes default by presence of the data; that x/y/z, range/azimuth/elevation, r/g/b and "
    "row/column are read from the record positions of the same name with defaults -1; that each option setter writes only "
    "its flag, each post-processing stage is control-dependent on exactly its flag, both coordinate conversions run before "
    "the pose for every point, and normalisation switches feed the right channels; and that the iterator yields only while "
    "read < records with one increment per yield. The stage calls depend on their flag and on nothing else. Not decided: numeric agreement with the raw iterator on concrete files.")


def run(ctx):
    ctx.rule("R1", "formula trees: spherical<->Cartesian, quaternion -> matrix, pose, scaled integer")
    ctx.rule("R2", "invalid-state decision tables {0,1,2}/{0,1} -> variants, else error; defaults by presence; row/column default -1")
    ctx.rule("R3", "index wiring: Indices fields <- record names; components read from the matching tuple slot with the matching data type")
    ctx.rule("R4", "each setter writes exactly its flag; each stage depends on exactly its flag; conversions precede the pose per point; ni/nc feed intensity/colour normalisation")
    ctx.rule("R5", "conversion decision tables over (Cartesian validity x spherical validity), pose only on Valid, grey only without colour")
    ctx.rule("R6", "simple iterator yields only on the read < records edge with one read += 1 per yield")
    for cfg in (["lib"] if ctx.tier == "quick" else ["lib", "lib_crc32c"]):
        prog, info = load_program(cfg, "e57")
        ctx.configs[cfg] = info
        ctx.cfg = cfg
        ctx.call(simple_rules.formulas, prog, "R1")
        ctx.call(simple_rules.pop_point_tables, prog, "R2")
        ctx.call(simple_rules.indices_wiring, prog, "R3")
        ctx.call(simple_rules.option_stage, prog, "R4")
        ctx.call(simple_rules.conversion_tables, prog, "R5")
        ctx.call(norm_rules.selection_order, prog, "R4")
        ctx.call(pcw_rules.raw_reader_count, prog, "R6", path=simple_rules.IT, adt="pc_reader_simple::PointCloudReaderSimple", records=("pc", "records"))
    ctx.cfg = None
