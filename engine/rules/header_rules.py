"""File-header publication rules (C15-R1..R4, C02-R4)."""
from mirlib import *
from proto import *
from cache_rules import strip_casts, const_val

FIN = "e57_writer::E57Writer::<T>::finalize_customized_xml"
NEW = "e57_writer::E57Writer::<T>::new"
HW = "header::Header::write"
PSEEK = "paged_writer::PagedWriter::<T>::physical_seek"
PPOS = "paged_writer::PagedWriter::<T>::physical_position"
PSIZE = "paged_writer::PagedWriter::<T>::physical_size"
PFLUSH = "<paged_writer::PagedWriter<T> as std::io::Write>::flush"
DEVICE_TOUCHING = ("write_all", "write", "physical_seek", "seek", "align", "physical_size", "read_current_page", "write_fmt")


def _is_writer_field(t):
    return self_field(strip(t)) in ("writer",)


def publication_order(ctx, prog, rule):
    f = prog.fn(FIN)
    S = Steps(ctx, f, rule)
    R = Resolver(f)

    def xml_write(c, t, R):
        if not c.endswith("Write::write_all"):
            return False
        data = strip(R.operand(t["args"][1]))
        return _is_writer_field(R.operand(t["args"][0])) and data[0] == "call" and data[1].endswith("as_bytes") or \
            (_is_writer_field(R.operand(t["args"][0])) and contains_call(R.operand(t["args"][1]), "as_bytes"))
    S.step("xml-write", calls_where(f, xml_write), what="self.writer.write_all(xml.as_bytes())")
    S.step("physical-size", calls_where(f, lambda c, t, R: c == PSIZE))
    S.step("seek-0", calls_where(f, lambda c, t, R: c == PSEEK and const_val(R.operand(t["args"][1])) == 0))
    S.step("header-write", calls_where(f, lambda c, t, R: c == HW))
    S.step("final-flush", calls_where(f, lambda c, t, R: c == PFLUSH))
    for n in ("xml-write", "physical-size", "seek-0", "header-write", "final-flush"):
        S.must_pass(n)
    S.before("xml-write", "physical-size")
    S.before("physical-size", "seek-0")
    S.before("seek-0", "header-write")
    S.before("header-write", "final-flush")
    # nothing else touches the device after the header write
    hw = S.steps.get("header-write", [])
    after = reach(f.cfg(), [s for b in hw for s in f.cfg().get(b, [])])
    others = []
    for bi, t in f.calls():
        if bi in after and bi not in S.steps.get("final-flush", []):
            c = callee_of(t)
            last = c.rsplit("::", 1)[-1]
            if last in DEVICE_TOUCHING or c in (PSEEK, PSIZE, HW):
                others.append((bi, c))
    ctx.ob(rule, "nothing-after-header/%s" % short(f.path), not others and bool(hw),
           "device operations after Header::write other than the final flush: %s" % [short(c) for _, c in others],
           where=f.file_line(others[0][0]) if others else None)
    # the flush result decides success: it is returned (possibly converted), or it is propagated with `?` and every
    # Ok path passes through it (checked by on-every-ok-path/final-flush above)
    fwd = [(bi, p) for bi, si, cls, p in f.ret_assignments() if cls == "fwd"]
    okf = False
    for bi, p in fwd:
        tr = Resolver(f)._call(p, bi, 0, frozenset())
        st = strip(tr)
        okf = okf or (st[0] == "call" and st[1] == PFLUSH)
    ff = S.steps.get("final-flush", [])
    if not okf and ff:
        okf = all(branch_of_call(f, b) is not None for b in ff) and f.ok_reachable(removed=ff) is None
    ctx.ob(rule, "success-is-flush-result/%s" % short(f.path), okf, "the value returned on the success path is the (converted) result of the final flush")
    # physical_size must-calls flush before touching the device cursor
    g = prog.fn(PSIZE)
    S2 = Steps(ctx, g, rule)
    S2.step("flush", calls_where(g, lambda c, t, R: c == PFLUSH))
    S2.step("device-cursor", calls_where(g, lambda c, t, R: c.endswith("Seek::seek") or c.endswith("Seek::stream_position")))
    S2.must_pass("flush")
    S2.before("flush", "device-cursor")
    # header fields (C02-R4)
    hdr_fields(ctx, prog, rule)


def hdr_fields(ctx, prog, rule):
    f = prog.fn(FIN)
    R = Resolver(f)
    xmlw = calls_where(f, lambda c, t, R: c.endswith("Write::write_all"))
    found = False
    built = []                      # (block, stmt, {field: value tree}) of every real header value built here
    for bi in f.cfg():
        for si, st in enumerate(f.blocks[bi]["stmts"]):
            rv = st["rv"]
            if is_variant_agg(rv, "header::Header", "Header"):
                built.append((bi, si, {n: strip(R.operand(o)) for n, o in zip(rv["kind"]["fields"], rv["ops"])}))
    if not built:
        # `let mut header = Header::default(); header.xml_length = ..; ..`: the same value built by field assignment
        for n_ in range(len(f.locals)):
            if f.local_ty(n_) != "header::Header":
                continue
            ds_ = [d for d in f.defs().get(n_, []) if d[2] in f.cfg()]
            whole = [d for d in ds_ if not d[4]["proj"]]
            parts = [d for d in ds_ if len(d[4]["proj"]) == 1 and d[4]["proj"][0]["k"] == "field" and d[0] == "stmt"]
            if len(whole) == 1 and whole[0][0] == "call" and callee_of(whole[0][1]).endswith("header::Header as std::default::Default>::default") and parts and len(parts) + 1 == len(ds_):
                vals_ = {}
                dflt = ("call", callee_of(whole[0][1]), (), whole[0][2], ())
                for fld_ in ("signature", "major", "minor", "phys_length", "phys_xml_offset", "xml_length", "page_size"):
                    vals_[fld_] = ("field", dflt, fld_)
                dup = False
                for d in parts:
                    nm = d[4]["proj"][0]["name"]
                    dup = dup or not (vals_[nm][0] == "field" and vals_[nm][1] is dflt)
                    vals_[nm] = strip(R.rvalue(d[1]))
                if not dup:
                    built.append((parts[-1][2], parts[-1][3], vals_))
    for bi, si, vals in built:
        if True:
            found = True
            off = vals.get("phys_xml_offset")
            ok_off = off is not None and off[0] == "call" and off[1] == PPOS and all(f.dominates(off[3], w) for w in xmlw) and bool(xmlw)
            ctx.ob(rule, "header-field/phys_xml_offset", ok_off, "phys_xml_offset <- %s (must be physical_position() taken before the XML is written)" % tree_str(off), where=f.file_line(bi, si))
            ln = strip_casts(vals.get("xml_length"))
            # String::len, str::len, <[u8]>::len and Vec::len all count bytes (chars().count() would not)
            ok_len = ln[0] == "call" and ln[1].endswith("::len") and len(ln[2]) == 1
            # and the bytes written are the same as_bytes() value
            wr = [strip(R.operand(f.blocks[w]["term"]["args"][1])) for w in xmlw]
            same = any(strip(ln[2][0]) == w for w in wr) if ok_len else False
            ctx.ob(rule, "header-field/xml_length", ok_len and same, "xml_length <- %s; bytes written: %s" % (tree_str(ln), [tree_str(w) for w in wr]), where=f.file_line(bi, si))
            pl = vals.get("phys_length")
            ok_pl = pl is not None and pl[0] == "call" and pl[1] == PSIZE and all(f.dominates(w, pl[3]) for w in xmlw)
            ctx.ob(rule, "header-field/phys_length", ok_pl, "phys_length <- %s (must be physical_size() after the XML write)" % tree_str(pl), where=f.file_line(bi, si))
            ps = vals.get("page_size")
            ok_ps = ps is not None and ps[0] == "field" and ps[2] == "page_size" and strip(ps[1])[0] == "call" and strip(ps[1])[1].endswith("Default>::default")
            ctx.ob(rule, "header-field/page_size", ok_ps, "page_size <- %s (must be Header::default().page_size)" % tree_str(ps), where=f.file_line(bi, si))
    ctx.ob(rule, "header-literal/%s" % short(f.path), found, "finalize builds the real Header value", nontrivial=False)
    # Header::default constants and page constant agreement
    d = prog.fn("<header::Header as std::default::Default>::default")
    Rd = Resolver(d)
    t = strip(Rd.local(0))
    okd = False
    desc = tree_str(t)
    if t[0] == "agg" and t[1][0] == "adt":
        vals = dict(zip(t[1][3], t[2]))
        okd = all(const_val(vals.get(k, ("x",))) == 0 for k in ("phys_length", "phys_xml_offset", "xml_length")) and const_val(vals.get("page_size")) == 1024 \
            and const_val(vals.get("major")) == 1 and const_val(vals.get("minor")) == 0
        sig = strip(vals.get("signature"))
        okd = okd and sig[0] == "const" and bytes(sig[2]) == b"ASTM-E57"
    ctx.ob(rule, "placeholder-constants/Header::default", okd, "Header::default() = %s (offsets/lengths must be constant 0, page size 1024, version 1.0, signature ASTM-E57)" % desc)


def placeholder(ctx, prog, rule):
    f = prog.fn(NEW)
    S = Steps(ctx, f, rule)
    R = Resolver(f)

    def hw_default(c, t, R):
        if c != HW:
            return False
        a = strip(R.operand(t["args"][0]))
        return a[0] == "call" and a[1].endswith("header::Header as std::default::Default>::default")
    S.step("placeholder-write", calls_where(f, hw_default), what="Header::default().write(&mut writer)")
    S.must_pass("placeholder-write")
    # it is the first write: no other device write dominates / precedes it
    pw = S.steps["placeholder-write"]
    earlier = []
    for bi, t in f.calls():
        c = callee_of(t)
        if bi in pw:
            continue
        if c.rsplit("::", 1)[-1] in ("write_all", "write", "physical_seek", "align") or c.endswith("Blob::write"):
            if any(find_path(f.cfg(), [bi], {p}, set()) for p in pw):
                earlier.append(c)
    ctx.ob(rule, "placeholder-first/%s" % short(f.path), not earlier and bool(pw), "device writes before the placeholder header: %s" % earlier)
    # the paged writer requires an empty device
    g = prog.fn("paged_writer::PagedWriter::<T>::new")
    ctx.fn_seen(g)
    Rg = Resolver(g)
    ok_empty = False
    for bi in g.cfg():
        te = int_test_edges(g, Rg, bi)
        if te is None:
            continue
        val, cases, others = te
        o = strip(val)
        while o[0] == "cast":
            o = strip(o[2])
        if o[0] == "call" and o[1].endswith("Seek::seek") and 0 in cases:
            # every non-zero outcome must not reach an Ok return
            nonzero = [s for k, s in cases.items() if k != 0] + others
            ok_empty = all(g.ok_reachable(start=[s]) is None for s in nonzero)
    ctx.ob(rule, "empty-device/PagedWriter::new", ok_empty, "PagedWriter::new fails when seek(End(0)) != 0, so the placeholder is the first content of the device")


def who_may_seek(ctx, prog, rule):
    callers = sorted(prog.callers_of(HW))
    ok = set(callers) <= {NEW, FIN} and len(callers) == 2
    ctx.ob(rule, "who-may-call/Header::write", ok, "callers of Header::write: %s" % [short(c) for c in callers], nontrivial=False)
    # the publishing function is reachable only from the explicit top-level finalize calls: never from a Drop impl,
    # a constructor or a per-point-cloud / per-image writer (dropping a writer must not publish the header)
    rev = {}
    for p, outs in prog.callgraph().items():
        for o in outs:
            rev.setdefault(o, set()).add(p)
    up, st = set(), [FIN]
    while st:
        x = st.pop()
        for c in rev.get(x, ()):
            if c not in up:
                up.add(c)
                st.append(c)
    allowed_up = {FIN, FIN.rsplit("::", 1)[0] + "::finalize"}
    extra = sorted(up - allowed_up)
    ctx.ob(rule, "who-may-publish/finalize_customized_xml", not extra,
           "functions that can reach finalize_customized_xml: %s (only the public finalize entry points may; %s)" % (sorted(short(x) for x in up), ("UNEXPECTED: " + ", ".join(extra)) if extra else "ok"),
           where=("%s:%d" % (prog.fns[extra[0]].span["file"], prog.fns[extra[0]].span["l0"])) if extra else None)
    n = 0
    for p in sorted(prog.callers_of(PSEEK)):
        f = prog.fn(p)
        ctx.fn_seen(f)
        R = Resolver(f)
        for bi, t in f.calls(lambda c, t: c == PSEEK):
            n += 1
            a = strip(R.operand(t["args"][1]))
            desc = tree_str(a)
            if const_val(a) is not None:
                ok = const_val(a) == 0 and p == FIN
                why = "constant target %d is only allowed in finalize_customized_xml" % const_val(a)
            elif a[0] == "call" and a[1] == PPOS:
                ok, why = True, "target is a value returned by physical_position()"
            elif self_field(a) is not None:
                fld = self_field(a)
                ok, why = _field_from_position(prog, f, fld), "target is self.%s which is only ever assigned from physical_position()" % fld
            else:
                ok, why = False, "target has unknown provenance"
            ctx.ob(rule, "seek-target/%s/%s" % (short(p), desc if len(desc) < 50 else "expr"), ok, "%s: %s" % (desc, why), where=f.file_line(bi))
    ctx.floor(rule, "physical_seek call sites", n, 3, semantic=False)


def _field_from_position(prog, f, fld):
    """every store into <Self>.fld anywhere in the crate comes from physical_position()."""
    adt = f.self_ty.split("<")[0]
    good, seen = True, 0
    for p, g in prog.fns.items():
        Rg = Resolver(g)
        for bi, si, kind, payload in field_assignments(g, adt, fld):
            seen += 1
            t = strip(Rg.rvalue(payload)) if kind == "stmt" else strip(Rg._call(payload, bi, 0, frozenset()))
            good = good and t[0] == "call" and t[1] == PPOS
        for bi in g.cfg():
            for si, st in enumerate(g.blocks[bi]["stmts"]):
                rv = st["rv"]
                if rv["k"] == "aggregate" and rv["kind"].get("agg") == "adt" and rv["kind"]["adt"] == adt and fld in rv["kind"]["fields"]:
                    seen += 1
                    t = strip(Rg.operand(rv["ops"][rv["kind"]["fields"].index(fld)]))
                    good = good and t[0] == "call" and t[1] == PPOS
    return good and seen > 0


def reader_acceptance(ctx, prog, rule):
    f = prog.fn("e57_reader::E57Reader::<T>::new")
    S = Steps(ctx, f, rule)
    steps = [
        ("header-read", lambda c, t, R: c == "header::Header::read"),
        ("paged-reader-new", lambda c, t, R: c == "paged_reader::PagedReader::<T>::new"),
        ("extract-xml", lambda c, t, R: c == "e57_reader::E57Reader::<T>::extract_xml"),
        ("utf8", lambda c, t, R: c.endswith("String::from_utf8")),
        ("xml-parse", lambda c, t, R: c.startswith("roxmltree::") and c.endswith("::parse")),
        ("root", lambda c, t, R: c == "root::root_from_document"),
    ]
    for n, p in steps:
        S.step(n, calls_where(f, p))
        S.must_pass(n)
    for (a, _), (b, _) in zip(steps, steps[1:]):
        S.before(a, b)
    # each of them is followed by `?`
    for n, _ in steps:
        for b in S.steps.get(n, []):
            br = branch_of_call(f, b)
            ctx.ob(rule, "checked/%s/%s" % (short(f.path), n), br is not None, "result of step '%s' is propagated with ?" % n, where=f.file_line(b))
    # extract_xml gets header.xml_length / phys_xml_offset
    R = Resolver(f)
    for b in S.steps.get("extract-xml", []):
        t = f.blocks[b]["term"]
        off, ln = strip_casts(R.operand(t["args"][1])), strip_casts(R.operand(t["args"][2]))
        ok = off[0] == "field" and off[2] == "phys_xml_offset" and ln[0] == "field" and ln[2] == "xml_length"
        ctx.ob(rule, "extract-args/%s" % short(f.path), ok, "extract_xml(reader, %s, %s)" % (tree_str(off), tree_str(ln)), where=f.file_line(b))
    # extract_xml reads exactly `length` bytes
    g = prog.fn("e57_reader::E57Reader::<T>::extract_xml")
    ctx.fn_seen(g)
    Rg = Resolver(g)
    okx = False
    for bi, t in g.calls(lambda c, t: c.endswith("Read::read_exact")):
        buf = Rg.operand(t["args"][1])
        for sub in leaves(buf):
            if sub[0] == "call" and sub[1].endswith("from_elem") and strip_casts(sub[2][1]) == ("param", 3):
                okx = True
    ctx.ob(rule, "exact-length/extract_xml", okx, "extract_xml read_exact()s a buffer of vec![0; length]")
    # PagedReader::new rejects empty files and sizes that are no multiple of the page size
    h = prog.fn("paged_reader::PagedReader::<T>::new")
    ctx.fn_seen(h)
    Rh = Resolver(h)
    checks = {"zero-size": False, "multiple-of-page": False}
    for bi in h.cfg():
        t = h.blocks[bi]["term"]
        if t["k"] != "switch":
            continue
        dl = op_place(t["discr"])
        d = strip(Rh.place(dl)) if dl else None
        if not d or d[0] != "binop" or d[1] not in ("Eq", "Ne"):
            continue
        a, b = strip(d[2]), strip(d[3])
        e = switch_edges(h, bi)
        # the same test spelled (size / page) * page != size
        for x, y in ((a, b), (b, a)):
            xs = strip_casts(x)
            if xs[0] == "binop" and xs[1] == "Mul" and strip(y)[0] == "call" and strip(y)[1].endswith("Seek::seek"):
                for p_, q_ in ((xs[2], xs[3]), (xs[3], xs[2])):
                    pd = strip_casts(p_)
                    if pd[0] == "binop" and pd[1] == "Div" and strip(pd[2]) == strip(y) and strip_casts(pd[3]) == strip_casts(q_) == ("param", 2):
                        unequal = (e.get("0") if d[1] == "Eq" else e.get("1", e["otherwise"]))
                        checks["multiple-of-page"] = h.ok_reachable(start=[unequal]) is None
        if const_val(b) != 0:
            a, b = b, a
        if const_val(b) != 0:
            continue
        bad_succ = (e["otherwise"] if d[1] == "Eq" else e.get("0"))
        good_succ = (e.get("0") if d[1] == "Eq" else e["otherwise"])
        if a[0] == "call" and a[1].endswith("Seek::seek"):
            checks["zero-size"] = h.ok_reachable(start=[bad_succ]) is None
        rem = as_remainder(a)
        if rem is not None and rem[0][0] == "call" and rem[0][1].endswith("Seek::seek") and rem[1] == ("param", 2):
            # `size % page != 0` -> error: here the *non-zero* branch must fail
            nz = (e.get("0") if d[1] == "Eq" else e["otherwise"])
            checks["multiple-of-page"] = h.ok_reachable(start=[nz]) is None
    # the same tests in any spelling that compares a value with 0 (`match size { 0 => return Err(..), .. }`)
    for bi in h.cfg():
        te = int_test_edges(h, Rh, bi)
        if te is None or 0 not in te[1]:
            continue
        val, cases, others = te
        v_ = strip(val)
        while v_[0] == "cast":
            v_ = strip(v_[2])
        if v_[0] == "call" and v_[1].endswith("Seek::seek"):
            if h.ok_reachable(start=[cases[0]]) is None:
                checks["zero-size"] = True
        rem = as_remainder(v_)
        if rem is not None and strip(rem[0])[0] == "call" and strip(rem[0])[1].endswith("Seek::seek") and strip_casts(rem[1]) == ("param", 2):
            if all(h.ok_reachable(start=[o]) is None for o in others) and others:
                checks["multiple-of-page"] = True
    for k, v in checks.items():
        ctx.ob(rule, "size-check/%s/PagedReader::new" % k, v, "PagedReader::new cannot return Ok when the %s test fails" % k)
