"""C15 — an interrupted write is never mistaken for a complete file (DESIGN §4 C15)."""
from mirlib import *
from proto import *
import header_rules
import cache_rules

TECHNIQUE = "MIR must-pass-through and dominance order of the publication protocol (XML written, flushed, then header patched last), who-may-call tables for Header::write / physical_seek(0), constant placeholder header, reader acceptance dominated by XML parse"
EXPLANATION = (
    "Decides that on every successful path of finalize_customized_xml the XML bytes are written, then physical_size "
    "(which must-calls flush) runs, then physical_seek(0), then Header::write of the real header, then flush, and that "
    "nothing else touches the device after the header write; that the header written by E57Writer::new is "
    "Header::default() whose offsets/lengths are the constant 0; that only new/finalize_customized_xml call Header::write and "
    "only the latter seeks to offset 0, every other seek target coming from physical_position; and that E57Reader::new "
    "returns Ok only after header check, page-size/size check, XML extraction of xml_length bytes, UTF-8 and XML parse and "
    "root lookup succeeded. Not decided: torn-page behaviour and device write ordering (run-time).")

FIN = "e57_writer::E57Writer::<T>::finalize_customized_xml"


def run(ctx):
    ctx.rule("R1", "finalize: write_all(xml) -> physical_size (flush) -> physical_seek(0) -> Header::write -> flush on every Ok path, in this order; nothing else touches the device after the header write")
    ctx.rule("R2", "E57Writer::new writes Header::default() first; its phys_length / phys_xml_offset / xml_length are constant 0")
    ctx.rule("R3", "Header::write is called only from new and finalize_customized_xml; physical_seek(0) only from the latter; all other seek targets come from physical_position")
    ctx.rule("R4", "E57Reader::new returns Ok only after Header::read, PagedReader::new, extract_xml(xml_length), from_utf8, Document::parse and root_from_document succeeded; pages that fail their checksum (torn writes) are never served from the cache (C07-R2..R4)")
    for cfg in (["lib"] if ctx.tier == "quick" else ["lib", "lib_crc32c"]):
        prog, info = load_program(cfg, "e57")
        ctx.configs[cfg] = info
        ctx.cfg = cfg
        ctx.call(header_rules.publication_order, prog, "R1")
        ctx.call(header_rules.placeholder, prog, "R2")
        ctx.call(header_rules.who_may_seek, prog, "R3")
        ctx.call(header_rules.reader_acceptance, prog, "R4")
        # a partially written (torn) page fails its checksum: the page cache must never serve its bytes afterwards
        ctx.call(cache_rules.invalidate_on_clobber, prog, cache_rules.PR, rule="R4")
        ctx.call(cache_rules.validate_before_publish, prog, cache_rules.PR, "table" if cfg == "lib" else "crate", rule="R4")
        ctx.call(cache_rules.serve_only_verified, prog, cache_rules.PR, rule="R4")
    ctx.cfg = None
